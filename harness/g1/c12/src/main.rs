//! G1 correspondence harness for C12: runs writer/reader programs on the REAL
//! UnrestrictedAtomic<V<N>> (the two-cell sequence lock behind every blackboard entry) under the
//! baton scheduler and prints every gated access; plus an ungated real-thread stress mode.
//! usage: c12 exh <bound> <shard> <nshards> <seed> <maxexecs> [all|rot]   (rot: two of the six sizes per program)
//!        c12 rnd <count> <shard> <nshards> <seed>
//!        c12 one <size> <program> <schedule>     (replay: program "acq,st1,ln2|ld,ld", schedule "0,0,1")
//!        c12 stress <size> <millis> <readers>    (real threads, no gate; self-checking payloads)
//! ops: acq rel st<b> (store) ln<b> (loan: get_ptr + write, then update) dc<b> (loan, write, discard) ld (load)
extern crate iceoryx2_bb_loggers;
use iceoryx2_bb_lock_free::spmc::unrestricted_atomic::{Producer, UnrestrictedAtomic};
use sched::*;
use std::io::Write;
use std::sync::Arc;

/// value of N bytes: N-1 copies of one counter byte and a checksum byte (N = 1: just the byte);
/// a mixture of two different values is never well formed
#[repr(C)]
#[derive(Clone, Copy)]
pub struct V<const N: usize>([u8; N]);

fn mk<const N: usize>(b: u8) -> V<N> {
    let mut a = [b; N];
    if N >= 2 { a[N - 1] = 255 - b; }
    V(a)
}
fn well_formed<const N: usize>(v: &V<N>) -> bool {
    if N < 2 { return true; }
    let b = v.0[0];
    v.0[..N - 1].iter().all(|x| *x == b) && v.0[N - 1] == 255 - b
}
/// the result code of a load (the model computes the same hash over the bytes it returns)
fn hash(bytes: &[u8]) -> u64 {
    let mut h: u64 = 7;
    for x in bytes { h = (h * 31 + *x as u64 + 1) % 4294967296; }
    h
}
const TORN: u64 = 1 << 40;
fn code<const N: usize>(v: &V<N>) -> u64 { hash(&v.0) + if well_formed(v) { 0 } else { TORN } }

#[derive(Clone, Copy, Debug, PartialEq)]
enum Op { Acq, Rel, St(u8), Ln(u8), Dc(u8), Ld }

fn op_str(o: &Op) -> String {
    match o { Op::Acq => "acq".into(), Op::Rel => "rel".into(), Op::St(b) => format!("st{}", b), Op::Ln(b) => format!("ln{}", b),
        Op::Dc(b) => format!("dc{}", b), Op::Ld => "ld".into() }
}
fn parse_op(s: &str) -> Op {
    match s { "acq" => Op::Acq, "rel" => Op::Rel, "ld" => Op::Ld,
        _ if s.starts_with("st") => Op::St(s[2..].parse().unwrap()),
        _ if s.starts_with("ln") => Op::Ln(s[2..].parse().unwrap()),
        _ if s.starts_with("dc") => Op::Dc(s[2..].parse().unwrap()),
        _ => panic!("bad op {}", s) }
}
fn prog_str(p: &[Vec<Op>]) -> String {
    p.iter().map(|t| t.iter().map(op_str).collect::<Vec<_>>().join(",")).collect::<Vec<_>>().join("|")
}
fn parse_prog(s: &str) -> Vec<Vec<Op>> {
    s.split('|').map(|t| t.split(',').filter(|x| !x.is_empty()).map(parse_op).collect()).collect()
}

type Body = Box<dyn FnOnce() + Send>;

fn body<const N: usize>(a: &Arc<UnrestrictedAtomic<V<N>>>, ops: &[Op]) -> Body {
    let a = a.clone();
    let ops: Vec<Op> = ops.to_vec();
    Box::new(move || {
        // the Producer borrows the atomic: keep the Arc alive for the whole body (it is leaked below)
        let a: &'static UnrestrictedAtomic<V<N>> = unsafe { &*Arc::as_ptr(&a) };
        let mut prod: Option<Producer<'static, V<N>>> = None;
        for op in ops {
            match op {
                Op::Acq => { let p = a.acquire_producer(); let ok = p.is_some(); if ok { prod = p; } ret(if ok { 1 } else { 0 }); }
                Op::Rel => { if prod.is_some() { prod = None; ret(0); } }
                Op::St(b) => { if let Some(p) = prod.as_ref() { p.store(mk::<N>(b)); ret(0); } }
                Op::Ln(b) => { if let Some(p) = prod.as_ref() {
                    unsafe { let ptr = p.__internal_get_ptr_to_write_cell(); ptr.write(mk::<N>(b)); }
                    ret(0);
                    unsafe { p.__internal_update_write_cell(); }
                    ret(0); } }
                Op::Dc(b) => { if let Some(p) = prod.as_ref() {
                    unsafe { let ptr = p.__internal_get_ptr_to_write_cell(); ptr.write(mk::<N>(b)); }
                    ret(0); } }
                Op::Ld => { let v = a.load(); ret(code(&v)); }
            }
        }
        // a handle still held at the end is leaked, not dropped: the model program ends here
        core::mem::forget(prod);
    }) as Body
}

enum AnyA { A1(Arc<UnrestrictedAtomic<V<1>>>), A2(Arc<UnrestrictedAtomic<V<2>>>), A3(Arc<UnrestrictedAtomic<V<3>>>),
            A9(Arc<UnrestrictedAtomic<V<9>>>), A65(Arc<UnrestrictedAtomic<V<65>>>), A129(Arc<UnrestrictedAtomic<V<129>>>) }
const SIZES: [usize; 6] = [1, 2, 3, 9, 65, 129];
const INIT: u8 = 0;

fn make(n: usize) -> AnyA {
    match n {
        1 => AnyA::A1(Arc::new(UnrestrictedAtomic::new(mk::<1>(INIT)))), 2 => AnyA::A2(Arc::new(UnrestrictedAtomic::new(mk::<2>(INIT)))),
        3 => AnyA::A3(Arc::new(UnrestrictedAtomic::new(mk::<3>(INIT)))), 9 => AnyA::A9(Arc::new(UnrestrictedAtomic::new(mk::<9>(INIT)))),
        65 => AnyA::A65(Arc::new(UnrestrictedAtomic::new(mk::<65>(INIT)))), 129 => AnyA::A129(Arc::new(UnrestrictedAtomic::new(mk::<129>(INIT)))),
        _ => panic!("size"),
    }
}
fn bodies(a: &AnyA, prog: &[Vec<Op>]) -> Vec<Body> {
    prog.iter().map(|ops| match a {
        AnyA::A1(x) => body(x, ops), AnyA::A2(x) => body(x, ops), AnyA::A3(x) => body(x, ops),
        AnyA::A9(x) => body(x, ops), AnyA::A65(x) => body(x, ops), AnyA::A129(x) => body(x, ops),
    }).collect()
}
/// final observation (ungated, main thread, after all threads are done): write_cell and the value
fn final_obs(a: &AnyA) -> (u64, u64) {
    match a {
        AnyA::A1(x) => (x.__internal_get_write_cell(), code(&x.load())), AnyA::A2(x) => (x.__internal_get_write_cell(), code(&x.load())),
        AnyA::A3(x) => (x.__internal_get_write_cell(), code(&x.load())), AnyA::A9(x) => (x.__internal_get_write_cell(), code(&x.load())),
        AnyA::A65(x) => (x.__internal_get_write_cell(), code(&x.load())), AnyA::A129(x) => (x.__internal_get_write_cell(), code(&x.load())),
    }
}

fn emit(n: usize, prog: &[Vec<Op>], ex: &Exec, a: &AnyA, out: &mut impl Write) {
    let _ = writeln!(out, "C {} {}", n, prog_str(prog));
    print_exec(ex, out);
    let sched: Vec<String> = ex.choices.iter().map(|c| c.to_string()).collect();
    let _ = writeln!(out, "S {}", sched.join(","));
    let (w, c) = final_obs(a);
    let _ = writeln!(out, "F {},{}", w, c);
}

/// writer programs with k <= 3 updates (copy and loan style, discarded loans) x 1..2 readers with
/// 1..2 loads; plus handle hand-over / contention programs
fn programs(all_sizes: bool) -> Vec<(usize, Vec<Vec<Op>>)> {
    use Op::*;
    let writers: Vec<Vec<Op>> = vec![
        vec![Acq, St(1)],
        vec![Acq, Ln(1)],
        vec![Acq, St(1), Ln(2)],
        vec![Acq, Ln(1), St(2), St(3)],
        vec![Acq, St(1), Dc(9), Ln(2)],
        vec![Acq, St(1), St(2), Ln(3)],
    ];
    let readers: Vec<Vec<Vec<Op>>> = vec![
        vec![vec![Ld]], vec![vec![Ld, Ld]], vec![vec![Ld], vec![Ld]], vec![vec![Ld, Ld], vec![Ld]], vec![vec![Ld, Ld], vec![Ld, Ld]],
    ];
    let mut base: Vec<Vec<Vec<Op>>> = Vec::new();
    for w in &writers {
        for r in &readers {
            let mut p = vec![w.clone()];
            p.extend(r.iter().cloned());
            base.push(p);
        }
    }
    // hand-over of the producer handle, a losing acquire_producer, a reader that also writes
    base.push(vec![vec![Acq, St(1), Rel], vec![Acq, St(2), Ld], vec![Ld, Ld]]);
    base.push(vec![vec![Acq, Ln(1), Rel, Acq, St(3)], vec![Ld, Acq, St(2), Rel, Ld]]);
    base.push(vec![vec![Acq, Dc(7), St(1), Rel], vec![Acq, Ld, Ld], vec![Ld, Acq, Ln(2)]]);
    let mut v = Vec::new();
    for (j, p) in base.into_iter().enumerate() {
        if all_sizes { for &n in SIZES.iter() { v.push((n, p.clone())); } }
        else {
            // quick tier: the gate sequence does not depend on the size; two of the six sizes per program, rotating
            v.push((SIZES[j % 6], p.clone()));
            v.push((SIZES[(j + 3 + j / 6) % 6], p.clone()));
        }
    }
    v
}

fn replay_chooser(sch: Vec<usize>) -> impl FnMut(usize, &[usize], Option<usize>) -> Choice {
    move |step: usize, enabled: &[usize], last: Option<usize>| -> Choice {
        if step < sch.len() && enabled.contains(&sch[step]) { Choice::Run(sch[step]) }
        else { match last { Some(l) if enabled.contains(&l) => Choice::Run(l), _ => Choice::Run(enabled[0]) } }
    }
}

/// real threads, no gate: one writer storing values number 1, 2, 3, ... (counter byte = k mod 251,
/// alternating store / loan), readers loading all the time.  Every loaded value must be well
/// formed (in one piece) and must have been the current value at some instant of the load:
/// its number k satisfies g0 - 1 <= k <= g1 - 1 for the write_cell values g0 / g1 read before /
/// after the load; per reader k never decreases.
fn stress<const N: usize>(millis: u64, nreaders: usize, churn: bool) {
    use std::sync::atomic::{AtomicBool, AtomicU64, Ordering};
    let a: &'static UnrestrictedAtomic<V<N>> = Box::leak(Box::new(UnrestrictedAtomic::new(mk::<N>(0))));
    let stop: &'static AtomicBool = Box::leak(Box::new(AtomicBool::new(false)));
    let torn: &'static AtomicU64 = Box::leak(Box::new(AtomicU64::new(0)));
    let stale: &'static AtomicU64 = Box::leak(Box::new(AtomicU64::new(0)));
    let back: &'static AtomicU64 = Box::leak(Box::new(AtomicU64::new(0)));
    let loads: &'static AtomicU64 = Box::leak(Box::new(AtomicU64::new(0)));
    let overlapped: &'static AtomicU64 = Box::leak(Box::new(AtomicU64::new(0)));
    let mut hs = Vec::new();
    for _ in 0..nreaders {
        hs.push(std::thread::spawn(move || {
            let mut last_k: u64 = 0;
            let mut n = 0u64; let mut ov = 0u64;
            while !stop.load(Ordering::Relaxed) {
                let g0 = a.__internal_get_write_cell();
                let v = a.load();
                let g1 = a.__internal_get_write_cell();
                n += 1;
                if g1 != g0 { ov += 1; }
                if !well_formed(&v) { torn.fetch_add(1, Ordering::Relaxed); continue; }
                // the unique k in [g0-1, g1-1] with k mod 251 == b, if the window is shorter than 251
                let b = v.0[0] as u64;
                let lo = g0 - 1; let hi = g1 - 1;
                let mut k = lo + (b + 251 - lo % 251) % 251;
                if hi - lo >= 251 { k = k.max(last_k); if k % 251 != b { k = last_k + (b + 251 - last_k % 251) % 251; } }
                if k > hi { stale.fetch_add(1, Ordering::Relaxed); continue; }
                if k < last_k { back.fetch_add(1, Ordering::Relaxed); }
                last_k = k;
            }
            loads.fetch_add(n, Ordering::Relaxed); overlapped.fetch_add(ov, Ordering::Relaxed);
        }));
    }
    // churn: the producer handle is acquired for every single update and dropped afterwards
    // (the usage of the blackboard documentation examples: writer.entry(..)?.update_with_copy(v))
    let mut p = Some(a.acquire_producer().unwrap());
    let t0 = std::time::Instant::now();
    let mut k: u64 = 0;
    while t0.elapsed().as_millis() < millis as u128 {
        for _ in 0..64 {
            k += 1;
            let v = mk::<N>((k % 251) as u8);
            if churn && p.is_none() { p = Some(a.acquire_producer().unwrap()); }
            { let p = p.as_ref().unwrap();
              if k % 2 == 0 { p.store(v); } else { unsafe { let ptr = p.__internal_get_ptr_to_write_cell(); ptr.write(v); p.__internal_update_write_cell(); } } }
            if churn { p = None; }
        }
        if churn { std::thread::yield_now(); }
    }
    drop(p);
    stop.store(true, Ordering::Relaxed);
    for h in hs { let _ = h.join(); }
    println!("STRESS size={} readers={} stores={} loads={} loads_overlapping_a_store={} torn={} stale_or_future={} went_back={}",
        N, nreaders, k, loads.load(Ordering::Relaxed), overlapped.load(Ordering::Relaxed), torn.load(Ordering::Relaxed), stale.load(Ordering::Relaxed), back.load(Ordering::Relaxed));
}

fn main() {
    if std::env::var("VERIF_PANIC_VERBOSE").is_err() { std::panic::set_hook(Box::new(|_| {})); }
    iceoryx2_log::set_log_level(iceoryx2_log::LogLevel::Fatal);
    let a: Vec<String> = std::env::args().collect();
    let stdout = std::io::stdout();
    let mut out = std::io::BufWriter::with_capacity(1 << 20, stdout.lock());
    match a[1].as_str() {
        "exh" => {
            install();
            let bound: usize = a[2].parse().unwrap();
            let shard: usize = a[3].parse().unwrap(); let nsh: usize = a[4].parse().unwrap();
            let maxexecs: usize = a.get(6).map(|s| s.parse().unwrap()).unwrap_or(100000);
            let all_sizes = a.get(7).map(|s| s == "all").unwrap_or(true);
            for (i, (n, prog)) in programs(all_sizes).into_iter().enumerate() {
                if i % nsh != shard { continue; }
                let cur: std::cell::RefCell<Option<AnyA>> = std::cell::RefCell::new(None);
                let mut mk_ = || { let q = make(n); let b = bodies(&q, &prog); *cur.borrow_mut() = Some(q); b };
                let outcell = std::cell::RefCell::new(&mut out);
                let mut visit = |ex: &Exec| { let q = cur.borrow(); emit(n, &prog, ex, q.as_ref().unwrap(), &mut **outcell.borrow_mut()); };
                explore(bound, maxexecs, &mut mk_, &mut visit);
            }
        }
        "rnd" => {
            install();
            let count: u64 = a[2].parse().unwrap();
            let shard: u64 = a[3].parse().unwrap(); let nsh: u64 = a[4].parse().unwrap(); let seed: u64 = a[5].parse().unwrap();
            for i in 0..count {
                if i % nsh != shard { continue; }
                let mut rng = Rng(seed ^ i.wrapping_mul(0x2545F4914F6CDD1D));
                let n = SIZES[rng.below(6) as usize];
                let nw = 3 + rng.below(6) as usize;
                let mut w = vec![Op::Acq];
                for k in 0..nw {
                    let b = (10 + k) as u8;
                    match rng.below(8) { 0 | 1 | 2 => w.push(Op::St(b)), 3 | 4 | 5 => w.push(Op::Ln(b)), 6 => w.push(Op::Dc(b)), _ => { w.push(Op::Rel); w.push(Op::Acq); w.push(Op::St(b)); } }
                }
                let nr = 1 + rng.below(2) as usize;
                let mut prog = vec![w];
                for _ in 0..nr {
                    let mut r = Vec::new();
                    for _ in 0..(2 + rng.below(4)) { if rng.below(6) == 0 { r.push(Op::Acq); } r.push(Op::Ld); }
                    prog.push(r);
                }
                let q = make(n);
                let ex = run_random(rng.next(), bodies(&q, &prog));
                emit(n, &prog, &ex, &q, &mut out);
            }
        }
        // weak-memory correspondence: seeded random programs / schedules with C11-permitted STALE values
        // of write_cell injected into the readers' loads and failed compare-exchanges
        "ras" => {
            install();
            let count: u64 = a[2].parse().unwrap();
            let shard: u64 = a[3].parse().unwrap(); let nsh: u64 = a[4].parse().unwrap(); let seed: u64 = a[5].parse().unwrap();
            let percent: u64 = a.get(6).map(|s| s.parse().unwrap()).unwrap_or(40);
            for i in 0..count {
                if i % nsh != shard { continue; }
                let mut rng = Rng(seed ^ i.wrapping_mul(0x2545F4914F6CDD1D) ^ 0x5157);
                let n = SIZES[rng.below(6) as usize];
                let nw = 3 + rng.below(6) as usize;
                let mut w = vec![Op::Acq];
                for k in 0..nw {
                    let b = (10 + k) as u8;
                    match rng.below(7) { 0 | 1 | 2 => w.push(Op::St(b)), 3 | 4 | 5 => w.push(Op::Ln(b)), _ => w.push(Op::Dc(b)) }
                }
                let nr = 1 + rng.below(2) as usize;
                let mut prog = vec![w];
                for _ in 0..nr {
                    let mut r = Vec::new();
                    for _ in 0..(2 + rng.below(4)) { r.push(Op::Ld); }
                    prog.push(r);
                }
                let q = make(n);
                sched::stale_enable(rng.next(), percent, &["unrestricted_atomic.rs"]);
                let ex = run_random(rng.next(), bodies(&q, &prog));
                let inj = sched::stale_disable();
                let _ = writeln!(out, "C ra {} {}", n, prog_str(&prog));
                print_exec(&ex, &mut out);
                let schedv: Vec<String> = ex.choices.iter().map(|c| c.to_string()).collect();
                let _ = writeln!(out, "S {} inj={}", schedv.join(","), inj);
                let (w, c) = final_obs(&q);
                let _ = writeln!(out, "F {},{}", w, c);
            }
        }
        "one" => {
            install();
            let n: usize = a[2].parse().unwrap();
            let prog = parse_prog(&a[3]);
            let sch: Vec<usize> = a[4].split(',').filter(|s| !s.is_empty()).map(|s| s.parse().unwrap()).collect();
            let q = make(n);
            let mut chooser = replay_chooser(sch);
            let ex = run_threads(bodies(&q, &prog), &mut chooser);
            emit(n, &prog, &ex, &q, &mut out);
        }
        "stress" => {
            let n: usize = a[2].parse().unwrap(); let ms: u64 = a[3].parse().unwrap(); let r: usize = a[4].parse().unwrap();
            let _ = out.flush();
            let c = a.get(5).map(|s| s == "churn").unwrap_or(false);
            match n { 1 => stress::<1>(ms, r, c), 2 => stress::<2>(ms, r, c), 3 => stress::<3>(ms, r, c), 9 => stress::<9>(ms, r, c), 65 => stress::<65>(ms, r, c), 129 => stress::<129>(ms, r, c),
                      4096 => stress::<4096>(ms, r, c), 65536 => stress::<65536>(ms, r, c), _ => panic!("size") }
        }
        _ => panic!("mode"),
    }
    let _ = out.flush();
}
