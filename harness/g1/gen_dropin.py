#!/usr/bin/env python3
"""Generates harness/g1/sync-dropin: a copy of /repo/iceoryx2-pal/concurrency-sync (current
working tree) whose atomic type aliases and UnsafeCell alias point at the gated wrappers of
verif_gate.rs.  Fails loudly if the expected alias lines are not found."""
import os, re, shutil, sys
HERE = os.path.dirname(os.path.abspath(__file__))
REPO = os.environ.get("VERIF_REPO", "/repo")
SRC = os.path.join(REPO, "iceoryx2-pal", "concurrency-sync")
DST = sys.argv[1] if len(sys.argv) > 1 else os.path.join(HERE, "..", "..", "build", "sync-dropin")

def main():
    tmp = DST + ".tmp"
    shutil.rmtree(tmp, ignore_errors=True)
    os.makedirs(tmp)
    shutil.copytree(os.path.join(SRC, "src"), os.path.join(tmp, "src"))
    shutil.copy(os.path.join(HERE, "verif_gate.rs"), os.path.join(tmp, "src", "verif_gate.rs"))
    # version from the workspace
    ws = open(os.path.join(REPO, "Cargo.toml")).read()
    m = re.search(r'(?m)^version\s*=\s*"([^"]+)"', ws)
    version = m.group(1) if m else "0.9.999"
    open(os.path.join(tmp, "Cargo.toml"), "w").write(
        '[package]\nname = "iceoryx2-pal-concurrency-sync"\nversion = "%s"\nedition = "2024"\n\n'
        '[features]\ndefault = []\nstd = []\n\n[dependencies]\n\n[lints.rust]\nunexpected_cfgs = { level = "allow", check-cfg = [\'cfg(loom)\'] }\n' % version)
    at = os.path.join(tmp, "src", "atomic.rs")
    s = open(at).read()
    names = ["AtomicBool", "AtomicUsize", "AtomicIsize", "AtomicU8", "AtomicU16", "AtomicU32", "AtomicI8", "AtomicI16", "AtomicI32", "AtomicI64", "AtomicU64"]
    for n in names:
        old = "pub type %s = core::sync::atomic::%s;" % (n, n)
        if s.count(old) != 1:
            sys.exit("gen_dropin: alias for %s not found exactly once in atomic.rs (found %d)" % (n, s.count(old)))
        s = s.replace(old, "pub type %s = crate::verif_gate::%s;" % (n, n))
    left = re.findall(r"pub type (\w+) = core::sync::atomic::(\w+);", s)
    left = [x for x in left if x[0] != "Ordering"]
    if left:
        sys.exit("gen_dropin: unhandled atomic aliases: %r" % (left,))
    # the lock-based generic Atomic<T> reaches its cell inside const fns: use the ungated raw accessor there
    s = s.replace("self.data.get()", "self.data.get_ungated()")
    open(at, "w").write(s)
    ce = os.path.join(tmp, "src", "cell.rs")
    s = open(ce).read()
    old = "pub type UnsafeCell<T> = core::cell::UnsafeCell<T>;"
    if s.count(old) != 1:
        sys.exit("gen_dropin: UnsafeCell alias not found exactly once in cell.rs")
    s = s.replace(old, "pub use crate::verif_gate::UnsafeCell;")
    open(ce, "w").write(s)
    lib = os.path.join(tmp, "src", "lib.rs")
    s = open(lib).read()
    if "pub mod atomic;" not in s:
        sys.exit("gen_dropin: lib.rs has no `pub mod atomic;`")
    s = s.replace("pub mod atomic;", "pub mod atomic;\npub mod verif_gate;", 1)
    open(lib, "w").write(s)
    # only replace the live copy when something changed (keeps cargo fingerprints stable)
    def tree(d):
        out = {}
        for root, _, files in os.walk(d):
            for f in files:
                p = os.path.join(root, f)
                out[os.path.relpath(p, d)] = open(p, "rb").read()
        return out
    if not os.path.isdir(DST) or tree(DST) != tree(tmp):
        shutil.rmtree(DST, ignore_errors=True)
        os.rename(tmp, DST)
        print("gen_dropin: regenerated", DST)
    else:
        shutil.rmtree(tmp)
        print("gen_dropin: up to date")

if __name__ == "__main__":
    main()
