//! G1 correspondence harness for C10: runs add / remove / recover / update_state programs on the
//! REAL mpmc::Container<Pay> under the baton scheduler and prints every gated access.
//! usage: c10 exh <bound> <shard> <nshards> <seed> <maxexecs> [set: 0 quick | 1 thorough]
//!        c10 rnd <count> <shard> <nshards> <seed>
//!        c10 one <cap> <program> <schedule>          (replay; program "a1,r0,a2|u,u", schedule "0,0,1")
//!        c10 progs [set]                             (lists the enumerated programs)
//!        c10 soak <millis> <cap> <writers> <readers> <seed>   (real threads, ungated, self-checking payloads)
//!
//! program tokens (one thread = comma separated list, threads separated by '|'):
//!   a<id>       add(Pay{a:id,b:!id}, current owner of this thread); keeps the handle as the thread's next one
//!   A<id>k<k>   the same call, abandoned after k gated accesses (the owner "died inside add")
//!   r<j>        remove(j-th handle this thread obtained), skipped if it is gone
//!   R<j>k<k>    the same call, abandoned after k gated accesses; the handle is gone
//!   x<p>        recover(current owner, |_| p == 1, Default); afterwards the thread forgets all its handles and
//!               continues under a fresh owner id
//!   u           update_state(this thread's own ContainerState), then list it with for_each
//!   g           everything before it in this thread is setup: executed ungated (and unlogged) before any thread's
//!               first gated access; the driver runs the model thread through the same operations first
//! return codes (R lines) = tag + 8 * payload (see coq/model/Container.v):
//!   add     tag 1, payload res + 128*id, res = 1+index | 0 OutOfSpace | 64 IsLocked
//!   remove  tag 2, payload res + 128*j,  res = 0 Unlocked | 1 Locked | 2 Err
//!   recover tag 3, payload 2*acc + locked, acc = base-32 digits of the payloads handed to the predicate, in call order
//!   update  tag 4, payload changed + 2*snap, snap = sum over slots i of digit_i * 32^i, digit = 0 absent, id (1..30),
//!           31 = payload fails its self-check (torn / never written).
//! F line: snap of a fresh reader, len(), whether a second refresh of that reader reports a change, then one token
//!   t.start.end.code per returned operation (positions in the execution log) for the real-time-order oracle.
extern crate iceoryx2_bb_loggers;
use core::ptr::NonNull;
use iceoryx2_bb_elementary::bump_allocator::BumpAllocator;
use iceoryx2_bb_elementary_traits::relocatable_container::RelocatableContainer;
use iceoryx2_bb_lock_free::mpmc::container::*;
use iceoryx2_bb_lock_free::mpmc::unique_index_set_enums::{ReleaseMode, ReleaseState};
use sched::*;
use std::io::Write;
use std::sync::Arc;

#[repr(C)]
#[derive(Clone, Copy, Debug)]
pub struct Pay { a: u64, b: u64 }
fn pay(id: u64) -> Pay { Pay { a: id, b: !id } }
fn digit(p: &Pay) -> u64 { if p.b == !p.a && p.a >= 1 && p.a <= 30 { p.a } else { 31 } }

#[derive(Clone, Copy, Debug, PartialEq)]
enum Op { Add(u64, Option<usize>), Rem(usize, Option<usize>), Rec(bool), Upd, Go }

fn op_str(o: &Op) -> String {
    match o {
        Op::Add(id, None) => format!("a{}", id), Op::Add(id, Some(k)) => format!("A{}k{}", id, k),
        Op::Rem(j, None) => format!("r{}", j), Op::Rem(j, Some(k)) => format!("R{}k{}", j, k),
        Op::Rec(p) => format!("x{}", *p as u8), Op::Upd => "u".into(), Op::Go => "g".into(),
    }
}
fn parse_op(s: &str) -> Op {
    let two = |s: &str| -> (u64, usize) { let mut it = s.split('k'); (it.next().unwrap().parse().unwrap(), it.next().unwrap().parse().unwrap()) };
    match &s[..1] {
        "a" => Op::Add(s[1..].parse().unwrap(), None),
        "A" => { let (i, k) = two(&s[1..]); Op::Add(i, Some(k)) }
        "r" => Op::Rem(s[1..].parse().unwrap(), None),
        "R" => { let (i, k) = two(&s[1..]); Op::Rem(i as usize, Some(k)) }
        "x" => Op::Rec(&s[1..] == "1"),
        "u" => Op::Upd,
        "g" => Op::Go,
        _ => panic!("bad op {}", s),
    }
}
fn prog_str(p: &[Vec<Op>]) -> String {
    p.iter().map(|t| t.iter().map(op_str).collect::<Vec<_>>().join(",")).collect::<Vec<_>>().join("|")
}
fn parse_prog(s: &str) -> Vec<Vec<Op>> { s.split('|').map(|t| t.split(',').filter(|s| !s.is_empty()).map(parse_op).collect()).collect() }

type Body = Box<dyn FnOnce() + Send>;

pub struct Sut { c: Box<Container<Pay>>, _mem: Vec<u64>, cap: usize, setup: std::sync::Mutex<Vec<(usize, u64)>> }
unsafe impl Send for Sut {}
unsafe impl Sync for Sut {}

fn make(cap: usize) -> Arc<Sut> {
    // zeroed memory: a payload slot that was never written reads (0, 0), which fails the self-check
    let mut mem = vec![0u64; Container::<Pay>::const_memory_size(cap) / 8 + 8];
    let alloc = BumpAllocator::new(NonNull::new(mem.as_mut_ptr() as *mut u8).unwrap(), mem.len() * 8);
    // the container holds self-relative pointers: box before init
    let mut c = Box::new(unsafe { Container::<Pay>::new_uninit(cap) });
    unsafe { c.init(&alloc).unwrap() };
    Arc::new(Sut { c, _mem: mem, cap, setup: Default::default() })
}

/// the three RelocatablePointer distance fields (layout constants of this instance, inputs of the
/// model): element_generation_counter_ptr, data_ptr, index_set.cell_ptr.  Container is repr(C) with
/// the two pointers first and the index set (cell_ptr first, 32 bytes) last.
fn distances(s: &Sut) -> [u64; 3] {
    let base = &*s.c as *const Container<Pay> as usize;
    let rd = |a: usize| unsafe { *(a as *const u64) };
    [rd(base), rd(base + 8), rd(base + core::mem::size_of::<Container<Pay>>() - 32)]
}

fn rc(tag: u64, payload: u64) -> u64 { tag + 8 * payload }
/// injective in (t, epoch), as in the model: 2 * 2^t * (2 epoch + 1)
fn owner_of(t: usize, epoch: u64) -> OwnerId { OwnerId::new(2 * (1u64 << t) * (2 * epoch + 1)).unwrap() }

fn snap_code(st: &ContainerState<Pay>) -> u64 {
    let mut code = 0u64;
    st.for_each(|i, p| { code += digit(p) << (5 * i); CallbackProgression::Continue });
    code
}

fn bodies(s: &Arc<Sut>, prog: &[Vec<Op>]) -> Vec<Body> {
    let mut v: Vec<Body> = Vec::new();
    for (t, ops) in prog.iter().enumerate() {
        let s = s.clone();
        let ops = ops.clone();
        // the reader state is created before the run (container empty: get_state returns at once)
        let mut st = unsafe { s.c.get_state() };
        v.push(Box::new(move || {
            let mut handles: Vec<Option<ContainerHandle>> = Vec::new();
            let mut epoch = 0u64;
            let nsetup = ops.iter().position(|o| *o == Op::Go).unwrap_or(0);
            let in_setup = std::cell::Cell::new(true);
            let ret = |code: u64| { if in_setup.get() { s.setup.lock().unwrap().push((t, code)); } else { sched::ret(code); } };
            let mut run_op = |op: Op| {
                match op {
                    Op::Go => {}
                    Op::Add(id, fuse) => {
                        let o = owner_of(t, epoch);
                        let r = match fuse { None => Some(unsafe { s.c.add(pay(id), o) }), Some(k) => with_fuse(k, || unsafe { s.c.add(pay(id), o) }) };
                        match r {
                            None => {}
                            Some(Ok((_, h))) => { handles.push(Some(h)); ret(rc(1, 1 + h.index() as u64 + 128 * id)); }
                            Some(Err(ContainerAddFailure::OutOfSpace)) => ret(rc(1, 128 * id)),
                            Some(Err(ContainerAddFailure::IsLocked)) => ret(rc(1, 64 + 128 * id)),
                        }
                    }
                    Op::Rem(j, fuse) => {
                        if let Some(Some(h)) = handles.get(j).copied() {
                            handles[j] = None;
                            let r = match fuse { None => Some(unsafe { s.c.remove(h, ReleaseMode::Default) }), Some(k) => with_fuse(k, || unsafe { s.c.remove(h, ReleaseMode::Default) }) };
                            let jj = 128 * j as u64;
                            match r { None => {}, Some(Ok(ReleaseState::Unlocked)) => ret(rc(2, jj)), Some(Ok(ReleaseState::Locked)) => ret(rc(2, 1 + jj)), Some(Err(_)) => ret(rc(2, 2 + jj)) }
                        }
                    }
                    Op::Rec(p) => {
                        let mut acc = 0u64;
                        let r = unsafe { s.c.recover(owner_of(t, epoch), |d| { acc = acc * 32 + digit(&d); p }, ReleaseMode::Default) };
                        ret(rc(3, 2 * acc + if r == ReleaseState::Locked { 1 } else { 0 }));
                        epoch += 1;
                        for h in handles.iter_mut() { *h = None; }
                    }
                    Op::Upd => {
                        let ch = unsafe { s.c.update_state(&mut st) };
                        ret(rc(4, ch as u64 + 2 * snap_code(&st)));
                    }
                }
            };
            ungated(|| { for op in &ops[..nsetup] { run_op(*op); } });
            in_setup.set(false);
            for op in &ops[nsetup..] { run_op(*op); }
        }));
    }
    v
}

/// sched::print_exec minus the loads of the logger's global LOG_LEVEL atomic that `fail!` performs
/// on error paths (not part of the container algorithm, not part of the model)
fn print_exec_filtered(ex: &Exec, out: &mut impl Write) {
    for r in &ex.log {
        match r {
            Rec::Acc { tid, file, line, addr, kind, ord, ord_fail, rd, wr, ok, .. } => {
                if file.ends_with("iceoryx2-log/log/src/lib.rs") { continue; }
                let f = file.rsplit('/').next().unwrap_or(file);
                let _ = writeln!(out, "E {} {}:{} {} {} {} {} {} {} {}", tid, f, line, addr, kind_name(*kind), ord_name(*ord), ord_name(*ord_fail), rd, wr, if *ok { 1 } else { 0 });
            }
            Rec::Ret { tid, code } => { let _ = writeln!(out, "R {} {}", tid, if *code == u64::MAX { "P".to_string() } else { code.to_string() }); }
        }
    }
    if ex.deadlock { let _ = writeln!(out, "X deadlock"); }
}

fn emit(cap: usize, prog: &[Vec<Op>], ex: &Exec, s: &Sut, out: &mut impl Write) {
    let d = distances(s);
    let _ = writeln!(out, "C {} {} {} {} {}", cap, prog_str(prog), d[0], d[1], d[2]);
    print_exec_filtered(ex, out);
    let sched: Vec<String> = ex.choices.iter().map(|c| c.to_string()).collect();
    let _ = writeln!(out, "S {}", sched.join(","));
    // final observation (ungated, main thread): what a fresh reader sees, and the number of owned indices
    let mut st = unsafe { s.c.get_state() };
    let snap = snap_code(&st);
    let again = unsafe { s.c.update_state(&mut st) };
    let mut toks = vec![snap.to_string(), s.c.len().to_string(), (again as u8).to_string()];
    for (t, code) in s.setup.lock().unwrap().iter() { toks.push(format!("{}.0.0.{}", t, code)); }
    let mut start: Vec<Option<usize>> = vec![None; prog.len()];
    for (pos, r) in ex.log.iter().enumerate() {
        let pos = pos + 1;
        match r {
            Rec::Acc { tid, .. } => { if start[*tid].is_none() { start[*tid] = Some(pos); } }
            Rec::Ret { tid, code } => { if *code != u64::MAX { toks.push(format!("{}.{}.{}.{}", tid, start[*tid].unwrap_or(pos), pos, code)); } start[*tid] = None; }
        }
    }
    let _ = writeln!(out, "F {}", toks.join(","));
}

fn ups(n: usize) -> Vec<Op> { vec![Op::Upd; n] }

/// enumerated programs: (capacity, threads).  set 0 = quick, 1 = thorough (superset).
fn programs(set: u8) -> Vec<(usize, Vec<Vec<Op>>)> {
    let p = |cap: usize, s: &str| (cap, parse_prog(s));
    let mut v = Vec::new();
    // --- no abandoned call: the slot-reuse windows (setup before `g` is not scheduled) ---
    for s in ["a1,r0|u", "a1|u,u", "a1,g,r0,a2|u,u", "a1,g,r0|a4|u,u", "a1,g,x1|a4|u,u", "a1,g,r0|a4,r0", "a1,g,x1,a2|u,u", "a1,r0,a2|u,u"] { v.push(p(1, s)); }
    for s in ["a1,a2,g,r0,a3|u,u", "a1,g,r0|a4|u,u", "a1,a2,g,x0,r1|u,u", "a1,a2,g,x1|u,u", "a1,g,r0,a2|a4,r0|u"] { v.push(p(2, s)); }
    for s in ["a1,a2,a3,g,r1,a5|a4|u,u", "a1,a2,g,r0,a3,a5|u,u,u"] { v.push(p(3, s)); }
    // --- the owner dies inside add / remove after k accesses, is recovered, a reader looks ---
    for k in 1..=13usize {
        v.push(p(1, &format!("A1k{},x1|u", k)));
        if k <= 7 { v.push(p(1, &format!("a1,g,R0k{},x1|u", k))); }
        if k == 6 || k == 8 || k == 9 { v.push(p(1, &format!("A1k{},x1|a4|u", k))); }
    }
    if set >= 1 {
        for cap in 1..=3usize {
            for w in ["a1,r0", "a1,r0,a2", "a1,a2,r0,a3", "a1,x1,a2", "a1,a2,x0,r1", "a1,r0,a2,r1,a3"] {
                for nu in 1..=3usize { v.push(p(cap, &format!("{}|{}", w, vec!["u"; nu].join(",")))); }
            }
        }
        for cap in 1..=2usize {
            for a in ["a1,r0", "a1,r0,a2", "a1,x1"] { for b in ["a4", "a4,r0", "a4,r0,a5"] { for nu in 1..=2usize {
                v.push(p(cap, &format!("{}|{}|{}", a, b, vec!["u"; nu].join(","))));
            } } }
            for k in 1..=13usize {
                v.push(p(cap, &format!("a1,r0,A2k{},x1,a3|u,u", k)));
                v.push(p(cap, &format!("A1k{},x1|a4|u,u", k)));
            }
        }
        v.push(p(1, "a1,r0,a2|a4,r0,a5"));
        v.push(p(2, "a1,r0,a2|a4,r0,a5"));
        v.push(p(1, "a1,r0,a2|u,u|u,u"));
        v.push(p(3, "a1,a2,a3,a6,r1|a4,r0|u,u"));
    }
    v
}

fn random_prog(rng: &mut Rng) -> (usize, Vec<Vec<Op>>) {
    let cap = 1 + rng.below(3) as usize;
    let nw = 1 + rng.below(2) as usize;
    let nr = 1 + rng.below(2) as usize;
    let mut prog = Vec::new();
    let mut id = 1u64;
    for _ in 0..nw {
        let len = 3 + rng.below(8) as usize;
        let mut p = Vec::new();
        let mut nh = 0usize;
        for _ in 0..len {
            match rng.below(10) {
                0..=4 => { if id <= 30 { let f = if rng.below(12) == 0 { Some(1 + rng.below(14) as usize) } else { None }; p.push(Op::Add(id, f)); id += 1; nh += 1; } }
                5..=7 => { if nh > 0 { let f = if rng.below(12) == 0 { Some(1 + rng.below(6) as usize) } else { None }; p.push(Op::Rem(rng.below(nh as u64) as usize, f)); } }
                8 => p.push(Op::Rec(rng.below(4) != 0)),
                _ => p.push(Op::Upd),
            }
        }
        prog.push(p);
    }
    for _ in 0..nr { prog.push(ups(2 + rng.below(4) as usize)); }
    (cap, prog)
}

fn main() {
    if std::env::var("VERIF_PANIC_VERBOSE").is_err() { std::panic::set_hook(Box::new(|_| {})); }
    iceoryx2_log::set_log_level(iceoryx2_log::LogLevel::Fatal);
    let a: Vec<String> = std::env::args().collect();
    let stdout = std::io::stdout();
    let mut out = std::io::BufWriter::with_capacity(1 << 20, stdout.lock());
    match a[1].as_str() {
        "progs" => { for (i, (cap, p)) in programs(a.get(2).map(|s| s.parse().unwrap()).unwrap_or(1)).iter().enumerate() { let _ = writeln!(out, "{} {} {}", i, cap, prog_str(p)); } }
        "exh" => {
            install_with_fuse();
            let bound: usize = a[2].parse().unwrap();
            let shard: usize = a[3].parse().unwrap(); let nsh: usize = a[4].parse().unwrap();
            let maxexecs: usize = a.get(6).map(|s| s.parse().unwrap()).unwrap_or(100000);
            let set: u8 = a.get(7).map(|s| s.parse().unwrap()).unwrap_or(0);
            for (i, (cap, prog)) in programs(set).into_iter().enumerate() {
                if i % nsh != shard { continue; }
                let cur: std::cell::RefCell<Option<Arc<Sut>>> = std::cell::RefCell::new(None);
                let mut mk = || { let s = make(cap); let b = bodies(&s, &prog); *cur.borrow_mut() = Some(s); b };
                let outcell = std::cell::RefCell::new(&mut out);
                let mut visit = |ex: &Exec| { let s = cur.borrow(); emit(cap, &prog, ex, s.as_ref().unwrap(), &mut **outcell.borrow_mut()); };
                explore(bound, maxexecs, &mut mk, &mut visit);
            }
        }
        "rnd" => {
            install_with_fuse();
            let count: u64 = a[2].parse().unwrap();
            let shard: u64 = a[3].parse().unwrap(); let nsh: u64 = a[4].parse().unwrap(); let seed: u64 = a[5].parse().unwrap();
            for n in 0..count {
                if n % nsh != shard { continue; }
                let mut rng = Rng(seed ^ n.wrapping_mul(0x2545F4914F6CDD1D));
                let (cap, prog) = random_prog(&mut rng);
                let s = make(cap);
                let ex = run_random(rng.next(), bodies(&s, &prog));
                emit(cap, &prog, &ex, &s, &mut out);
            }
        }
        "one" => {
            install_with_fuse();
            let cap: usize = a[2].parse().unwrap();
            let prog = parse_prog(&a[3]);
            let sch: Vec<usize> = a.get(4).map(|s| s.split(',').filter(|s| !s.is_empty()).map(|s| s.parse().unwrap()).collect()).unwrap_or_default();
            let s = make(cap);
            let mut chooser = |step: usize, enabled: &[usize], last: Option<usize>| -> Choice {
                if step < sch.len() && enabled.contains(&sch[step]) { Choice::Run(sch[step]) }
                else { match last { Some(l) if enabled.contains(&l) => Choice::Run(l), _ => Choice::Run(enabled[0]) } }
            };
            let ex = run_threads(bodies(&s, &prog), &mut chooser);
            emit(cap, &prog, &ex, &s, &mut out);
        }
        "soak" => { let _ = out.flush(); soak(&a); }
        _ => panic!("mode"),
    }
    let _ = out.flush();
}

// ---------------------------------------------------------------------------------------
// real-thread soak (search component only; not part of the tie): no gate installed, the
// wrappers are plain atomics.  Payload id = 1 + ((writer * 2^32 + seq) encoded), self-checking
// (b == !a).  Writer w adds seq 1,2,3.. and removes them FIFO; it publishes, with SeqCst std
// atomics, add_done[w] (highest seq whose add returned), rem_started[w] (highest seq whose
// remove was called) and rem_done[w] (highest seq whose remove returned).  A reader samples
// add_done / rem_done before update_state and rem_started after it:
//   no torn : every listed payload passes its self-check and names an existing (w, seq <= add_started)
//   no ghost: no listed (w, seq) with seq <= rem_done sampled before the call
//   notice  : every (w, seq) with rem_started(after) < seq <= add_done(before) is listed
// ---------------------------------------------------------------------------------------
fn soak(a: &[String]) {
    use std::sync::atomic::{AtomicBool, AtomicU64, Ordering::SeqCst};
    let millis: u64 = a[2].parse().unwrap(); let cap: usize = a[3].parse().unwrap();
    let nw: usize = a[4].parse().unwrap(); let nr: usize = a[5].parse().unwrap(); let seed: u64 = a[6].parse().unwrap();
    let s = make(cap);
    let stop = Arc::new(AtomicBool::new(false));
    let mk = |n: usize| -> Arc<Vec<AtomicU64>> { Arc::new((0..n).map(|_| AtomicU64::new(0)).collect()) };
    let (add_started, add_done, rem_started, rem_done) = (mk(nw), mk(nw), mk(nw), mk(nw));
    let viol = Arc::new(AtomicU64::new(0));
    let mut hs = Vec::new();
    for w in 0..nw {
        let (s, stop, add_started, add_done, rem_started, rem_done) = (s.clone(), stop.clone(), add_started.clone(), add_done.clone(), rem_started.clone(), rem_done.clone());
        hs.push(std::thread::spawn(move || {
            let mut rng = Rng(seed ^ (w as u64 + 1).wrapping_mul(0x9E3779B97F4A7C15));
            let owner = OwnerId::new(1 + w as u64).unwrap();
            let mut live: std::collections::VecDeque<(u64, ContainerHandle)> = Default::default();
            let mut seq = 0u64; let mut adds = 0u64; let mut rems = 0u64;
            while !stop.load(SeqCst) {
                if live.is_empty() || rng.below(2) == 0 {
                    add_started[w].store(seq + 1, SeqCst);
                    let id = ((w as u64) << 40) | (seq + 1);
                    match unsafe { s.c.add(Pay { a: id, b: !id }, owner) } {
                        Ok((_, h)) => { seq += 1; live.push_back((seq, h)); add_done[w].store(seq, SeqCst); adds += 1; }
                        Err(_) => { add_started[w].store(seq, SeqCst); }
                    }
                } else {
                    let (q, h) = live.pop_front().unwrap();
                    rem_started[w].store(q, SeqCst);
                    unsafe { s.c.remove(h, ReleaseMode::Default).unwrap() };
                    rem_done[w].store(q, SeqCst); rems += 1;
                }
            }
            (adds, rems)
        }));
    }
    let mut rh = Vec::new();
    for r in 0..nr {
        let (s, stop, add_started, add_done, rem_started, rem_done, viol) = (s.clone(), stop.clone(), add_started.clone(), add_done.clone(), rem_started.clone(), rem_done.clone(), viol.clone());
        rh.push(std::thread::spawn(move || {
            let mut st = unsafe { s.c.get_state() };
            let mut calls = 0u64; let mut changed = 0u64; let mut entries = 0u64;
            while !stop.load(SeqCst) {
                let ad: Vec<u64> = add_done.iter().map(|x| x.load(SeqCst)).collect();
                let rd: Vec<u64> = rem_done.iter().map(|x| x.load(SeqCst)).collect();
                if unsafe { s.c.update_state(&mut st) } { changed += 1; }
                let rs: Vec<u64> = rem_started.iter().map(|x| x.load(SeqCst)).collect();
                let asx: Vec<u64> = add_started.iter().map(|x| x.load(SeqCst)).collect();
                calls += 1;
                let mut seen: Vec<Vec<u64>> = vec![Vec::new(); ad.len()];
                st.for_each(|i, p| {
                    entries += 1;
                    let w = (p.a >> 40) as usize; let q = p.a & ((1 << 40) - 1);
                    if p.b != !p.a || w >= ad.len() || q == 0 || q > asx[w] {
                        if viol.fetch_add(1, SeqCst) < 5 { println!("SOAK-VIOLATION torn reader={} slot={} payload=({:#x},{:#x})", r, i, p.a, p.b); }
                    } else {
                        if q <= rd[w] && viol.fetch_add(1, SeqCst) < 5 { println!("SOAK-VIOLATION ghost reader={} slot={} writer={} seq={} removed_up_to={}", r, i, w, q, rd[w]); }
                        seen[w].push(q);
                    }
                    CallbackProgression::Continue
                });
                for w in 0..ad.len() {
                    let mut q = rs[w] + 1;
                    while q <= ad[w] { if !seen[w].contains(&q) && viol.fetch_add(1, SeqCst) < 5 { println!("SOAK-VIOLATION missed reader={} writer={} seq={} (add done before the call, remove not started after it)", r, w, q); } q += 1; }
                }
            }
            (calls, changed, entries)
        }));
    }
    std::thread::sleep(std::time::Duration::from_millis(millis));
    stop.store(true, SeqCst);
    let (mut adds, mut rems) = (0, 0);
    for h in hs { let (x, y) = h.join().unwrap(); adds += x; rems += y; }
    let (mut calls, mut changed, mut entries) = (0, 0, 0);
    for h in rh { let (x, y, z) = h.join().unwrap(); calls += x; changed += y; entries += z; }
    // quiescence: one refresh yields exactly the registered set, the next reports no change
    let mut st = unsafe { s.c.get_state() };
    let again = unsafe { s.c.update_state(&mut st) };
    let mut n = 0; st.for_each(|_, _| { n += 1; CallbackProgression::Continue });
    if again || n != s.c.len() { viol.fetch_add(1, SeqCst); println!("SOAK-VIOLATION quiescent refresh: changed_again={} listed={} registered={}", again, n, s.c.len()); }
    println!("SOAK adds={} removes={} refreshes={} changed={} entries_checked={} violations={}", adds, rems, calls, changed, entries, viol.load(SeqCst));
    let _ = s.cap;
}
