//! Baton scheduler for the G1 correspondence (DESIGN.md 3.1): harness threads perform one
//! gated shared-memory access at a time, in the order a schedule dictates; every access is
//! logged with site, address, kind, orderings, value read / written.
use iceoryx2_pal_concurrency_sync::verif_gate::{self, Access, Kind};
use std::cell::Cell;
use std::sync::{Arc, Condvar, Mutex};
use std::time::Duration;

#[derive(Clone, Debug)]
pub enum Rec {
    Acc { tid: usize, file: &'static str, line: u32, addr: usize, width: u8, kind: Kind, ord: u8, ord_fail: u8, rd: u64, wr: u64, ok: bool },
    Ret { tid: usize, code: u64 },
}

pub fn ord_code(o: core::sync::atomic::Ordering) -> u8 {
    use core::sync::atomic::Ordering::*;
    match o { Relaxed => 0, Release => 1, Acquire => 2, AcqRel => 3, SeqCst => 4, _ => 9 }
}
pub fn ord_name(c: u8) -> &'static str { match c { 0 => "rlx", 1 => "rel", 2 => "acq", 3 => "acqrel", 4 => "sc", 5 => "na", _ => "?" } }
pub fn kind_name(k: Kind) -> &'static str {
    match k { Kind::Load => "load", Kind::Store => "store", Kind::Cas => "cas", Kind::Swap => "swap", Kind::FetchAdd => "fadd", Kind::FetchSub => "fsub",
        Kind::FetchOr => "for", Kind::FetchAnd => "fand", Kind::Cell => "cell", Kind::FetchXor => "fxor", Kind::FetchMax => "fmax", Kind::FetchMin => "fmin", Kind::FetchNand => "fnand" }
}

struct St {
    n: usize,
    parked: Vec<bool>,
    finished: Vec<bool>,
    killed: Vec<bool>,
    grant: Option<usize>,
    kill: Option<usize>,
    log: Vec<Rec>,
}

struct Shared { m: Mutex<St>, cv: Condvar }

thread_local! {
    static TID: Cell<Option<usize>> = const { Cell::new(None) };
    static SH: std::cell::RefCell<Option<Arc<Shared>>> = const { std::cell::RefCell::new(None) };
}

fn hook_before(_a: &Access) {
    let Some(t) = TID.with(|c| c.get()) else { return };
    let sh = SH.with(|s| s.borrow().clone()).unwrap();
    let mut st = sh.m.lock().unwrap();
    st.parked[t] = true;
    sh.cv.notify_all();
    loop {
        if st.kill == Some(t) {
            st.kill = None; st.killed[t] = true; st.parked[t] = false;
            sh.cv.notify_all();
            drop(st);
            // a crashed thread: never runs again, runs no destructor
            loop { std::thread::park(); }
        }
        if st.grant == Some(t) { break; }
        st = sh.cv.wait(st).unwrap();
    }
    st.grant = None;
    st.parked[t] = false;
}

fn hook_after(a: &Access, rd: u64, wr: u64, ok: bool) {
    let Some(t) = TID.with(|c| c.get()) else { return };
    let sh = SH.with(|s| s.borrow().clone()).unwrap();
    let mut st = sh.m.lock().unwrap();
    let (o, of) = if a.kind == Kind::Cell { (5, 5) } else { (ord_code(a.ord), if a.kind == Kind::Cas { ord_code(a.ord_fail) } else { ord_code(a.ord) }) };
    st.log.push(Rec::Acc { tid: t, file: a.file, line: a.line, addr: a.addr, width: a.width, kind: a.kind, ord: o, ord_fail: of, rd, wr, ok });
    drop(st);
    stale_note(t, a, rd, wr, ok);
}

/// called by a harness thread when an API operation has returned
pub fn ret(code: u64) {
    let Some(t) = TID.with(|c| c.get()) else { return };
    let sh = SH.with(|s| s.borrow().clone()).unwrap();
    sh.m.lock().unwrap().log.push(Rec::Ret { tid: t, code });
}

/// run f ungated on a harness thread (e.g. setup code inside a body)
pub fn ungated<R>(f: impl FnOnce() -> R) -> R {
    let old = TID.with(|c| c.replace(None));
    let r = f();
    TID.with(|c| c.set(old));
    r
}

pub fn install() { verif_gate::set_hooks(hook_before, hook_after); }

#[derive(Clone, Debug, PartialEq, Eq)]
pub enum Choice { Run(usize), Kill(usize) }

pub struct Exec {
    pub log: Vec<Rec>,
    pub choices: Vec<usize>,
    pub enabled: Vec<Vec<usize>>,
    pub deadlock: bool,
}

/// Runs the bodies as gated threads.  `choose(step, enabled, last)` picks the next thread
/// among the parked ones; returning Kill(t) makes t crash at its current gate.
pub fn run_threads(bodies: Vec<Box<dyn FnOnce() + Send>>, choose: &mut dyn FnMut(usize, &[usize], Option<usize>) -> Choice) -> Exec {
    let n = bodies.len();
    let sh = Arc::new(Shared { m: Mutex::new(St { n, parked: vec![false; n], finished: vec![false; n], killed: vec![false; n], grant: None, kill: None, log: Vec::new() }), cv: Condvar::new() });
    let mut handles = Vec::new();
    for (t, b) in bodies.into_iter().enumerate() {
        let sh2 = sh.clone();
        handles.push(std::thread::Builder::new().stack_size(256 * 1024).spawn(move || {
            TID.with(|c| c.set(Some(t)));
            SH.with(|s| *s.borrow_mut() = Some(sh2.clone()));
            let r = std::panic::catch_unwind(std::panic::AssertUnwindSafe(b));
            TID.with(|c| c.set(None));
            let mut st = sh2.m.lock().unwrap();
            if r.is_err() { st.log.push(Rec::Ret { tid: t, code: u64::MAX }); }
            st.finished[t] = true;
            sh2.cv.notify_all();
        }).unwrap());
    }
    let mut choices = Vec::new();
    let mut enabled_log = Vec::new();
    let mut last: Option<usize> = None;
    let mut deadlock = false;
    let mut step = 0usize;
    loop {
        let mut st = sh.m.lock().unwrap();
        // wait until every thread is parked, finished or killed and no grant is outstanding
        let mut waited = 0;
        while !(st.grant.is_none() && st.kill.is_none() && (0..n).all(|t| st.parked[t] || st.finished[t] || st.killed[t])) {
            let (g, to) = sh.cv.wait_timeout(st, Duration::from_millis(2000)).unwrap();
            st = g;
            if to.timed_out() { waited += 1; if waited >= 5 { deadlock = true; break; } }
        }
        if deadlock { break; }
        let enabled: Vec<usize> = (0..n).filter(|&t| st.parked[t]).collect();
        if enabled.is_empty() { break; }
        match choose(step, &enabled, last) {
            Choice::Run(t) => { assert!(enabled.contains(&t)); st.grant = Some(t); choices.push(t); last = Some(t); }
            Choice::Kill(t) => { assert!(enabled.contains(&t)); st.kill = Some(t); choices.push(usize::MAX - t); }
        }
        enabled_log.push(enabled);
        step += 1;
        sh.cv.notify_all();
    }
    let killed: Vec<bool> = sh.m.lock().unwrap().killed.clone();
    for (t, h) in handles.into_iter().enumerate() { if !killed[t] && !deadlock { let _ = h.join(); } }
    let log = std::mem::take(&mut sh.m.lock().unwrap().log);
    Exec { log, choices, enabled: enabled_log, deadlock }
}

/// Exhaustive exploration of all schedules with at most `bound` preemptions.  `mk` builds a
/// fresh instance (thread bodies) for every execution; `visit` sees every execution.
pub fn explore(bound: usize, max_execs: usize, mk: &mut dyn FnMut() -> Vec<Box<dyn FnOnce() + Send>>, visit: &mut dyn FnMut(&Exec)) -> usize {
    let mut prefix: Vec<usize> = Vec::new();
    let mut execs = 0usize;
    loop {
        let pfx = prefix.clone();
        let mut cands_log: Vec<Vec<usize>> = Vec::new();
        let ex = {
            let mut chooser = |step: usize, enabled: &[usize], last: Option<usize>| -> Choice {
                let default = match last { Some(l) if enabled.contains(&l) => l, _ => enabled[0] };
                let mut cands = vec![default];
                for &t in enabled { if t != default { cands.push(t); } }
                let c = if step < pfx.len() { pfx[step] } else { default };
                cands_log.push(cands);
                Choice::Run(c)
            };
            run_threads(mk(), &mut chooser)
        };
        execs += 1;
        visit(&ex);
        if execs >= max_execs { return execs; }
        // preemption count along the taken choices
        let ch = &ex.choices;
        let mut pre = vec![0usize; ch.len() + 1];
        for i in 0..ch.len() {
            let default = cands_log[i][0];
            let prev_enabled = i > 0 && ex.enabled[i].contains(&ch[i - 1]);
            pre[i + 1] = pre[i] + if ch[i] != default && prev_enabled { 1 } else { 0 };
        }
        // deepest step with an untried alternative within the bound
        let mut found = None;
        for i in (0..ch.len()).rev() {
            let cands = &cands_log[i];
            let k = cands.iter().position(|&t| t == ch[i]).unwrap();
            let prev_enabled = i > 0 && ex.enabled[i].contains(&ch[i - 1]);
            for j in k + 1..cands.len() {
                let cost = if prev_enabled { 1 } else { 0 };
                if pre[i] + cost <= bound { found = Some((i, cands[j])); break; }
            }
            if found.is_some() { break; }
        }
        match found {
            Some((i, t)) => { prefix = ch[..i].to_vec(); prefix.push(t); }
            None => return execs,
        }
    }
}

pub struct Rng(pub u64);
impl Rng {
    pub fn next(&mut self) -> u64 {
        self.0 = self.0.wrapping_add(0x9E3779B97F4A7C15);
        let mut z = self.0;
        z = (z ^ (z >> 30)).wrapping_mul(0xBF58476D1CE4E5B9);
        z = (z ^ (z >> 27)).wrapping_mul(0x94D049BB133111EB);
        z ^ (z >> 31)
    }
    pub fn below(&mut self, n: u64) -> u64 { if n == 0 { 0 } else { self.next() % n } }
}

/// one execution under a seeded random schedule (switch probability 1/3 per step)
pub fn run_random(seed: u64, bodies: Vec<Box<dyn FnOnce() + Send>>) -> Exec {
    let mut rng = Rng(seed);
    let mut chooser = |_step: usize, enabled: &[usize], last: Option<usize>| -> Choice {
        match last {
            Some(l) if enabled.contains(&l) && rng.below(3) != 0 => Choice::Run(l),
            _ => Choice::Run(enabled[rng.below(enabled.len() as u64) as usize]),
        }
    };
    run_threads(bodies, &mut chooser)
}

/// print an execution in the line format the OCaml drivers read
pub fn print_exec(ex: &Exec, out: &mut impl std::io::Write) {
    for r in &ex.log {
        match r {
            Rec::Acc { tid, file, line, addr, kind, ord, ord_fail, rd, wr, ok, .. } => {
                let f = file.rsplit('/').next().unwrap_or(file);
                let _ = writeln!(out, "E {} {}:{} {} {} {} {} {} {} {}", tid, f, line, addr, kind_name(*kind), ord_name(*ord), ord_name(*ord_fail), rd, wr, if *ok { 1 } else { 0 });
            }
            Rec::Ret { tid, code } => { let _ = writeln!(out, "R {} {}", tid, if *code == u64::MAX { "P".to_string() } else { code.to_string() }); }
        }
    }
    if ex.deadlock { let _ = writeln!(out, "X deadlock"); }
}

// ---------------------------------------------------------------------------------------
// C10 addition (append-only): an operation that is abandoned at a chosen gated access
// ("the process died inside the call"): the thread unwinds out of the call without performing
// that access and without parking at it; what it wrote before stays in shared memory.
// ---------------------------------------------------------------------------------------
thread_local! { static FUSE: Cell<Option<usize>> = const { Cell::new(None) }; }

/// panic payload that marks an abandoned operation
pub struct Abandoned;

fn hook_before_fuse(a: &Access) {
    if TID.with(|c| c.get()).is_some() && !a.file.ends_with("iceoryx2-log/log/src/lib.rs") {
        match FUSE.with(|f| f.get()) {
            Some(0) => { FUSE.with(|f| f.set(None)); std::panic::resume_unwind(Box::new(Abandoned)); }
            Some(n) => FUSE.with(|f| f.set(Some(n - 1))),
            None => {}
        }
    }
    hook_before(a);
}

/// like `install`, with support for `with_fuse`
pub fn install_with_fuse() { verif_gate::set_hooks(hook_before_fuse, hook_after); }

/// runs `f`; its (k+1)-th gated access (accesses of the logger's level global not counted) is
/// not performed: the call is abandoned there and `None` is returned.  `Some(r)` if `f` needs at
/// most k accesses.
pub fn with_fuse<R>(k: usize, f: impl FnOnce() -> R) -> Option<R> {
    FUSE.with(|c| c.set(Some(k)));
    let r = std::panic::catch_unwind(std::panic::AssertUnwindSafe(f));
    FUSE.with(|c| c.set(None));
    match r {
        Ok(v) => Some(v),
        Err(e) => if e.is::<Abandoned>() { None } else { std::panic::resume_unwind(e) },
    }
}

// ---------------------------------------------------------------------------------------
// C05 addition (append-only): blocking is modelled, not executed.  A gated thread declares
// itself blocked until a predicate over shared memory holds (`block_until`); the controller
// `run_threads_b` does not schedule it until a step of another thread has made the predicate
// true, and an execution in which only blocked threads remain ends with the verdict
// "blocked-forever" (ExecB::blocked_forever, printed as `X blocked-forever t`) instead of a
// deadlock timeout.  `gated_op` makes one arbitrary atomic section (an operation of a MODEL
// object implemented in a harness, e.g. a trigger) exactly one scheduler step with a site.
// ---------------------------------------------------------------------------------------
type Pred = Box<dyn Fn() -> bool + Send>;
struct BShared { preds: Mutex<Vec<Option<Pred>>>, abort: Mutex<Vec<bool>> }
thread_local! { static BSH: std::cell::RefCell<Option<Arc<BShared>>> = const { std::cell::RefCell::new(None) }; }

/// panic payload of a thread that stayed blocked until the end of the execution
pub struct BlockedForever;

/// Called by a gated thread that would sleep: returns at once if `pred()` holds, otherwise the
/// thread is not schedulable until `pred()` holds (evaluated by the controller between steps,
/// when no thread runs).  Under `run_threads` (no blocking support) and on ungated threads it
/// spins with yield.
pub fn block_until(pred: impl Fn() -> bool + Send + 'static) {
    if pred() { return; }
    let t = TID.with(|c| c.get());
    let bsh = BSH.with(|s| s.borrow().clone());
    let (Some(t), Some(bsh)) = (t, bsh) else { while !pred() { std::thread::yield_now(); } return; };
    let sh = SH.with(|s| s.borrow().clone()).unwrap();
    let mut st = sh.m.lock().unwrap();
    bsh.preds.lock().unwrap()[t] = Some(Box::new(pred));
    sh.cv.notify_all();
    loop {
        if bsh.abort.lock().unwrap()[t] {
            drop(st);
            // leave the harness thread: nothing it does from here on is gated or logged
            TID.with(|c| c.set(None));
            std::panic::resume_unwind(Box::new(BlockedForever));
        }
        if bsh.preds.lock().unwrap()[t].is_none() { break; }
        st = sh.cv.wait(st).unwrap();
    }
}

/// One scheduler step around an arbitrary atomic section `f` (returns result, value read,
/// value written, success flag) on the location `addr`; logged like an access of the gated atomics.
#[track_caller]
pub fn gated_op<R>(addr: usize, kind: Kind, ord: core::sync::atomic::Ordering, f: impl FnOnce() -> (R, u64, u64, bool)) -> R {
    let loc = core::panic::Location::caller();
    let a = Access { addr, width: 8, kind, ord, ord_fail: ord, file: loc.file(), line: loc.line() };
    hook_before(&a);
    let (r, rd, wr, ok) = f();
    hook_after(&a, rd, wr, ok);
    r
}

pub struct ExecB {
    pub log: Vec<Rec>,
    pub choices: Vec<usize>,
    pub enabled: Vec<Vec<usize>>,
    pub deadlock: bool,
    /// threads that were still blocked when no thread could move any more
    pub blocked_forever: Vec<usize>,
}

/// `run_threads` with support for `block_until`.
pub fn run_threads_b(bodies: Vec<Box<dyn FnOnce() + Send>>, choose: &mut dyn FnMut(usize, &[usize], Option<usize>) -> Choice) -> ExecB {
    let n = bodies.len();
    let sh = Arc::new(Shared { m: Mutex::new(St { n, parked: vec![false; n], finished: vec![false; n], killed: vec![false; n], grant: None, kill: None, log: Vec::new() }), cv: Condvar::new() });
    let bsh = Arc::new(BShared { preds: Mutex::new((0..n).map(|_| None).collect()), abort: Mutex::new(vec![false; n]) });
    let mut handles = Vec::new();
    for (t, b) in bodies.into_iter().enumerate() {
        let sh2 = sh.clone();
        let bsh2 = bsh.clone();
        handles.push(std::thread::Builder::new().stack_size(256 * 1024).spawn(move || {
            TID.with(|c| c.set(Some(t)));
            SH.with(|s| *s.borrow_mut() = Some(sh2.clone()));
            BSH.with(|s| *s.borrow_mut() = Some(bsh2.clone()));
            let r = std::panic::catch_unwind(std::panic::AssertUnwindSafe(b));
            TID.with(|c| c.set(None));
            let mut st = sh2.m.lock().unwrap();
            if let Err(e) = r { if !e.is::<BlockedForever>() { st.log.push(Rec::Ret { tid: t, code: u64::MAX }); } }
            st.finished[t] = true;
            sh2.cv.notify_all();
        }).unwrap());
    }
    let mut choices = Vec::new();
    let mut enabled_log = Vec::new();
    let mut last: Option<usize> = None;
    let mut deadlock = false;
    let mut blocked_forever = Vec::new();
    let mut step = 0usize;
    loop {
        let mut st = sh.m.lock().unwrap();
        let mut waited = 0;
        loop {
            let quiescent = {
                let p = bsh.preds.lock().unwrap();
                st.grant.is_none() && st.kill.is_none() && (0..n).all(|t| st.parked[t] || st.finished[t] || st.killed[t] || p[t].is_some())
            };
            if quiescent {
                // no thread runs: wake every blocked thread whose predicate holds now, then wait for it to park
                let mut woke = false;
                {
                    let mut p = bsh.preds.lock().unwrap();
                    for t in 0..n { if p[t].as_ref().map(|f| f()).unwrap_or(false) { p[t] = None; woke = true; } }
                }
                if !woke { break; }
                sh.cv.notify_all();
            }
            let (g, to) = sh.cv.wait_timeout(st, Duration::from_millis(if quiescent { 1 } else { 2000 })).unwrap();
            st = g;
            if to.timed_out() && !quiescent { waited += 1; if waited >= 5 { deadlock = true; break; } }
        }
        if deadlock { break; }
        let enabled: Vec<usize> = (0..n).filter(|&t| st.parked[t]).collect();
        if enabled.is_empty() {
            let p = bsh.preds.lock().unwrap();
            blocked_forever = (0..n).filter(|&t| p[t].is_some()).collect();
            break;
        }
        match choose(step, &enabled, last) {
            Choice::Run(t) => { assert!(enabled.contains(&t)); st.grant = Some(t); choices.push(t); last = Some(t); }
            Choice::Kill(t) => { assert!(enabled.contains(&t)); st.kill = Some(t); choices.push(usize::MAX - t); }
        }
        enabled_log.push(enabled);
        step += 1;
        sh.cv.notify_all();
    }
    if !blocked_forever.is_empty() {
        let _st = sh.m.lock().unwrap();
        let mut ab = bsh.abort.lock().unwrap();
        for &t in &blocked_forever { ab[t] = true; }
        sh.cv.notify_all();
    }
    let killed: Vec<bool> = sh.m.lock().unwrap().killed.clone();
    for (t, h) in handles.into_iter().enumerate() { if !killed[t] && !deadlock { let _ = h.join(); } }
    let log = std::mem::take(&mut sh.m.lock().unwrap().log);
    ExecB { log, choices, enabled: enabled_log, deadlock, blocked_forever }
}

/// `explore` over `run_threads_b`: all schedules with at most `bound` preemptions (leaving a
/// thread that became blocked is not a preemption).
pub fn explore_b(bound: usize, max_execs: usize, mk: &mut dyn FnMut() -> Vec<Box<dyn FnOnce() + Send>>, visit: &mut dyn FnMut(&ExecB)) -> usize {
    let mut prefix: Vec<usize> = Vec::new();
    let mut execs = 0usize;
    loop {
        let pfx = prefix.clone();
        let mut cands_log: Vec<Vec<usize>> = Vec::new();
        let ex = {
            let mut chooser = |step: usize, enabled: &[usize], last: Option<usize>| -> Choice {
                let default = match last { Some(l) if enabled.contains(&l) => l, _ => enabled[0] };
                let mut cands = vec![default];
                for &t in enabled { if t != default { cands.push(t); } }
                let c = if step < pfx.len() && enabled.contains(&pfx[step]) { pfx[step] } else { default };
                cands_log.push(cands);
                Choice::Run(c)
            };
            run_threads_b(mk(), &mut chooser)
        };
        execs += 1;
        visit(&ex);
        if execs >= max_execs { return execs; }
        let ch = &ex.choices;
        let mut pre = vec![0usize; ch.len() + 1];
        for i in 0..ch.len() {
            let default = cands_log[i][0];
            let prev_enabled = i > 0 && ex.enabled[i].contains(&ch[i - 1]);
            pre[i + 1] = pre[i] + if ch[i] != default && prev_enabled { 1 } else { 0 };
        }
        let mut found = None;
        for i in (0..ch.len()).rev() {
            let cands = &cands_log[i];
            let k = cands.iter().position(|&t| t == ch[i]).unwrap();
            let prev_enabled = i > 0 && ex.enabled[i].contains(&ch[i - 1]);
            for j in k + 1..cands.len() {
                let cost = if prev_enabled { 1 } else { 0 };
                if pre[i] + cost <= bound { found = Some((i, cands[j])); break; }
            }
            if found.is_some() { break; }
        }
        match found {
            Some((i, t)) => { prefix = ch[..i].to_vec(); prefix.push(t); }
            None => return execs,
        }
    }
}

/// one execution under a seeded random schedule, with blocking support
pub fn run_random_b(seed: u64, bodies: Vec<Box<dyn FnOnce() + Send>>) -> ExecB {
    let mut rng = Rng(seed);
    let mut chooser = |_step: usize, enabled: &[usize], last: Option<usize>| -> Choice {
        match last {
            Some(l) if enabled.contains(&l) && rng.below(3) != 0 => Choice::Run(l),
            _ => Choice::Run(enabled[rng.below(enabled.len() as u64) as usize]),
        }
    };
    run_threads_b(bodies, &mut chooser)
}

/// `print_exec` for ExecB.  Accesses of files whose path ends with one of `skip_files` (e.g.
/// the logger's level global) are scheduling points but not part of the compared trace.  With
/// `xline` the blocked-forever verdict is printed as `X blocked-forever t`; a harness whose
/// driver expects the verdict inside its final-observation line passes false.
pub fn print_exec_b(ex: &ExecB, out: &mut impl std::io::Write, skip_files: &[&str], xline: bool) {
    for r in &ex.log {
        match r {
            Rec::Acc { tid, file, line, addr, kind, ord, ord_fail, rd, wr, ok, .. } => {
                if skip_files.iter().any(|s| file.ends_with(s)) { continue; }
                let f = file.rsplit('/').next().unwrap_or(file);
                let _ = writeln!(out, "E {} {}:{} {} {} {} {} {} {} {}", tid, f, line, addr, kind_name(*kind), ord_name(*ord), ord_name(*ord_fail), rd, wr, if *ok { 1 } else { 0 });
            }
            Rec::Ret { tid, code } => { let _ = writeln!(out, "R {} {}", tid, if *code == u64::MAX { "P".to_string() } else { code.to_string() }); }
        }
    }
    if ex.deadlock { let _ = writeln!(out, "X deadlock"); }
    if xline { for t in &ex.blocked_forever { let _ = writeln!(out, "X blocked-forever {}", t); } }
}

// ---------------------------------------------------------------------------------------
// Additions for C13 (append-only): filtered gating.  A filter decides per access whether the
// access is a scheduling point (FILTER_GATE: park + log, as with `install`), only recorded
// (FILTER_LOG: logged in program order, the thread does not park) or invisible (FILTER_SKIP).
// Needed where the code under test takes a real mutex: a thread must never park while it holds
// the lock, so accesses inside the critical section are LOG/SKIP and run within the step of
// the access that preceded the lock.
// ---------------------------------------------------------------------------------------
pub const FILTER_SKIP: u8 = 0;
pub const FILTER_GATE: u8 = 1;
pub const FILTER_LOG: u8 = 2;
pub type FilterFn = fn(&Access) -> u8;

static FILTER: std::sync::atomic::AtomicUsize = std::sync::atomic::AtomicUsize::new(0);
thread_local! { static FDEC: Cell<u8> = const { Cell::new(FILTER_GATE) }; }

fn hook_before_filtered(a: &Access) {
    if TID.with(|c| c.get()).is_none() { return; }
    let f = FILTER.load(std::sync::atomic::Ordering::Relaxed);
    let d = if f == 0 { FILTER_GATE } else { let f: FilterFn = unsafe { std::mem::transmute(f) }; f(a) };
    FDEC.with(|c| c.set(d));
    if d == FILTER_GATE { hook_before(a); }
}

fn hook_after_filtered(a: &Access, rd: u64, wr: u64, ok: bool) {
    if TID.with(|c| c.get()).is_none() { return; }
    if FDEC.with(|c| c.get()) != FILTER_SKIP { hook_after(a, rd, wr, ok); }
}

/// like `install`, but every access of a harness thread is first classified by `f`
pub fn install_filtered(f: FilterFn) {
    FILTER.store(f as usize, std::sync::atomic::Ordering::SeqCst);
    verif_gate::set_hooks(hook_before_filtered, hook_after_filtered);
}

/// replace the filter of an installed filtered gate
pub fn set_filter(f: FilterFn) { FILTER.store(f as usize, std::sync::atomic::Ordering::SeqCst); }

/// harness thread id of the calling thread (None on ungated threads)
pub fn current_tid() -> Option<usize> { TID.with(|c| c.get()) }

// C05 addition (append-only), continued: a gated thread may perform a REAL blocking call (e.g. a
// timed wait on a real semaphore) without stalling the scheduler: inside `real_block` the thread
// counts as not schedulable; the controller `run_threads_rb` goes on with the other threads and,
// when nothing else can move, waits for the call to return.
static REAL_BLOCKED: Mutex<Vec<(usize, usize)>> = Mutex::new(Vec::new());   // (run id = address of Shared, thread)

pub fn real_block<R>(f: impl FnOnce() -> R) -> R {
    let t = TID.with(|c| c.get());
    let sh = SH.with(|s| s.borrow().clone());
    let (Some(t), Some(sh)) = (t, sh) else { return f(); };
    let id = Arc::as_ptr(&sh) as usize;
    { let _st = sh.m.lock().unwrap(); REAL_BLOCKED.lock().unwrap().push((id, t)); sh.cv.notify_all(); }
    let r = f();
    { let _st = sh.m.lock().unwrap(); REAL_BLOCKED.lock().unwrap().retain(|x| *x != (id, t)); sh.cv.notify_all(); }
    r
}

/// `run_threads` with support for `real_block` (no `block_until` support): threads inside a real
/// blocking call are not enabled; when no thread is enabled the controller waits (up to
/// `max_wait`) for a blocked call to return.
pub fn run_threads_rb(bodies: Vec<Box<dyn FnOnce() + Send>>, max_wait: Duration, choose: &mut dyn FnMut(usize, &[usize], Option<usize>) -> Choice) -> Exec {
    let n = bodies.len();
    let sh = Arc::new(Shared { m: Mutex::new(St { n, parked: vec![false; n], finished: vec![false; n], killed: vec![false; n], grant: None, kill: None, log: Vec::new() }), cv: Condvar::new() });
    let id = Arc::as_ptr(&sh) as usize;
    let mut handles = Vec::new();
    for (t, b) in bodies.into_iter().enumerate() {
        let sh2 = sh.clone();
        handles.push(std::thread::Builder::new().stack_size(256 * 1024).spawn(move || {
            TID.with(|c| c.set(Some(t)));
            SH.with(|s| *s.borrow_mut() = Some(sh2.clone()));
            let r = std::panic::catch_unwind(std::panic::AssertUnwindSafe(b));
            TID.with(|c| c.set(None));
            let mut st = sh2.m.lock().unwrap();
            if r.is_err() { st.log.push(Rec::Ret { tid: t, code: u64::MAX }); }
            st.finished[t] = true;
            sh2.cv.notify_all();
        }).unwrap());
    }
    let rb = |t: usize| REAL_BLOCKED.lock().unwrap().contains(&(id, t));
    let mut choices = Vec::new();
    let mut enabled_log = Vec::new();
    let mut last: Option<usize> = None;
    let mut deadlock = false;
    let mut step = 0usize;
    let t0 = std::time::Instant::now();
    let mut idle_since: Option<std::time::Instant> = None;
    loop {
        let mut st = sh.m.lock().unwrap();
        let mut waited = 0;
        while !(st.grant.is_none() && st.kill.is_none() && (0..n).all(|t| st.parked[t] || st.finished[t] || st.killed[t] || rb(t))) {
            let (g, to) = sh.cv.wait_timeout(st, Duration::from_millis(2000)).unwrap();
            st = g;
            if to.timed_out() { waited += 1; if waited >= 5 { deadlock = true; break; } }
        }
        if deadlock { break; }
        let enabled: Vec<usize> = (0..n).filter(|&t| st.parked[t]).collect();
        if enabled.is_empty() {
            if (0..n).any(|t| rb(t)) {
                let since = *idle_since.get_or_insert_with(std::time::Instant::now);
                if since.elapsed() > max_wait { deadlock = true; break; }
                let (g, _) = sh.cv.wait_timeout(st, Duration::from_millis(50)).unwrap();
                drop(g);
                continue;
            }
            break;
        }
        idle_since = None;
        match choose(step, &enabled, last) {
            Choice::Run(t) => { assert!(enabled.contains(&t)); st.grant = Some(t); choices.push(t); last = Some(t); }
            Choice::Kill(t) => { assert!(enabled.contains(&t)); st.kill = Some(t); choices.push(usize::MAX - t); }
        }
        enabled_log.push(enabled);
        step += 1;
        sh.cv.notify_all();
    }
    let _ = t0;
    let killed: Vec<bool> = sh.m.lock().unwrap().killed.clone();
    for (t, h) in handles.into_iter().enumerate() { if !killed[t] && !deadlock { let _ = h.join(); } }
    let log = std::mem::take(&mut sh.m.lock().unwrap().log);
    Exec { log, choices, enabled: enabled_log, deadlock }
}

/// (C13, append-only) Runs `body` on the CALLING thread as harness thread 0: accesses are
/// classified by the installed filter and recorded, nothing is ever parked -- for sequential
/// histories.  The filter must not return FILTER_GATE while this runs.
pub fn run_inline(body: Box<dyn FnOnce()>) -> Exec {
    let sh = Arc::new(Shared { m: Mutex::new(St { n: 1, parked: vec![false], finished: vec![false], killed: vec![false], grant: None, kill: None, log: Vec::new() }), cv: Condvar::new() });
    TID.with(|c| c.set(Some(0)));
    SH.with(|s| *s.borrow_mut() = Some(sh.clone()));
    let r = std::panic::catch_unwind(std::panic::AssertUnwindSafe(body));
    TID.with(|c| c.set(None));
    SH.with(|s| *s.borrow_mut() = None);
    let mut st = sh.m.lock().unwrap();
    if r.is_err() { st.log.push(Rec::Ret { tid: 0, code: u64::MAX }); }
    let log = std::mem::take(&mut st.log);
    Exec { log, choices: Vec::new(), enabled: Vec::new(), deadlock: false }
}

// ---------------------------------------------------------------------------------------
// C03/C09/C12 addition (append-only): injection of stale values for the weak-memory
// correspondence.  Memory stays sequentially consistent; what a LOAD or a FAILED
// compare-exchange of a harness thread RETURNS may be replaced by an older value of that
// location, never older than what the thread itself has already observed or written there
// (per-location coherence).  Whether the stale value is also permitted by happens-before
// across locations is decided by the view model in the driver, which discards executions
// with an injection it does not allow.  Locations are selected by the source file of the
// access (`stale_enable(.., file_suffixes)`), so that only the data structure under test is
// affected.
// ---------------------------------------------------------------------------------------
struct StaleSt {
    hist: std::collections::HashMap<usize, Vec<u64>>,
    seen: std::collections::HashMap<(usize, usize), usize>,
    rng: Rng,
    percent: u64,
    files: Vec<&'static str>,
    injected: usize,
}
static STALE: Mutex<Option<StaleSt>> = Mutex::new(None);

fn stale_applies(st: &StaleSt, a: &Access) -> bool {
    a.kind != Kind::Cell && st.files.iter().any(|f| a.file.ends_with(f))
}

fn stale_note(t: usize, a: &Access, rd: u64, wr: u64, ok: bool) {
    let mut g = STALE.lock().unwrap();
    let Some(st) = g.as_mut() else { return };
    if !stale_applies(st, a) { return; }
    let writes = match a.kind {
        Kind::Load | Kind::Cell => false,
        Kind::Cas => ok,
        _ => true,
    };
    let h = st.hist.entry(a.addr).or_insert_with(|| vec![if a.kind == Kind::Store { wr } else { rd }]);
    if writes {
        if a.kind != Kind::Store && *h.last().unwrap() != rd && h.len() == 1 { h[0] = rd; }
        h.push(wr);
        let last = h.len() - 1;
        st.seen.insert((t, a.addr), last);
    }
}

fn hook_override(a: &Access, real: u64, expected: u64, cas_fail: bool) -> u64 {
    let Some(t) = TID.with(|c| c.get()) else { return real };
    let mut g = STALE.lock().unwrap();
    let Some(st) = g.as_mut() else { return real };
    if !stale_applies(st, a) { return real; }
    let h = st.hist.entry(a.addr).or_insert_with(|| vec![real]);
    if *h.last().unwrap() != real { h.push(real); }     // a write this tracker did not see (ungated set-up code)
    let last = h.len() - 1;
    let lo = *st.seen.get(&(t, a.addr)).unwrap_or(&0);
    let mut idx = last;
    if lo < last && st.rng.below(100) < st.percent {
        let cand: Vec<usize> = (lo..=last).filter(|&i| !cas_fail || h[i] != expected).collect();
        if !cand.is_empty() { idx = cand[st.rng.below(cand.len() as u64) as usize]; }
    }
    if idx != last { st.injected += 1; }
    let v = h[idx];
    st.seen.insert((t, a.addr), idx);
    v
}

/// Switch stale-value injection on for accesses whose source file ends with one of `files`
/// (percent = probability per eligible access).  Call before `run_threads`; the state is per
/// execution: call `stale_disable` (returns the number of injected stale values) afterwards.
pub fn stale_enable(seed: u64, percent: u64, files: &[&'static str]) {
    *STALE.lock().unwrap() = Some(StaleSt { hist: Default::default(), seen: Default::default(), rng: Rng(seed), percent, files: files.to_vec(), injected: 0 });
    verif_gate::set_override_hook(hook_override);
}
pub fn stale_disable() -> usize {
    verif_gate::clear_override_hook();
    STALE.lock().unwrap().take().map(|s| s.injected).unwrap_or(0)
}
