//! Baton scheduler for the G1 correspondence (DESIGN.md 3.1): harness threads perform one
//! gated shared-memory access at a time, in the order a schedule dictates; every access is
//! logged with site, address, kind, orderings, value read / written.
use iceoryx2_pal_concurrency_sync::verif_gate::{self, Access, Kind};
use std::cell::Cell;
use std::sync::{Arc, Condvar, Mutex};
use std::time::Duration;

#[derive(Clone, Debug)]
pub enum Rec {
    Acc { tid: usize, file: &'static str, line: u32, addr: usize, width: u8, kind: Kind, ord: u8, ord_fail: u8, rd: u64, wr: u64, ok: bool },
    Ret { tid: usize, code: u64 },
}

pub fn ord_code(o: core::sync::atomic::Ordering) -> u8 {
    use core::sync::atomic::Ordering::*;
    match o { Relaxed => 0, Release => 1, Acquire => 2, AcqRel => 3, SeqCst => 4, _ => 9 }
}
pub fn ord_name(c: u8) -> &'static str { match c { 0 => "rlx", 1 => "rel", 2 => "acq", 3 => "acqrel", 4 => "sc", 5 => "na", _ => "?" } }
pub fn kind_name(k: Kind) -> &'static str {
    match k { Kind::Load => "load", Kind::Store => "store", Kind::Cas => "cas", Kind::Swap => "swap", Kind::FetchAdd => "fadd", Kind::FetchSub => "fsub",
        Kind::FetchOr => "for", Kind::FetchAnd => "fand", Kind::Cell => "cell", Kind::FetchXor => "fxor", Kind::FetchMax => "fmax", Kind::FetchMin => "fmin", Kind::FetchNand => "fnand" }
}

struct St {
    n: usize,
    parked: Vec<bool>,
    finished: Vec<bool>,
    killed: Vec<bool>,
    grant: Option<usize>,
    kill: Option<usize>,
    log: Vec<Rec>,
}

struct Shared { m: Mutex<St>, cv: Condvar }

thread_local! {
    static TID: Cell<Option<usize>> = const { Cell::new(None) };
    static SH: std::cell::RefCell<Option<Arc<Shared>>> = const { std::cell::RefCell::new(None) };
}

fn hook_before(_a: &Access) {
    let Some(t) = TID.with(|c| c.get()) else { return };
    let sh = SH.with(|s| s.borrow().clone()).unwrap();
    let mut st = sh.m.lock().unwrap();
    st.parked[t] = true;
    sh.cv.notify_all();
    loop {
        if st.kill == Some(t) {
            st.kill = None; st.killed[t] = true; st.parked[t] = false;
            sh.cv.notify_all();
            drop(st);
            // a crashed thread: never runs again, runs no destructor
            loop { std::thread::park(); }
        }
        if st.grant == Some(t) { break; }
        st = sh.cv.wait(st).unwrap();
    }
    st.grant = None;
    st.parked[t] = false;
}

fn hook_after(a: &Access, rd: u64, wr: u64, ok: bool) {
    let Some(t) = TID.with(|c| c.get()) else { return };
    let sh = SH.with(|s| s.borrow().clone()).unwrap();
    let mut st = sh.m.lock().unwrap();
    let (o, of) = if a.kind == Kind::Cell { (5, 5) } else { (ord_code(a.ord), if a.kind == Kind::Cas { ord_code(a.ord_fail) } else { ord_code(a.ord) }) };
    st.log.push(Rec::Acc { tid: t, file: a.file, line: a.line, addr: a.addr, width: a.width, kind: a.kind, ord: o, ord_fail: of, rd, wr, ok });
}

/// called by a harness thread when an API operation has returned
pub fn ret(code: u64) {
    let Some(t) = TID.with(|c| c.get()) else { return };
    let sh = SH.with(|s| s.borrow().clone()).unwrap();
    sh.m.lock().unwrap().log.push(Rec::Ret { tid: t, code });
}

/// run f ungated on a harness thread (e.g. setup code inside a body)
pub fn ungated<R>(f: impl FnOnce() -> R) -> R {
    let old = TID.with(|c| c.replace(None));
    let r = f();
    TID.with(|c| c.set(old));
    r
}

pub fn install() { verif_gate::set_hooks(hook_before, hook_after); }

#[derive(Clone, Debug, PartialEq, Eq)]
pub enum Choice { Run(usize), Kill(usize) }

pub struct Exec {
    pub log: Vec<Rec>,
    pub choices: Vec<usize>,
    pub enabled: Vec<Vec<usize>>,
    pub deadlock: bool,
}

/// Runs the bodies as gated threads.  `choose(step, enabled, last)` picks the next thread
/// among the parked ones; returning Kill(t) makes t crash at its current gate.
pub fn run_threads(bodies: Vec<Box<dyn FnOnce() + Send>>, choose: &mut dyn FnMut(usize, &[usize], Option<usize>) -> Choice) -> Exec {
    let n = bodies.len();
    let sh = Arc::new(Shared { m: Mutex::new(St { n, parked: vec![false; n], finished: vec![false; n], killed: vec![false; n], grant: None, kill: None, log: Vec::new() }), cv: Condvar::new() });
    let mut handles = Vec::new();
    for (t, b) in bodies.into_iter().enumerate() {
        let sh2 = sh.clone();
        handles.push(std::thread::Builder::new().stack_size(256 * 1024).spawn(move || {
            TID.with(|c| c.set(Some(t)));
            SH.with(|s| *s.borrow_mut() = Some(sh2.clone()));
            let r = std::panic::catch_unwind(std::panic::AssertUnwindSafe(b));
            TID.with(|c| c.set(None));
            let mut st = sh2.m.lock().unwrap();
            if r.is_err() { st.log.push(Rec::Ret { tid: t, code: u64::MAX }); }
            st.finished[t] = true;
            sh2.cv.notify_all();
        }).unwrap());
    }
    let mut choices = Vec::new();
    let mut enabled_log = Vec::new();
    let mut last: Option<usize> = None;
    let mut deadlock = false;
    let mut step = 0usize;
    loop {
        let mut st = sh.m.lock().unwrap();
        // wait until every thread is parked, finished or killed and no grant is outstanding
        let mut waited = 0;
        while !(st.grant.is_none() && st.kill.is_none() && (0..n).all(|t| st.parked[t] || st.finished[t] || st.killed[t])) {
            let (g, to) = sh.cv.wait_timeout(st, Duration::from_millis(2000)).unwrap();
            st = g;
            if to.timed_out() { waited += 1; if waited >= 5 { deadlock = true; break; } }
        }
        if deadlock { break; }
        let enabled: Vec<usize> = (0..n).filter(|&t| st.parked[t]).collect();
        if enabled.is_empty() { break; }
        match choose(step, &enabled, last) {
            Choice::Run(t) => { assert!(enabled.contains(&t)); st.grant = Some(t); choices.push(t); last = Some(t); }
            Choice::Kill(t) => { assert!(enabled.contains(&t)); st.kill = Some(t); choices.push(usize::MAX - t); }
        }
        enabled_log.push(enabled);
        step += 1;
        sh.cv.notify_all();
    }
    let killed: Vec<bool> = sh.m.lock().unwrap().killed.clone();
    for (t, h) in handles.into_iter().enumerate() { if !killed[t] && !deadlock { let _ = h.join(); } }
    let log = std::mem::take(&mut sh.m.lock().unwrap().log);
    Exec { log, choices, enabled: enabled_log, deadlock }
}

/// Exhaustive exploration of all schedules with at most `bound` preemptions.  `mk` builds a
/// fresh instance (thread bodies) for every execution; `visit` sees every execution.
pub fn explore(bound: usize, max_execs: usize, mk: &mut dyn FnMut() -> Vec<Box<dyn FnOnce() + Send>>, visit: &mut dyn FnMut(&Exec)) -> usize {
    let mut prefix: Vec<usize> = Vec::new();
    let mut execs = 0usize;
    loop {
        let pfx = prefix.clone();
        let mut cands_log: Vec<Vec<usize>> = Vec::new();
        let ex = {
            let mut chooser = |step: usize, enabled: &[usize], last: Option<usize>| -> Choice {
                let default = match last { Some(l) if enabled.contains(&l) => l, _ => enabled[0] };
                let mut cands = vec![default];
                for &t in enabled { if t != default { cands.push(t); } }
                let c = if step < pfx.len() { pfx[step] } else { default };
                cands_log.push(cands);
                Choice::Run(c)
            };
            run_threads(mk(), &mut chooser)
        };
        execs += 1;
        visit(&ex);
        if execs >= max_execs { return execs; }
        // preemption count along the taken choices
        let ch = &ex.choices;
        let mut pre = vec![0usize; ch.len() + 1];
        for i in 0..ch.len() {
            let default = cands_log[i][0];
            let prev_enabled = i > 0 && ex.enabled[i].contains(&ch[i - 1]);
            pre[i + 1] = pre[i] + if ch[i] != default && prev_enabled { 1 } else { 0 };
        }
        // deepest step with an untried alternative within the bound
        let mut found = None;
        for i in (0..ch.len()).rev() {
            let cands = &cands_log[i];
            let k = cands.iter().position(|&t| t == ch[i]).unwrap();
            let prev_enabled = i > 0 && ex.enabled[i].contains(&ch[i - 1]);
            for j in k + 1..cands.len() {
                let cost = if prev_enabled { 1 } else { 0 };
                if pre[i] + cost <= bound { found = Some((i, cands[j])); break; }
            }
            if found.is_some() { break; }
        }
        match found {
            Some((i, t)) => { prefix = ch[..i].to_vec(); prefix.push(t); }
            None => return execs,
        }
    }
}

pub struct Rng(pub u64);
impl Rng {
    pub fn next(&mut self) -> u64 {
        self.0 = self.0.wrapping_add(0x9E3779B97F4A7C15);
        let mut z = self.0;
        z = (z ^ (z >> 30)).wrapping_mul(0xBF58476D1CE4E5B9);
        z = (z ^ (z >> 27)).wrapping_mul(0x94D049BB133111EB);
        z ^ (z >> 31)
    }
    pub fn below(&mut self, n: u64) -> u64 { if n == 0 { 0 } else { self.next() % n } }
}

/// one execution under a seeded random schedule (switch probability 1/3 per step)
pub fn run_random(seed: u64, bodies: Vec<Box<dyn FnOnce() + Send>>) -> Exec {
    let mut rng = Rng(seed);
    let mut chooser = |_step: usize, enabled: &[usize], last: Option<usize>| -> Choice {
        match last {
            Some(l) if enabled.contains(&l) && rng.below(3) != 0 => Choice::Run(l),
            _ => Choice::Run(enabled[rng.below(enabled.len() as u64) as usize]),
        }
    };
    run_threads(bodies, &mut chooser)
}

/// print an execution in the line format the OCaml drivers read
pub fn print_exec(ex: &Exec, out: &mut impl std::io::Write) {
    for r in &ex.log {
        match r {
            Rec::Acc { tid, file, line, addr, kind, ord, ord_fail, rd, wr, ok, .. } => {
                let f = file.rsplit('/').next().unwrap_or(file);
                let _ = writeln!(out, "E {} {}:{} {} {} {} {} {} {} {}", tid, f, line, addr, kind_name(*kind), ord_name(*ord), ord_name(*ord_fail), rd, wr, if *ok { 1 } else { 0 });
            }
            Rec::Ret { tid, code } => { let _ = writeln!(out, "R {} {}", tid, if *code == u64::MAX { "P".to_string() } else { code.to_string() }); }
        }
    }
    if ex.deadlock { let _ = writeln!(out, "X deadlock"); }
}
