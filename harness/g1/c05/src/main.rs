//! G1 correspondence harness for C05: runs notifier / listener programs on the REAL
//! iceoryx2_cal::event::common (Handle::notify, Waiter::{try,timed,blocking}_wait) over the
//! real RelocatableBitSet / RelocatableCountingBitSet, instantiated with a MODEL trigger (the
//! cal trigger traits HandlerInterface / WaiterInterface implemented below over one token
//! counter whose every operation is exactly one scheduler step), under the baton scheduler.
//! A blocking wait on an empty trigger does not block the OS thread: it reports "would block"
//! to the scheduler (sched::block_until).
//!
//! usage: c05 exh <bound> <shard> <nshards> <seed> <maxexecs-per-program>
//!        c05 rnd <count> <shard> <nshards> <seed>
//!        c05 one <bitset|counting> <cap> <tcap|inf> <listener modes: t|d|b ...> <notifier programs "0,0|9"> <failfull flags "01"> <schedule "0,0,1">
//!        c05 search <bound> <shard> <nshards> <maxexecs-per-program>   (implementation alone, no model: slow-path shapes, native oracle)
//!        c05 wit                          (regression: the schedules of the fixed lost wake-up event:lost-wakeup-notified-empty-trigger; must deliver now)
//!        c05 crash                        (residual window: a notifier dies between its state CAS and its post, after a stale promotion)
//!        (a schedule entry kN = thread N crashes at its current gate: it is parked for ever)
//!        c05 trig                         (sequential behaviour of the three REAL triggers)
//!        c05 sem <timeout ms>             (lost wake-up on the REAL semaphore trigger, timed_wait as observable)
extern crate iceoryx2_bb_loggers;
use core::fmt::Debug;
use core::marker::PhantomData;
use core::mem::MaybeUninit;
use core::ptr::NonNull;
use core::sync::atomic::{AtomicU64 as CoreU64, AtomicUsize as CoreUsize, Ordering};
use core::time::Duration;
use iceoryx2_bb_container::semantic_string::SemanticString;
use iceoryx2_bb_elementary_traits::testing::abandonable::Abandonable;
use iceoryx2_bb_elementary_traits::zero_copy_send::ZeroCopySend;
use iceoryx2_bb_lock_free::mpmc::bit_set::RelocatableBitSet;
use iceoryx2_bb_lock_free::mpmc::counting_bit_set::RelocatableCountingBitSet;
use iceoryx2_bb_system_types::file_name::FileName;
use iceoryx2_bb_system_types::path::Path;
use iceoryx2_cal::dynamic_storage::{self, DynamicStorage};
use iceoryx2_cal::event::common::EventImpl;
use iceoryx2_cal::event::event_state::{EventActivation, EventState};
use iceoryx2_cal::event::trigger::{Configuration as TrigCfg, HandlerInterface, State, WaiterInterface};
use iceoryx2_cal::event::{
    Event, EventId, Listener, ListenerBuilder, ListenerCreateError, ListenerWaitError, NamedConceptBuilder, Notifier, NotifierBuilder,
    NotifierNotifyError, NotifierOpenError,
};
use iceoryx2_cal::named_concept::{NamedConceptPathHintRemoveError, NamedConceptRemoveError};
use iceoryx2_pal_concurrency_sync::verif_gate::Kind;
use sched::*;
use std::io::Write;
use std::sync::Arc;

// ------------------------------------------------------------------------------------------
// MODEL trigger
// ------------------------------------------------------------------------------------------
/// capacity of the next model trigger that is created (u64::MAX = unbounded)
static NEXT_TCAP: CoreU64 = CoreU64::new(u64::MAX);
/// address of the State<E, MtMgmt> the last created model waiter lives in (final observation)
static LAST_STATE: CoreUsize = CoreUsize::new(0);

#[derive(Debug)]
#[repr(C)]
pub struct MtMgmt {
    tokens: CoreU64,
    cap: u64,
}
unsafe impl ZeroCopySend for MtMgmt {}

impl MtMgmt {
    fn addr(&self) -> usize { &self.tokens as *const _ as usize }
    /// HandlerInterface::notify: one step; false = buffer full
    #[track_caller]
    fn post(&self) -> bool {
        gated_op(self.addr(), Kind::FetchAdd, Ordering::SeqCst, || {
            let v = self.tokens.load(Ordering::SeqCst);
            if v >= self.cap { (false, v, v, false) } else { self.tokens.store(v + 1, Ordering::SeqCst); (true, v, v + 1, true) }
        })
    }
    /// take one token if there is one: one step
    #[track_caller]
    fn take(&self) -> bool {
        gated_op(self.addr(), Kind::FetchSub, Ordering::SeqCst, || {
            let v = self.tokens.load(Ordering::SeqCst);
            if v == 0 { (false, 0, 0, false) } else { self.tokens.store(v - 1, Ordering::SeqCst); (true, v, v - 1, true) }
        })
    }
    /// empty_buffer: one step
    #[track_caller]
    fn clear(&self) {
        gated_op(self.addr(), Kind::Swap, Ordering::SeqCst, || { let v = self.tokens.swap(0, Ordering::SeqCst); ((), v, 0, true) })
    }
}

pub struct MtHandle<E> { mgmt: *const MtMgmt, _e: PhantomData<E> }
pub struct MtWaiter<E> { mgmt: *const MtMgmt, _e: PhantomData<E> }
impl<E> Debug for MtHandle<E> { fn fmt(&self, f: &mut core::fmt::Formatter<'_>) -> core::fmt::Result { f.write_str("MtHandle") } }
impl<E> Debug for MtWaiter<E> { fn fmt(&self, f: &mut core::fmt::Formatter<'_>) -> core::fmt::Result { f.write_str("MtWaiter") } }
unsafe impl<E> Send for MtHandle<E> {}
unsafe impl<E> Sync for MtHandle<E> {}
unsafe impl<E> Send for MtWaiter<E> {}
unsafe impl<E> Sync for MtWaiter<E> {}
impl<E> Abandonable for MtHandle<E> { unsafe fn abandon_in_place(_this: NonNull<Self>) {} }
impl<E> Abandonable for MtWaiter<E> { unsafe fn abandon_in_place(_this: NonNull<Self>) {} }

impl<E: EventState, S: DynamicStorage<State<E, MtMgmt>>> HandlerInterface<E, MtMgmt, S> for MtHandle<E> {
    fn open(_name: &FileName, _config: &TrigCfg, mgmt: &MtMgmt) -> Result<Self, NotifierOpenError> {
        Ok(Self { mgmt: mgmt as *const MtMgmt, _e: PhantomData })
    }
    fn notify(&self) -> Result<(), NotifierNotifyError> {
        if unsafe { &*self.mgmt }.post() { Ok(()) } else { Err(NotifierNotifyError::BufferIsFull) }
    }
}

impl<E: EventState, S: DynamicStorage<State<E, MtMgmt>>> WaiterInterface<E, MtMgmt, S> for MtWaiter<E> {
    const IS_FILE_DESCRIPTOR_BASED: bool = false;
    unsafe fn remove(_name: &FileName, _config: &TrigCfg) -> Result<bool, NamedConceptRemoveError> { Ok(true) }
    fn remove_path_hint(_value: &Path) -> Result<(), NamedConceptPathHintRemoveError> { Ok(()) }
    fn create(_name: &FileName, _config: &TrigCfg, mgmt: &mut MaybeUninit<MtMgmt>) -> Result<Self, ListenerCreateError> {
        mgmt.write(MtMgmt { tokens: CoreU64::new(0), cap: NEXT_TCAP.load(Ordering::SeqCst) });
        let state = (mgmt.as_ptr() as usize) - core::mem::offset_of!(State<E, MtMgmt>, handle);
        LAST_STATE.store(state, Ordering::SeqCst);
        Ok(Self { mgmt: mgmt.as_ptr(), _e: PhantomData })
    }
    fn try_wait(&self) -> Result<(), ListenerWaitError> { let _ = unsafe { &*self.mgmt }.take(); Ok(()) }
    /// the timeout of a timed wait on an empty trigger elapses at once (a legal behaviour of a timed wait)
    fn timed_wait(&self, _timeout: Duration) -> Result<(), ListenerWaitError> { let _ = unsafe { &*self.mgmt }.take(); Ok(()) }
    fn blocking_wait(&self) -> Result<(), ListenerWaitError> {
        let p = self.mgmt as usize;
        loop {
            block_until(move || unsafe { &*(p as *const MtMgmt) }.tokens.load(Ordering::SeqCst) > 0);
            if unsafe { &*self.mgmt }.take() { return Ok(()); }
        }
    }
    fn empty_buffer(&self) -> Result<(), ListenerWaitError> { unsafe { &*self.mgmt }.clear(); Ok(()) }
}

type PStore<E> = dynamic_storage::process_local::Storage<State<E, MtMgmt>>;
type MtEvent<E> = EventImpl<E, MtMgmt, PStore<E>, MtHandle<E>, MtWaiter<E>>;

// ------------------------------------------------------------------------------------------
// programs
// ------------------------------------------------------------------------------------------
#[derive(Clone, Debug)]
struct Case { kind: &'static str, cap: usize, tcap: Option<u64>, lmodes: Vec<char>, nprogs: Vec<Vec<usize>>, ff: Vec<bool> }

impl Case {
    fn header(&self) -> String {
        format!("C {} {} {} {} {} {}", self.kind, self.cap, self.tcap.map(|c| c.to_string()).unwrap_or("inf".into()),
            self.lmodes.iter().collect::<String>(),
            self.nprogs.iter().map(|p| p.iter().map(|i| i.to_string()).collect::<Vec<_>>().join(",")).collect::<Vec<_>>().join("|"),
            self.ff.iter().map(|b| if *b { '1' } else { '0' }).collect::<String>())
    }
}

type Body = Box<dyn FnOnce() + Send>;
static UNIQ: CoreU64 = CoreU64::new(0);

struct Inst<E: EventState + 'static> { listener: Arc<<MtEvent<E> as Event<E>>::Listener>, notifiers: Vec<Arc<<MtEvent<E> as Event<E>>::Notifier>>, state: usize }

fn rep_code(e: &EventActivation) -> u64 { 2 * (e.id.as_value() as u64 + 1024 * e.count) + 1 }

fn mk_inst<E: EventState + 'static>(c: &Case) -> Inst<E> {
    let n = UNIQ.fetch_add(1, Ordering::SeqCst);
    let name = FileName::new(format!("c05_{}_{}", std::process::id(), n).as_bytes()).unwrap();
    NEXT_TCAP.store(c.tcap.unwrap_or(u64::MAX), Ordering::SeqCst);
    let listener = <MtEvent<E> as Event<E>>::ListenerBuilder::new(&name).event_id_max(EventId::new(c.cap - 1)).create().expect("listener");
    let state = LAST_STATE.load(Ordering::SeqCst);
    let mut notifiers = Vec::new();
    for ff in &c.ff {
        notifiers.push(Arc::new(<MtEvent<E> as Event<E>>::NotifierBuilder::new(&name).fail_when_buffer_is_full(*ff).open().expect("notifier")));
    }
    Inst { listener: Arc::new(listener), notifiers, state }
}

fn bodies<E: EventState + 'static>(c: &Case, inst: &Inst<E>) -> Vec<Body>
where <MtEvent<E> as Event<E>>::Listener: Sync, <MtEvent<E> as Event<E>>::Notifier: Sync {
    let mut v: Vec<Body> = Vec::new();
    let l = inst.listener.clone();
    let modes = c.lmodes.clone();
    v.push(Box::new(move || {
        for m in modes {
            let cb = |e: EventActivation| ret(rep_code(&e));
            let r = match m { 't' => l.try_wait(cb), 'd' => l.timed_wait(cb, Duration::from_millis(1)), _ => l.blocking_wait(cb) };
            match r { Ok(n) => ret(2 * n), Err(_) => ret(6) }
        }
    }));
    for (k, p) in c.nprogs.iter().enumerate() {
        let nf = inst.notifiers[k].clone();
        let ids = p.clone();
        v.push(Box::new(move || {
            for i in ids {
                match nf.notify(EventId::new(i)) {
                    Ok(()) => ret(0),
                    Err(NotifierNotifyError::BufferIsFull) => ret(2),
                    Err(NotifierNotifyError::EventIdOutOfBounds) => ret(4),
                    Err(_) => ret(8),
                }
            }
        }));
    }
    v
}

/// final observation (ungated, after the run): notification state, trigger tokens, and what a
/// drain still finds, as id:count pairs
fn final_obs<E: EventState + 'static>(inst: &Inst<E>) -> (u8, u64, Vec<(usize, u64)>) {
    let st = unsafe { &*(inst.state as *const State<E, MtMgmt>) };
    let ns = st.notification_state.load(Ordering::SeqCst);
    let tk = unsafe { st.handle.assume_init_ref() }.tokens.load(Ordering::SeqCst);
    let mut left = Vec::new();
    st.event.drain(&mut |e: EventActivation| left.push((e.id.as_value(), e.count)));
    (ns, tk, left)
}

const SKIP: &[&str] = &["iceoryx2-log/log/src/lib.rs"];

fn emit<E: EventState + 'static>(c: &Case, ex: &ExecB, inst: &Inst<E>, out: &mut impl Write, xline: bool) {
    // the (constant) distance value every RelocatablePointer::as_ptr load returns in this instance
    let pdist = ex.log.iter().find_map(|r| match r { Rec::Acc { file, rd, .. } if file.ends_with("relocatable_pointer.rs") => Some(*rd), _ => None }).unwrap_or(0);
    let _ = writeln!(out, "{} {}", c.header(), pdist);
    print_exec_b(ex, out, SKIP, xline);
    let sched: Vec<String> = ex.choices.iter().map(|c| c.to_string()).collect();
    let _ = writeln!(out, "S {}", sched.join(","));
    let (ns, tk, left) = final_obs(inst);
    let mut toks = vec![format!("st{}", ns), format!("tr{}", tk)];
    for (i, n) in left { toks.push(format!("p{}:{}", i, n)); }
    for t in &ex.blocked_forever { toks.push(format!("B{}", t)); }
    let _ = writeln!(out, "F {}", toks.join(","));
}

fn run_case<E: EventState + 'static>(c: &Case, mode: &RunMode, out: &mut impl Write) -> usize
where <MtEvent<E> as Event<E>>::Listener: Sync, <MtEvent<E> as Event<E>>::Notifier: Sync {
    match mode {
        RunMode::Explore(bound, maxexecs) => {
            let cur: std::cell::RefCell<Option<Inst<E>>> = std::cell::RefCell::new(None);
            let mut mk = || { let inst = mk_inst::<E>(c); let b = bodies(c, &inst); *cur.borrow_mut() = Some(inst); b };
            let outcell = std::cell::RefCell::new(out);
            let mut visit = |ex: &ExecB| { let i = cur.borrow(); emit(c, ex, i.as_ref().unwrap(), &mut **outcell.borrow_mut(), false); };
            explore_b(*bound, *maxexecs, &mut mk, &mut visit)
        }
        RunMode::Search(bound, maxexecs) => {
            // the implementation alone (no model, no driver): the oracle is evaluated here
            let cur: std::cell::RefCell<Option<Inst<E>>> = std::cell::RefCell::new(None);
            let mut mk = || { let inst = mk_inst::<E>(c); let b = bodies(c, &inst); *cur.borrow_mut() = Some(inst); b };
            let outcell = std::cell::RefCell::new(out);
            let seen: std::cell::RefCell<std::collections::HashSet<String>> = std::cell::RefCell::new(Default::default());
            let mut visit = |ex: &ExecB| {
                let i = cur.borrow();
                let fin = final_obs(i.as_ref().unwrap());
                if let Some((class, msg)) = oracle(c, ex, &fin) {
                    if seen.borrow_mut().insert(class.clone()) {
                        let sched: Vec<String> = ex.choices.iter().map(|c| c.to_string()).collect();
                        let _ = writeln!(outcell.borrow_mut(), "SEARCH-FOUND {} | {} | S {} | {}", class, c.header(), sched.join(","), msg);
                    }
                }
            };
            explore_b(*bound, *maxexecs, &mut mk, &mut visit)
        }
        RunMode::Random(seed) => {
            let inst = mk_inst::<E>(c);
            let ex = run_random_b(*seed, bodies(c, &inst));
            emit(c, &ex, &inst, out, false);
            1
        }
        RunMode::Sched(sch, xline) => {
            let inst = mk_inst::<E>(c);
            let mut chooser = |step: usize, enabled: &[usize], last: Option<usize>| -> Choice {
                if step < sch.len() && sch[step] >= 1000 && enabled.contains(&(sch[step] - 1000)) { Choice::Kill(sch[step] - 1000) }
                else if step < sch.len() && enabled.contains(&sch[step]) { Choice::Run(sch[step]) }
                else { match last { Some(l) if enabled.contains(&l) => Choice::Run(l), _ => Choice::Run(enabled[0]) } }
            };
            let ex = run_threads_b(bodies(c, &inst), &mut chooser);
            emit(c, &ex, &inst, out, *xline);
            let killed: Vec<usize> = ex.choices.iter().filter(|c| **c > usize::MAX / 2).map(|c| usize::MAX - *c).collect();
            if !killed.is_empty() {
                let _ = writeln!(out, "K {}", killed.iter().map(|t| t.to_string()).collect::<Vec<_>>().join(","));
            }
            1
        }
    }
}

enum RunMode { Explore(usize, usize), Search(usize, usize), Random(u64), Sched(Vec<usize>, bool) }

fn run_any(c: &Case, mode: &RunMode, out: &mut impl Write) -> usize {
    if c.kind == "bitset" { run_case::<RelocatableBitSet>(c, mode, out) } else { run_case::<RelocatableCountingBitSet>(c, mode, out) }
}

/// the program family of the exhaustive tier: 1..3 notifiers x 1..2 notifies (ids spread over
/// two words) against a listener doing 1..3 waits (try / timed / blocking), both event states,
/// unbounded and full trigger buffers
fn programs() -> Vec<Case> {
    let mut v = Vec::new();
    let lms: &[&str] = &["b", "tb", "bb", "tt", "db", "tbb", "btb", "bbb"];
    for (kind, cap, a, b, c) in [("bitset", 10usize, 0usize, 1usize, 9usize), ("counting", 3, 0, 1, 2)] {
        let nps: Vec<Vec<Vec<usize>>> = vec![
            vec![vec![a]], vec![vec![a, a]], vec![vec![a, c]], vec![vec![a], vec![a]], vec![vec![a], vec![c]],
            // slow path: the listener is already blocked when the first notify (later word) arrives, a second notifier (earlier word) comes during the drain
            vec![vec![c], vec![a]], vec![vec![c], vec![c]],
            vec![vec![a, c], vec![c]], vec![vec![a], vec![a, a]], vec![vec![a, b], vec![c, a]], vec![vec![a], vec![b], vec![c]], vec![vec![a], vec![a], vec![c, a]],
        ];
        for lm in lms {
            for np in &nps {
                let waits = lm.len(); let nots: usize = np.iter().map(|p| p.len()).sum();
                if waits + nots > 6 { continue; }
                v.push(Case { kind, cap, tcap: None, lmodes: lm.chars().collect(), nprogs: np.clone(), ff: vec![false; np.len()] });
            }
        }
        // full trigger buffer: capacity 1, with and without fail_when_buffer_is_full
        for lm in ["tb", "bb", "tt"] {
            for np in [vec![vec![a], vec![c]], vec![vec![a, c], vec![c]], vec![vec![a], vec![a], vec![c]]] {
                for ffv in [false, true] {
                    let mut ff = vec![false; np.len()]; ff[0] = ffv; if np.len() > 2 { ff[2] = ffv; }
                    v.push(Case { kind, cap, tcap: Some(1), lmodes: lm.chars().collect(), nprogs: np.clone(), ff });
                }
            }
        }
    }
    v
}

/// The property's oracle on the implementation's own observations of one execution (no model):
/// returns (class, message).  class "known" = the known lost wake-up configuration
/// (notification_state = Notified, trigger empty, listener blocked), anything else is unkeyed.
fn oracle(c: &Case, ex: &ExecB, fin: &(u8, u64, Vec<(usize, u64)>)) -> Option<(String, String)> {
    use std::collections::HashMap;
    let mut notified: HashMap<usize, u64> = HashMap::new();
    let mut ok_ret: HashMap<usize, u64> = HashMap::new();
    let mut delivered: HashMap<usize, u64> = HashMap::new();
    let mut pos = vec![0usize; c.nprogs.len()];
    for r in &ex.log {
        if let Rec::Ret { tid, code } = r {
            if *code == u64::MAX { return Some(("panic".into(), format!("thread {} panicked", tid))); }
            if *tid == 0 {
                if code % 2 == 1 {
                    let x = code / 2; let (id, cnt) = ((x % 1024) as usize, x / 1024);
                    *delivered.entry(id).or_default() += cnt;
                    let inflight: u64 = c.nprogs.iter().enumerate().map(|(u, p)| if pos[u] < p.len() && p[pos[u]] == id { 1 } else { 0 }).sum();
                    if delivered[&id] > notified.get(&id).copied().unwrap_or(0) + inflight {
                        return Some(("phantom".into(), format!("id {} reported {} times, only {} notifies completed or in flight", id, delivered[&id], notified.get(&id).copied().unwrap_or(0) + inflight)));
                    }
                    if cnt == 0 || (c.kind == "bitset" && cnt != 1) { return Some(("bad-count".into(), format!("id {} reported with count {}", id, cnt))); }
                }
            } else {
                let u = tid - 1;
                if pos[u] < c.nprogs[u].len() {
                    let id = c.nprogs[u][pos[u]]; pos[u] += 1;
                    if id < c.cap { *notified.entry(id).or_default() += 1; }
                    if *code == 0 { *ok_ret.entry(id).or_default() += 1; }
                }
            }
        }
    }
    let (ns, tk, left) = fin;
    for (i, _) in left { if !notified.contains_key(i) { return Some(("phantom-pending".into(), format!("id {} pending but never notified", i))); } }
    let done = c.nprogs.iter().enumerate().all(|(u, p)| pos[u] == p.len());
    if !done { return None; }
    for (i, n) in &notified {
        let p = left.iter().find(|(j, _)| j == i).map(|x| x.1).unwrap_or(0);
        let d = delivered.get(i).copied().unwrap_or(0);
        if c.kind == "counting" { if d + p != *n { return Some(("dropped".into(), format!("counting: id {} notified {}, delivered {} + pending {}", i, n, d, p))); } }
        else if d + p == 0 { return Some(("dropped".into(), format!("bit set: id {} notified {} times, never delivered and not pending", i, n))); }
    }
    if !ex.blocked_forever.is_empty() {
        if let Some((i, _)) = left.iter().find(|(i, _)| ok_ret.get(i).copied().unwrap_or(0) > 0) {
            let known = *ns == 2 && *tk == 0 && ex.blocked_forever == vec![0];
            return Some((if known { "known".into() } else { "lost-wakeup-other".into() },
                format!("listener blocked forever (notification_state={}, trigger tokens={}) while id {}, whose notify returned Ok, is pending and undelivered", ns, tk, i)));
        }
    }
    None
}

/// the shapes the search phase explores on the implementation alone: above all the SLOW path
/// (the listener is already inside a blocking wait when the first notify arrives, and further
/// notifiers arrive while it drains -- ids in the same or an earlier word), plus polling shapes
fn search_programs() -> Vec<Case> {
    let mut v = Vec::new();
    for (kind, cap, a, b, c) in [("bitset", 10usize, 0usize, 1usize, 9usize), ("counting", 3, 0, 1, 2)] {
        let nps: Vec<Vec<Vec<usize>>> = vec![
            vec![vec![c], vec![a]], vec![vec![a], vec![a]], vec![vec![c], vec![c]], vec![vec![c], vec![a, a]],
            vec![vec![a, c], vec![a]], vec![vec![c], vec![b], vec![a]], vec![vec![a, a]], vec![vec![c, a]],
        ];
        for lm in ["bb", "bbb", "tb", "db", "tbb"] {
            for np in &nps {
                v.push(Case { kind, cap, tcap: None, lmodes: lm.chars().collect(), nprogs: np.clone(), ff: vec![false; np.len()] });
            }
        }
    }
    v
}

fn parse_sched(s: &str) -> Vec<usize> {
    s.split(',').filter(|s| !s.is_empty()).map(|x| if let Some(t) = x.strip_prefix('k') { 1000 + t.parse::<usize>().unwrap() } else { x.parse().unwrap() }).collect()
}

/// the residual window (known finding event:crash-between-cas-and-post-after-stale-promotion), replayed on the
/// real code: listener [try_wait; blocking_wait], notifier 1 [notify 0], notifier 2 [notify 0; notify 0]; notifier 2's
/// late Pending -> Notified CAS promotes the Pending set by notifier 1, notifier 2's second notify sees Notified and
/// returns Ok without a trigger, notifier 1 dies at its trigger post (parked for ever): the listener sleeps for ever
fn crash_mode(out: &mut impl Write) {
    for kind in ["counting", "bitset"] {
        let c = Case { kind, cap: 1, tcap: None, lmodes: vec!['t', 'b'], nprogs: vec![vec![0], vec![0, 0]], ff: vec![false, false] };
        let sch = if kind == "counting" { parse_sched("0,0,0,1,1,2,2,2,2,0,0,0,0,0,1,2,2,2,2,k1") } else { parse_sched("0,0,0,1,1,1,2,2,2,2,0,0,0,0,0,1,2,2,2,2,2,k1") };
        let text = sch.iter().map(|x| if *x >= 1000 { format!("k{}", x - 1000) } else { x.to_string() }).collect::<Vec<_>>().join(",");
        let r = if kind == "counting" { crash_run::<RelocatableCountingBitSet>(&c, &sch) } else { crash_run::<RelocatableBitSet>(&c, &sch) };
        let _ = writeln!(out, "CRASH-REPLAY kind={} schedule={} {}", kind, text, r);
    }
}

fn crash_run<E: EventState + 'static>(c: &Case, sch: &[usize]) -> String
where <MtEvent<E> as Event<E>>::Listener: Sync, <MtEvent<E> as Event<E>>::Notifier: Sync {
    let inst = mk_inst::<E>(c);
    let mut chooser = |step: usize, enabled: &[usize], last: Option<usize>| -> Choice {
        if step < sch.len() && sch[step] >= 1000 && enabled.contains(&(sch[step] - 1000)) { Choice::Kill(sch[step] - 1000) }
        else if step < sch.len() && enabled.contains(&sch[step]) { Choice::Run(sch[step]) }
        else { match last { Some(l) if enabled.contains(&l) => Choice::Run(l), _ => Choice::Run(enabled[0]) } }
    };
    let ex = run_threads_b(bodies(c, &inst), &mut chooser);
    let killed: Vec<usize> = ex.choices.iter().filter(|c| **c > usize::MAX / 2).map(|c| usize::MAX - *c).collect();
    let (ns, tk, left) = final_obs(&inst);
    // notifies that returned Ok, per thread
    let mut ok = vec![0usize; c.nprogs.len() + 1];
    for r in &ex.log { if let Rec::Ret { tid, code } = r { if *tid > 0 && *code == 0 { ok[*tid] += 1; } } }
    let survivors_done = (1..=c.nprogs.len()).all(|t| killed.contains(&t) || ok[t] == c.nprogs[t - 1].len());
    let lost = ex.blocked_forever == vec![0] && survivors_done && !left.is_empty() && ok.iter().sum::<usize>() > 0;
    format!("killed={:?} notification_state={} trigger_tokens={} pending={:?} listener_blocked_forever={} surviving_notifiers_returned_ok={} lost={}",
        killed, ns, tk, left, ex.blocked_forever == vec![0], survivors_done, lost)
}

fn parse_case(a: &[String]) -> Case {
    let kind = if a[0] == "bitset" { "bitset" } else { "counting" };
    let nprogs: Vec<Vec<usize>> = a[4].split('|').map(|t| t.split(',').filter(|s| !s.is_empty()).map(|s| s.parse().unwrap()).collect()).collect();
    let mut ff: Vec<bool> = a.get(5).map(|s| s.chars().map(|c| c == '1').collect()).unwrap_or_default();
    ff.resize(nprogs.len(), false);
    Case { kind, cap: a[1].parse().unwrap(), tcap: if a[2] == "inf" { None } else { Some(a[2].parse().unwrap()) }, lmodes: a[3].chars().collect(), nprogs, ff }
}

/// the lost wake-up witnesses found by exhaustive exploration of the Coq step model
/// (ocaml/c05/explore): shortest one (listener polls once, then blocks; ONE notifier, two
/// notifies) and the one of DESIGN.md (blocking waits only, one notifier, three notifies)
fn witnesses() -> Vec<(Case, Vec<usize>)> {
    let p = |s: &str| -> Vec<usize> { s.split(',').map(|x| x.parse().unwrap()).collect() };
    vec![
        (Case { kind: "counting", cap: 1, tcap: None, lmodes: vec!['t', 'b'], nprogs: vec![vec![0, 0]], ff: vec![false] }, p("0,0,0,1,1,1,1,0,0,0,0,1,1,1,1")),
        (Case { kind: "bitset", cap: 1, tcap: None, lmodes: vec!['t', 'b'], nprogs: vec![vec![0, 0]], ff: vec![false] }, p("0,0,0,1,1,1,1,1,0,0,0,0,1,1,1,1,1")),
        (Case { kind: "bitset", cap: 1, tcap: None, lmodes: vec!['b', 'b'], nprogs: vec![vec![0, 0, 0]], ff: vec![false] }, p("1,1,1,1,1,1,0,1,1,1,1,0,0,0,0,1,1,1,1,1")),
        (Case { kind: "counting", cap: 1, tcap: None, lmodes: vec!['b', 'b'], nprogs: vec![vec![0, 0, 0]], ff: vec![false] }, p("1,1,1,1,1,0,1,1,1,1,0,0,0,0,1,1,1,1")),
        (Case { kind: "bitset", cap: 10, tcap: None, lmodes: vec!['b', 'b'], nprogs: vec![vec![0], vec![9, 9]], ff: vec![false, false] }, p("1,1,2,2,2,2,2,2,0,2,2,2,2,0,0,0,0,0,0,1,2,1,1,1,1")),
    ]
}

mod real;

fn main() {
    if std::env::var("VERIF_PANIC_VERBOSE").is_err() { std::panic::set_hook(Box::new(|_| {})); }
    iceoryx2_log::set_log_level(iceoryx2_log::LogLevel::Fatal);
    let a: Vec<String> = std::env::args().collect();
    let stdout = std::io::stdout();
    let mut out = std::io::BufWriter::with_capacity(1 << 20, stdout.lock());
    install();
    match a[1].as_str() {
        "exh" => {
            let bound: usize = a[2].parse().unwrap(); let shard: usize = a[3].parse().unwrap(); let nsh: usize = a[4].parse().unwrap();
            let maxexecs: usize = a.get(6).map(|s| s.parse().unwrap()).unwrap_or(100000);
            for (i, c) in programs().into_iter().enumerate() {
                if i % nsh != shard { continue; }
                // every schedule with at most one preemption (complete), then the deeper bound (first maxexecs, depth-first)
                let ops = c.lmodes.len() + c.nprogs.iter().map(|p| p.len()).sum::<usize>();
                if bound > 1 { run_any(&c, &RunMode::Explore(1, if ops <= 4 || bound > 2 { 100000 } else { maxexecs }), &mut out); }
                run_any(&c, &RunMode::Explore(bound, maxexecs), &mut out);
            }
        }
        "search" => {
            let bound: usize = a[2].parse().unwrap(); let shard: usize = a[3].parse().unwrap(); let nsh: usize = a[4].parse().unwrap();
            let maxexecs: usize = a.get(5).map(|s| s.parse().unwrap()).unwrap_or(100000);
            let mut total = 0usize;
            for (i, c) in search_programs().into_iter().enumerate() {
                if i % nsh != shard { continue; }
                total += run_any(&c, &RunMode::Search(bound, maxexecs), &mut out);
            }
            let _ = writeln!(out, "SEARCHED {}", total);
        }
        "rnd" => {
            let count: u64 = a[2].parse().unwrap(); let shard: u64 = a[3].parse().unwrap(); let nsh: u64 = a[4].parse().unwrap(); let seed: u64 = a[5].parse().unwrap();
            for n in 0..count {
                if n % nsh != shard { continue; }
                let mut rng = Rng(seed ^ n.wrapping_mul(0x2545F4914F6CDD1D));
                let bitset = rng.below(2) == 0;
                // ids {0,1,65}: word 0 and word 8 of the bit set (u8 words); counting: counters 0,1,5
                let (kind, cap, ids) = if bitset { ("bitset", 66usize, [0usize, 1, 65]) } else { ("counting", 6usize, [0usize, 1, 5]) };
                let nn = 1 + rng.below(3) as usize;
                let mut nprogs = Vec::new(); let mut ff = Vec::new();
                for _ in 0..nn { let len = 1 + rng.below(4) as usize; nprogs.push((0..len).map(|_| ids[rng.below(3) as usize]).collect()); ff.push(rng.below(3) == 0); }
                let nw = 1 + rng.below(4) as usize;
                let lmodes: Vec<char> = (0..nw).map(|_| ['t', 'd', 'b', 'b'][rng.below(4) as usize]).collect();
                let tcap = match rng.below(4) { 0 => Some(1), 1 => Some(2), _ => None };
                let c = Case { kind, cap, tcap, lmodes, nprogs, ff };
                run_any(&c, &RunMode::Random(rng.next()), &mut out);
            }
        }
        "one" => {
            let c = parse_case(&a[2..]);
            let sch: Vec<usize> = a.get(8).map(|s| parse_sched(s)).unwrap_or_default();
            run_any(&c, &RunMode::Sched(sch, std::env::var("VERIF_NO_XLINE").is_err()), &mut out);
        }
        "wit" => {
            for (c, s) in witnesses() { run_any(&c, &RunMode::Sched(s, false), &mut out); }
        }
        "crash" => crash_mode(&mut out),
        "trig" => real::trig_mode(&mut out),
        "sem" => real::sem_mode(a.get(2).map(|s| s.parse().unwrap()).unwrap_or(300), &mut out),
        _ => panic!("mode"),
    }
    let _ = out.flush();
}
