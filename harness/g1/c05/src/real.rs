//! The three REAL triggers of iceoryx2-cal (semaphore, unix_datagram_socket, socket_pair),
//! driven sequentially through the cal trigger traits (HandlerInterface / WaiterInterface) and
//! compared with the abstract trigger of the step model: a token counter where
//!   R1 a fresh trigger has no token (a wait would block / times out),
//!   R2 after a successful post a wait returns promptly,
//!   R3 after k posts at most k waits succeed (no phantom token),
//!   R4 empty_buffer never blocks and leaves at most what was there (how much it leaves is the
//!      trigger policy parameter of the theorems -- reported as NOTE),
//!   R5 a full buffer is reported as BufferIsFull, tokens stay available,
//!   R6 try_wait on an empty trigger returns at once.
//! Plus (`sem` mode) the lost wake-up on the real semaphore trigger inside the real
//! event::common, with a long timed_wait as the observable.
use core::mem::MaybeUninit;
use core::time::Duration;
use iceoryx2_bb_container::semantic_string::SemanticString;
use iceoryx2_bb_lock_free::mpmc::bit_set::RelocatableBitSet;
use iceoryx2_bb_system_types::file_name::FileName;
use iceoryx2_bb_system_types::path::Path;
use iceoryx2_cal::dynamic_storage;
use iceoryx2_cal::event::trigger::semaphore::{SemaphoreHandle, SemaphoreMgmt, SemaphoreWaiter};
use iceoryx2_cal::event::trigger::socket_pair::{SocketPairHandle, SocketPairMgmt, SocketPairWaiter};
use iceoryx2_cal::event::trigger::unix_datagram_socket::{UnixDatagramHandle, UnixDatagramWaiter};
use iceoryx2_cal::event::trigger::{Configuration as TrigCfg, HandlerInterface, State, WaiterInterface};
use iceoryx2_cal::event::NotifierNotifyError;
use std::io::Write;
use std::time::Instant;

type E = RelocatableBitSet;
type PS<M> = dynamic_storage::process_local::Storage<State<E, M>>;

const PROBE_MS: u64 = 80;

struct Ops<'a> {
    post: Box<dyn Fn() -> Result<(), NotifierNotifyError> + 'a>,
    try_wait: Box<dyn Fn() -> bool + 'a>,
    timed: Box<dyn Fn(Duration) -> bool + 'a>,
    empty: Box<dyn Fn() -> bool + 'a>,
}

/// true = a token was there (the timed wait returned clearly before its timeout)
fn probe(o: &Ops) -> bool {
    let t = Instant::now();
    let ok = (o.timed)(Duration::from_millis(PROBE_MS));
    ok && t.elapsed() < Duration::from_millis(PROBE_MS / 2)
}
fn count_probes(o: &Ops, max: usize) -> usize { let mut n = 0; while n < max && probe(o) { n += 1; } n }

fn scenarios(name: &str, o: &Ops, overflow_limit: usize, out: &mut impl Write) {
    let outc = std::cell::RefCell::new(out);
    let line = |sc: &str, obs: String, ok: bool| { let _ = writeln!(outc.borrow_mut(), "T {} {} {} {}", name, sc, obs.replace(' ', "_"), if ok { "ok" } else { "FAIL" }); };
    // R1 / R6
    let t = Instant::now(); let r = (o.try_wait)(); let fast = t.elapsed() < Duration::from_millis(PROBE_MS / 2);
    line("R6-try_wait-on-empty-returns", format!("returned={} fast={}", r, fast), r && fast);
    let p = probe(o);
    line("R1-fresh-has-no-token", format!("token={}", p), !p);
    // R2
    let r = (o.post)(); let p1 = probe(o); let p2 = probe(o);
    line("R2-post-then-wait-returns", format!("post={:?} first_wait_token={} second_wait_token={}", r, p1, p2), r.is_ok() && p1 && !p2);
    // R3: k posts, one try_wait, then count
    for k in [1usize, 3, 5] {
        for _ in 0..k { let _ = (o.post)(); }
        let _ = (o.try_wait)();
        let left = count_probes(o, 40);
        line(&format!("R3-{}posts-try_wait-then-probes", k), format!("successful_probes={}", left), left <= k - 1);
        if k == 5 { let _ = writeln!(outc.borrow_mut(), "NOTE real trigger {}: after {} posts and one try_wait, {} further wait(s) succeed (wait policy: {})", name, k, left,
            if left == 0 { "takes all tokens" } else if left == k - 1 { "takes one token" } else { "takes some tokens" }); }
    }
    // R4: k posts, empty_buffer, then count
    for k in [1usize, 3, 5] {
        for _ in 0..k { let _ = (o.post)(); }
        let t = Instant::now(); let r = (o.empty)(); let fast = t.elapsed() < Duration::from_millis(PROBE_MS / 2);
        let left = count_probes(o, 40);
        line(&format!("R4-{}posts-empty_buffer-then-probes", k), format!("returned={} fast={} successful_probes={}", r, fast, left), r && fast && left <= k);
        if left > 0 && k == 5 {
            let _ = writeln!(outc.borrow_mut(), "NOTE real trigger {}: empty_buffer after {} posts leaves tokens ({} further wait(s) succeed): it does not empty the buffer (spurious wake-ups, not lost ones; covered by the trigger-policy parameter of the theorems)", name, k, left);
        }
        // make sure we restart from empty
        for _ in 0..8 { let _ = (o.empty)(); }
        let _ = count_probes(o, 40);
    }
    // R5: overflow
    let mut posted = 0usize; let mut full = false;
    while posted < overflow_limit { match (o.post)() { Ok(()) => posted += 1, Err(NotifierNotifyError::BufferIsFull) => { full = true; break; } Err(_) => break } }
    if full {
        let again = (o.post)();
        let p = probe(o);
        line("R5-overflow", format!("capacity={} post_when_full={:?} wait_after_full_token={}", posted, again, p), again == Err(NotifierNotifyError::BufferIsFull) && p);
    } else {
        let p = probe(o);
        line("R5-overflow", format!("no_BufferIsFull_within={} wait_token={}", posted, p), posted == overflow_limit && p);
    }
    for _ in 0..(posted / 1 + 8).min(200000) { if !probe(o) { break; } }
}

fn cfg(tag: &str) -> (FileName, TrigCfg) {
    let name = FileName::new(format!("c05trig_{}_{}", tag, std::process::id()).as_bytes()).unwrap();
    let c = TrigCfg { suffix: FileName::new(b".trg").unwrap(), prefix: FileName::new(b"verif_").unwrap(), path_hint: Path::new(b"/tmp/").unwrap() };
    (name, c)
}

pub fn trig_mode(out: &mut impl Write) {
    // semaphore
    {
        type W = SemaphoreWaiter<E, PS<SemaphoreMgmt>>; type H = SemaphoreHandle<E, PS<SemaphoreMgmt>>;
        let (name, c) = cfg("sem");
        let mut mgmt: Box<MaybeUninit<SemaphoreMgmt>> = Box::new(MaybeUninit::uninit());
        match <W as WaiterInterface<E, SemaphoreMgmt, PS<SemaphoreMgmt>>>::create(&name, &c, &mut mgmt) {
            Ok(w) => {
                let h = <H as HandlerInterface<E, SemaphoreMgmt, PS<SemaphoreMgmt>>>::open(&name, &c, unsafe { mgmt.assume_init_ref() }).expect("sem handle");
                let o = Ops { post: Box::new(|| HandlerInterface::<E, SemaphoreMgmt, PS<SemaphoreMgmt>>::notify(&h)),
                    try_wait: Box::new(|| WaiterInterface::<E, SemaphoreMgmt, PS<SemaphoreMgmt>>::try_wait(&w).is_ok()),
                    timed: Box::new(|d| WaiterInterface::<E, SemaphoreMgmt, PS<SemaphoreMgmt>>::timed_wait(&w, d).is_ok()),
                    empty: Box::new(|| WaiterInterface::<E, SemaphoreMgmt, PS<SemaphoreMgmt>>::empty_buffer(&w).is_ok()) };
                scenarios("semaphore", &o, 20000, out);
                drop(o); drop(h); core::mem::forget(w);
            }
            Err(e) => { let _ = writeln!(out, "NOTE real trigger semaphore not constructible standalone: {:?}", e); }
        }
    }
    // unix datagram socket
    {
        type W = UnixDatagramWaiter<E, PS<()>>; type H = UnixDatagramHandle<E, PS<()>>;
        let (name, c) = cfg("uds");
        let _ = unsafe { <W as WaiterInterface<E, (), PS<()>>>::remove(&name, &c) };
        let mut mgmt: Box<MaybeUninit<()>> = Box::new(MaybeUninit::uninit());
        match <W as WaiterInterface<E, (), PS<()>>>::create(&name, &c, &mut mgmt) {
            Ok(w) => {
                let h = <H as HandlerInterface<E, (), PS<()>>>::open(&name, &c, &()).expect("uds handle");
                let o = Ops { post: Box::new(|| HandlerInterface::<E, (), PS<()>>::notify(&h)),
                    try_wait: Box::new(|| WaiterInterface::<E, (), PS<()>>::try_wait(&w).is_ok()),
                    timed: Box::new(|d| { let t = Instant::now(); let r = WaiterInterface::<E, (), PS<()>>::timed_wait(&w, d).is_ok(); let _ = t; r }),
                    empty: Box::new(|| WaiterInterface::<E, (), PS<()>>::empty_buffer(&w).is_ok()) };
                scenarios("unix_datagram_socket", &o, 20000, out);
                drop(o); drop(h); drop(w);
                let _ = unsafe { <W as WaiterInterface<E, (), PS<()>>>::remove(&name, &c) };
            }
            Err(e) => { let _ = writeln!(out, "NOTE real trigger unix_datagram_socket not constructible standalone: {:?}", e); }
        }
    }
    // socket pair
    {
        type W = SocketPairWaiter<E, PS<SocketPairMgmt>>; type H = SocketPairHandle<E, PS<SocketPairMgmt>>;
        let (name, c) = cfg("sp");
        let mut mgmt: Box<MaybeUninit<SocketPairMgmt>> = Box::new(MaybeUninit::uninit());
        match <W as WaiterInterface<E, SocketPairMgmt, PS<SocketPairMgmt>>>::create(&name, &c, &mut mgmt) {
            Ok(w) => {
                let h = <H as HandlerInterface<E, SocketPairMgmt, PS<SocketPairMgmt>>>::open(&name, &c, unsafe { mgmt.assume_init_ref() }).expect("sp handle");
                let o = Ops { post: Box::new(|| HandlerInterface::<E, SocketPairMgmt, PS<SocketPairMgmt>>::notify(&h)),
                    try_wait: Box::new(|| WaiterInterface::<E, SocketPairMgmt, PS<SocketPairMgmt>>::try_wait(&w).is_ok()),
                    timed: Box::new(|d| WaiterInterface::<E, SocketPairMgmt, PS<SocketPairMgmt>>::timed_wait(&w, d).is_ok()),
                    empty: Box::new(|| WaiterInterface::<E, SocketPairMgmt, PS<SocketPairMgmt>>::empty_buffer(&w).is_ok()) };
                scenarios("socket_pair", &o, 20000, out);
                drop(o); drop(h); core::mem::forget(w);
            }
            Err(e) => { let _ = writeln!(out, "NOTE real trigger socket_pair not constructible standalone: {:?}", e); }
        }
    }
}

// ------------------------------------------------------------------------------------------
// the lost wake-up on the REAL semaphore trigger (libc sem_post / sem_timedwait) inside the real
// event::common: the real SemaphoreHandle / SemaphoreWaiter are wrapped (pure delegation) so that
// every trigger operation is preceded by a scheduling point and a real blocking wait does not
// stall the baton scheduler (sched::real_block).
// ------------------------------------------------------------------------------------------
use core::ptr::NonNull;
use iceoryx2_bb_elementary_traits::testing::abandonable::Abandonable;
use iceoryx2_bb_lock_free::mpmc::counting_bit_set::RelocatableCountingBitSet;
use iceoryx2_cal::event::common::EventImpl;
use iceoryx2_cal::event::event_state::EventActivation;
use iceoryx2_cal::event::{Event, EventId, Listener, ListenerBuilder, ListenerCreateError, ListenerWaitError, NamedConceptBuilder, Notifier, NotifierBuilder, NotifierOpenError};
use iceoryx2_cal::named_concept::{NamedConceptPathHintRemoveError, NamedConceptRemoveError};
use iceoryx2_pal_concurrency_sync::verif_gate::Kind;
use std::sync::{Arc, Mutex};

type CE = RelocatableCountingBitSet;
type CS = dynamic_storage::process_local::Storage<State<CE, SemaphoreMgmt>>;
static PAUSE: core::sync::atomic::AtomicU64 = core::sync::atomic::AtomicU64::new(0);
#[track_caller]
fn pause() { sched::gated_op(&PAUSE as *const _ as usize, Kind::Load, core::sync::atomic::Ordering::SeqCst, || ((), 0, 0, true)) }

#[derive(Debug)] pub struct WrapW(SemaphoreWaiter<CE, CS>);
#[derive(Debug)] pub struct WrapH(SemaphoreHandle<CE, CS>);
impl Abandonable for WrapW { unsafe fn abandon_in_place(_this: NonNull<Self>) {} }
impl Abandonable for WrapH { unsafe fn abandon_in_place(_this: NonNull<Self>) {} }
impl WaiterInterface<CE, SemaphoreMgmt, CS> for WrapW {
    const IS_FILE_DESCRIPTOR_BASED: bool = false;
    unsafe fn remove(name: &FileName, config: &TrigCfg) -> Result<bool, NamedConceptRemoveError> { unsafe { <SemaphoreWaiter<CE, CS> as WaiterInterface<CE, SemaphoreMgmt, CS>>::remove(name, config) } }
    fn remove_path_hint(value: &Path) -> Result<(), NamedConceptPathHintRemoveError> { <SemaphoreWaiter<CE, CS> as WaiterInterface<CE, SemaphoreMgmt, CS>>::remove_path_hint(value) }
    fn create(name: &FileName, config: &TrigCfg, mgmt: &mut MaybeUninit<SemaphoreMgmt>) -> Result<Self, ListenerCreateError> {
        Ok(WrapW(<SemaphoreWaiter<CE, CS> as WaiterInterface<CE, SemaphoreMgmt, CS>>::create(name, config, mgmt)?))
    }
    fn try_wait(&self) -> Result<(), ListenerWaitError> { pause(); WaiterInterface::<CE, SemaphoreMgmt, CS>::try_wait(&self.0) }
    fn timed_wait(&self, timeout: Duration) -> Result<(), ListenerWaitError> { pause(); sched::real_block(|| WaiterInterface::<CE, SemaphoreMgmt, CS>::timed_wait(&self.0, timeout)) }
    fn blocking_wait(&self) -> Result<(), ListenerWaitError> { pause(); sched::real_block(|| WaiterInterface::<CE, SemaphoreMgmt, CS>::blocking_wait(&self.0)) }
    fn empty_buffer(&self) -> Result<(), ListenerWaitError> { pause(); WaiterInterface::<CE, SemaphoreMgmt, CS>::empty_buffer(&self.0) }
}
impl HandlerInterface<CE, SemaphoreMgmt, CS> for WrapH {
    fn open(name: &FileName, config: &TrigCfg, mgmt: &SemaphoreMgmt) -> Result<Self, NotifierOpenError> {
        Ok(WrapH(<SemaphoreHandle<CE, CS> as HandlerInterface<CE, SemaphoreMgmt, CS>>::open(name, config, mgmt)?))
    }
    fn notify(&self) -> Result<(), NotifierNotifyError> { pause(); HandlerInterface::<CE, SemaphoreMgmt, CS>::notify(&self.0) }
}
type SemEvent = EventImpl<CE, SemaphoreMgmt, CS, WrapH, WrapW>;

/// one run: listener [try_wait; timed_wait(T)], ONE notifier [notify 0; notify 0] under `schedule`
/// (then non-preempting).  Returns (events of the timed wait, ms the timed wait took, ms between the
/// start of the timed wait and the return of the second notify, both notifies Ok).
fn sem_run(tag: &str, t_ms: u64, schedule: Vec<usize>) -> (u64, u128, i128, bool, bool) {
    let name = FileName::new(format!("c05sem_{}_{}", tag, std::process::id()).as_bytes()).unwrap();
    let listener = Arc::new(<SemEvent as Event<CE>>::ListenerBuilder::new(&name).event_id_max(EventId::new(0)).create().expect("listener"));
    let notifier = Arc::new(<SemEvent as Event<CE>>::NotifierBuilder::new(&name).open().expect("notifier"));
    let start = Instant::now();
    let res: Arc<Mutex<(u64, u128, u128, u128, bool)>> = Arc::new(Mutex::new((0, 0, 0, 0, true)));
    let (l, r1) = (listener.clone(), res.clone());
    let (nf, r2) = (notifier.clone(), res.clone());
    let bodies: Vec<Box<dyn FnOnce() + Send>> = vec![
        Box::new(move || {
            let _ = l.try_wait(|_e: EventActivation| {});
            let t0 = start.elapsed().as_millis();
            let n = l.timed_wait(|_e: EventActivation| {}, Duration::from_millis(t_ms)).unwrap_or(99);
            let t1 = start.elapsed().as_millis();
            let mut g = r1.lock().unwrap(); g.0 = n; g.1 = t0; g.2 = t1;
        }),
        Box::new(move || {
            let a = nf.notify(EventId::new(0)).is_ok();
            let b = nf.notify(EventId::new(0)).is_ok();
            let mut g = r2.lock().unwrap(); g.3 = start.elapsed().as_millis(); g.4 = a && b;
        }),
    ];
    let mut chooser = |step: usize, enabled: &[usize], last: Option<usize>| -> sched::Choice {
        if step < schedule.len() && enabled.contains(&schedule[step]) { sched::Choice::Run(schedule[step]) }
        else { match last { Some(l) if enabled.contains(&l) => sched::Choice::Run(l), _ => sched::Choice::Run(enabled[0]) } }
    };
    let ex = sched::run_threads_rb(bodies, Duration::from_millis(t_ms * 3 + 5000), &mut chooser);
    if std::env::var("VERIF_SEM_TRACE").is_ok() { let mut e = std::io::stderr(); sched::print_exec(&ex, &mut e); }
    let g = res.lock().unwrap();
    (g.0, g.2 - g.1, g.3 as i128 - g.1 as i128, g.4, ex.deadlock)
}

pub fn sem_mode(t_ms: u64, out: &mut impl Write) {
    // control: the listener is inside its timed wait, then the notifier runs undisturbed: immediate wake-up
    let (n, took, nret, ok, dl) = sem_run("ctl", t_ms, vec![0; 14]);
    let _ = writeln!(out, "SEM control    timed_wait({}ms) returned {} event(s) after {} ms; second notify returned Ok={} {} ms after the wait began; deadlock={}", t_ms, n, took, ok, nret, dl);
    let ctl_ok = ok && !dl && n >= 1 && (took as u64) < t_ms * 8 / 10;
    // the lost wake-up schedule (model witness with the trigger operations as steps):
    // (every semaphore operation = scheduling point + the two gated accesses of bb-posix's handle (is_initialized load, cell) + the libc call)
    // L: CAS N->I fails, try_wait (3), store Idle | N: as_ptr, fetch_add, CAS I->P ok, sem_post (3) | L: empty_buffer (5: eats the token), second store Idle (the repair c0b284e), as_ptr, swap (delivers),
    // returns; timed_wait: CAS N->I fails (Pending), enters sem_timedwait (3) | N: CAS P->N ok, returns; notify#2: as_ptr, fetch_add, CAS I->P fails (Notified), returns Ok without post
    let (n, took, nret, ok, dl) = sem_run("adv", t_ms, [vec![0; 5], vec![1; 6], vec![0; 12], vec![1; 4]].concat());
    let _ = writeln!(out, "SEM adversarial timed_wait({}ms) returned {} event(s) after {} ms; second notify returned Ok={} {} ms after the wait began; deadlock={}", t_ms, n, took, ok, nret, dl);
    let lost = ok && !dl && (took as u64) >= t_ms * 8 / 10 && nret < (t_ms as i128) / 2;
    let _ = writeln!(out, "SEMVERDICT control_immediate_wakeup={} lost_wakeup_on_real_semaphore={}", ctl_ok, lost);
}
