//! placeholder (filled below)
use std::io::Write;
pub fn trig_mode(_out: &mut impl Write) {}
pub fn sem_mode(_ms: u64, _out: &mut impl Write) {}
