//! G1 correspondence harness for the connection clause of C03: a sender thread and a receiver
//! thread run programs on ONE real zero_copy_connection (process_local storage) under the baton
//! scheduler; every access to the cursors of the submission queue
//! (SafelyOverflowingIndexQueue) and of the completion queue (IndexQueue) is a scheduling point,
//! every access to their slots, to the used-chunk list, to the borrow counter and to sample_size
//! is recorded in program order (FILTER_LOG), nothing else is visible.
//!
//! usage: c03conn exh <bound> <shard> <nshards> <seed> <maxexecs>
//!        c03conn rnd <count> <shard> <nshards> <seed>
//!        c03conn one <B> <M> <ovf 0|1> <K> <prologue|-> <program> <schedule>
//!        c03conn raw <B> <M> <ovf> <K> <prologue|-> <program>      (every gated access, one thread after the other)
//! program: "<sender ops>|<receiver ops>", ops separated by ','.
//!   sender:   s  = send macro-op of the ports: reclaim until Ok(None), then try_send of the head of
//!                  the sender's free list (skipped when the free list is empty)
//!             c  = one reclaim
//!   receiver: r  = receive;  l<i> = release the i-th held offset (oldest = 0; skipped when not held)
//! prologue: a sequential warm-up "s,r,s" run ungated on the main thread before the two threads
//!   start: S-ops (s c) go to the sender, R-ops (r l<i>) to the receiver, in the given order.
//! offsets are sample indices 0..K-1 (sample size 8); the sender's free list starts as 0..K-1 and
//! gets reclaimed / evicted offsets appended.
//! return codes (R lines): reclaim: 0 = None, v+1 = Some(v), 1002 = Err; try_send: 0 = Ok(None),
//!   v+1 = Ok(Some(evicted v)), 1000 = ReceiveBufferFull, 1001 = ConnectionCorrupted, 1009 = other;
//!   receive: 0 = None, v+1 = Some(v), 1003 = ReceiveWouldExceedMaxBorrowValue;
//!   release: 0 = Ok, 1004 = RetrieveBufferFull.
//! header: C <B> <M> <ovf> <K> <cq> <prologue> <program> <prologue return codes, `t:code` list or ->
//!   cq = capacity of the completion queue as observed through the public API on a twin
//!   connection built with the same parameters (number of releases accepted without any reclaim).
extern crate iceoryx2_bb_loggers;
use iceoryx2_bb_system_types::file_name::FileName;
use iceoryx2_cal::named_concept::*;
use iceoryx2_cal::shm_allocator::{PointerOffset, SegmentId};
use iceoryx2_cal::zero_copy_connection::*;
use iceoryx2_pal_concurrency_sync::verif_gate::{Access, Kind};
use sched::*;
use std::io::Write;
use std::sync::atomic::{AtomicUsize, Ordering as O};
use std::sync::{Arc, Mutex};

type Conn = iceoryx2_cal::zero_copy_connection::process_local::Connection;
type Snd = <Conn as ZeroCopyConnection>::Sender;
type Rcv = <Conn as ZeroCopyConnection>::Receiver;

const SAMPLE_SIZE: usize = 8;
const CH: ChannelId = ChannelId::new(0);

#[derive(Clone, Copy, Debug, PartialEq)]
enum Op { Send, Reclaim, Recv, Rel(usize) }

fn op_str(o: &Op) -> String {
    match o { Op::Send => "s".into(), Op::Reclaim => "c".into(), Op::Recv => "r".into(), Op::Rel(i) => format!("l{}", i) }
}
fn parse_op(s: &str) -> Op {
    match s { "s" => Op::Send, "c" => Op::Reclaim, "r" => Op::Recv, "l" => Op::Rel(0),
        _ if s.starts_with('l') => Op::Rel(s[1..].parse().unwrap()), _ => panic!("bad op {}", s) }
}
fn ops_str(p: &[Op]) -> String { if p.is_empty() { "-".into() } else { p.iter().map(op_str).collect::<Vec<_>>().join(",") } }
fn parse_ops(s: &str) -> Vec<Op> { s.split(',').filter(|x| !x.is_empty() && *x != "-").map(parse_op).collect() }
fn is_sender_op(o: &Op) -> bool { matches!(o, Op::Send | Op::Reclaim) }

#[derive(Clone, Copy, Debug, PartialEq)]
struct Cfg { b: usize, m: usize, ovf: bool, k: usize }

fn off(idx: usize) -> PointerOffset { PointerOffset::from_offset_and_segment_id(idx * SAMPLE_SIZE, SegmentId::new(0)) }
fn idx_of(p: PointerOffset) -> u64 { (p.offset() / SAMPLE_SIZE) as u64 }

// ---------------- gate filter ----------------
fn in_queue_file(a: &Access) -> bool {
    a.file.ends_with("spsc/index_queue.rs") || a.file.ends_with("spsc/safely_overflowing_index_queue.rs")
}
fn filter(a: &Access) -> u8 {
    if a.kind == Kind::Cell { return FILTER_LOG; }   // queue slots, borrow counter (the site of a cell access is the wrapper, cell.rs)
    if in_queue_file(a) { return if a.width == 8 { FILTER_GATE } else { FILTER_LOG }; }
    if a.file.ends_with("zero_copy_connection/used_chunk_list.rs") || a.file.ends_with("zero_copy_connection/common.rs") { return FILTER_LOG; }
    FILTER_SKIP
}
fn filter_raw(a: &Access) -> u8 { let _ = a; FILTER_LOG }

// ---------------- the two sides ----------------
struct SenderSide { s: Snd, free: Vec<usize> }
struct ReceiverSide { r: Rcv, held: Vec<usize> }

fn do_reclaim(x: &mut SenderSide) -> u64 {
    match x.s.reclaim(CH) {
        Ok(None) => 0,
        Ok(Some(p)) => { let v = idx_of(p); x.free.push(v as usize); v + 1 }
        Err(_) => 1002,
    }
}
fn sender_op(x: &mut SenderSide, op: Op, ret: &mut dyn FnMut(u64)) {
    match op {
        Op::Reclaim => { let c = do_reclaim(x); ret(c); }
        Op::Send => {
            let mut last;
            loop { last = do_reclaim(x); ret(last); if last == 0 || last >= 1000 { break; } }
            // a reclaim error aborts the macro-op (the model does the same; unreachable by c03_conn_no_corruption)
            if last == 0 && !x.free.is_empty() {
                let v = x.free.remove(0);
                let c = match x.s.try_send(off(v), SAMPLE_SIZE, CH) {
                    Ok(None) => 0,
                    Ok(Some(p)) => { let e = idx_of(p); x.free.push(e as usize); e + 1 }
                    Err(ZeroCopySendError::ReceiveBufferFull) => { x.free.insert(0, v); 1000 }
                    Err(ZeroCopySendError::ConnectionCorrupted) => 1001,
                    Err(_) => 1009,
                };
                ret(c);
            }
        }
        _ => panic!("not a sender op"),
    }
}
fn receiver_op(x: &mut ReceiverSide, op: Op, ret: &mut dyn FnMut(u64)) {
    match op {
        Op::Recv => {
            let c = match x.r.receive(CH) {
                Ok(None) => 0,
                Ok(Some(p)) => { let v = idx_of(p); x.held.push(v as usize); v + 1 }
                Err(_) => 1003,
            };
            ret(c);
        }
        Op::Rel(i) => {
            if i < x.held.len() {
                let v = x.held[i];
                let c = match x.r.release(off(v), CH) { Ok(()) => { x.held.remove(i); 0 } Err(_) => 1004 };
                ret(c);
            }
        }
        _ => panic!("not a receiver op"),
    }
}

static NAME_CTR: AtomicUsize = AtomicUsize::new(0);
fn fresh_name() -> FileName {
    let n = NAME_CTR.fetch_add(1, O::Relaxed);
    FileName::new(format!("c03conn_{}_{}", std::process::id(), n).as_bytes()).unwrap()
}

fn connect(cfg: Cfg) -> (SenderSide, ReceiverSide) {
    let name = fresh_name();
    let mk = || <Conn as ZeroCopyConnection>::Builder::new(&name).buffer_size(cfg.b).receiver_max_borrowed_chunks_per_channel(cfg.m)
        .enable_safe_overflow(cfg.ovf).number_of_chunks_per_segment(cfg.k).max_supported_shared_memory_segments(1).number_of_channels(1);
    let s = mk().create_sender().expect("create_sender");
    let r = mk().create_receiver().expect("create_receiver");
    (SenderSide { s, free: (0..cfg.k).collect() }, ReceiverSide { r, held: vec![] })
}

/// `cap` probe: capacity of the completion queue, through the public API only: on a twin
/// connection, send / receive / release one offset over and over WITHOUT ever reclaiming; the
/// number of releases accepted is the capacity.
fn probe_cq(cfg: Cfg) -> usize {
    static CACHE: Mutex<Vec<(usize, usize, bool, usize, usize)>> = Mutex::new(Vec::new());
    if let Some(e) = CACHE.lock().unwrap().iter().find(|e| (e.0, e.1, e.2, e.3) == (cfg.b, cfg.m, cfg.ovf, cfg.k)) { return e.4; }
    let (s, r) = connect(cfg);
    let mut n = 0usize;
    loop {
        if s.s.try_send(off(0), SAMPLE_SIZE, CH).is_err() { break; }
        match r.r.receive(CH) { Ok(Some(_)) => {}, _ => break }
        if r.r.release(off(0), CH).is_err() { break; }
        n += 1;
        if n > 10000 { break; }
    }
    CACHE.lock().unwrap().push((cfg.b, cfg.m, cfg.ovf, cfg.k, n));
    n
}

type Body = Box<dyn FnOnce() + Send>;
struct Shared { snd: Mutex<Option<SenderSide>>, rcv: Mutex<Option<ReceiverSide>> }

struct Case { cfg: Cfg, pre: Vec<Op>, prog: [Vec<Op>; 2] }

struct Instance { sh: Arc<Shared>, pre_codes: Vec<(usize, u64)> }

/// fresh connection, prologue executed (ungated: the main thread is not a harness thread), thread bodies
fn instantiate(case: &Case) -> (Instance, Vec<Body>) {
    let (mut s, mut r) = connect(case.cfg);
    let mut pre_codes = Vec::new();
    for op in &case.pre {
        if is_sender_op(op) { sender_op(&mut s, *op, &mut |c| pre_codes.push((0usize, c))); }
        else { receiver_op(&mut r, *op, &mut |c| pre_codes.push((1usize, c))); }
    }
    let sh = Arc::new(Shared { snd: Mutex::new(Some(s)), rcv: Mutex::new(Some(r)) });
    let (sh0, sh1) = (sh.clone(), sh.clone());
    let (p0, p1) = (case.prog[0].clone(), case.prog[1].clone());
    let b0: Body = Box::new(move || {
        let mut x = ungated(|| sh0.snd.lock().unwrap().take().unwrap());
        for op in p0 { sender_op(&mut x, op, &mut |c| ret(c)); }
        ungated(|| *sh0.snd.lock().unwrap() = Some(x));
    });
    let b1: Body = Box::new(move || {
        let mut x = ungated(|| sh1.rcv.lock().unwrap().take().unwrap());
        for op in p1 { receiver_op(&mut x, op, &mut |c| ret(c)); }
        ungated(|| *sh1.rcv.lock().unwrap() = Some(x));
    });
    (Instance { sh, pre_codes }, vec![b0, b1])
}

/// final observation (ungated, after both threads are done): borrow counter, then the content
/// of the completion queue (reclaim until empty), then the content of the submission queue
/// (everything held is released and reclaimed first so that receive is not refused)
fn final_obs(inst: &Instance) -> String {
    let mut toks: Vec<String> = Vec::new();
    let (s, r) = (inst.sh.snd.lock().unwrap().take(), inst.sh.rcv.lock().unwrap().take());
    let (Some(s), Some(mut r)) = (s, r) else { return "dead".into(); };
    toks.push(format!("b{}", r.r.borrow_count(CH)));
    toks.push(format!("h{}", r.held.iter().map(|v| v.to_string()).collect::<Vec<_>>().join(".")));
    loop { match s.s.reclaim(CH) { Ok(None) => break, Ok(Some(p)) => toks.push(format!("c{}", idx_of(p))), Err(_) => { toks.push("cE".into()); break; } } }
    let mut guard = 0;
    loop {
        guard += 1; if guard > 64 { toks.push("sE".into()); break; }
        while !r.held.is_empty() {
            let v = r.held.remove(0);
            if r.r.release(off(v), CH).is_err() { toks.push("lE".into()); }
            let _ = s.s.reclaim(CH);
        }
        match r.r.receive(CH) { Ok(None) => break, Ok(Some(p)) => { toks.push(format!("s{}", idx_of(p))); r.held.push(idx_of(p) as usize); } Err(_) => { toks.push("sE".into()); break; } }
    }
    drop(s); drop(r);
    toks.join(",")
}

fn emit(case: &Case, cq: usize, inst: &Instance, ex: &Exec, out: &mut impl Write) {
    let pc = if inst.pre_codes.is_empty() { "-".to_string() } else { inst.pre_codes.iter().map(|(t, c)| format!("{}:{}", t, c)).collect::<Vec<_>>().join(",") };
    let _ = writeln!(out, "C {} {} {} {} {} {} {}|{} {}", case.cfg.b, case.cfg.m, case.cfg.ovf as u8, case.cfg.k, cq, ops_str(&case.pre),
        ops_str(&case.prog[0]), ops_str(&case.prog[1]), pc);
    print_exec(ex, out);
    let sched: Vec<String> = ex.choices.iter().map(|c| c.to_string()).collect();
    let _ = writeln!(out, "S {}", sched.join(","));
    let _ = writeln!(out, "F {}", final_obs(inst));
}

/// program pool of the exhaustive mode (`full`: the larger pool of the thorough tier, bound >= 3)
fn cases(full: bool) -> Vec<Case> {
    use Op::*;
    let mut v = Vec::new();
    let rprogs: Vec<Vec<Op>> = vec![
        vec![Recv], vec![Recv, Rel(0)], vec![Recv, Recv], vec![Recv, Rel(0), Recv], vec![Recv, Recv, Rel(0)],
        vec![Recv, Rel(0), Recv, Rel(0)], vec![Recv, Recv, Rel(1), Rel(0)], vec![Recv, Recv, Rel(0), Recv],
    ];
    for b in 1..=2usize { for m in 1..=2usize { for ovf in [false, true] {
        let cfg = Cfg { b, m, ovf, k: b + m + 3 };
        // cold start: 1..3 send macro-ops against 1..4 receive/release ops
        for ns in 1..=3usize {
            for rp in &rprogs {
                if ns + rp.len() > 5 && !(full && b == 1 && m == 1) { continue; }
                v.push(Case { cfg, pre: vec![], prog: [vec![Send; ns], rp.clone()] });
            }
        }
        // warm start: the receiver side already owns b + m offsets (b queued, m borrowed), the
        // completion queue is empty; one or two sends against release/receive rounds
        let mut pre = Vec::new();
        for _ in 0..m { pre.push(Send); pre.push(Recv); }
        for _ in 0..b { pre.push(Send); }
        let mut rounds = Vec::new();
        for _ in 0..(b + m) { rounds.push(Rel(0)); rounds.push(Recv); }
        rounds.push(Rel(0));
        v.push(Case { cfg, pre: pre.clone(), prog: [vec![Send], rounds.clone()] });
        if full || (b == 1 && m == 1 && !ovf) { v.push(Case { cfg, pre: pre.clone(), prog: [vec![Send, Send], rounds.clone()] }); }
        v.push(Case { cfg, pre: pre.clone(), prog: [vec![Reclaim, Send], vec![Rel(0), Recv, Rel(0)]] });
        // a few offsets only: the free list runs dry and reclaimed offsets are sent again
        let small = Cfg { b, m, ovf, k: 2 };
        v.push(Case { cfg: small, pre: vec![], prog: [vec![Send, Send, Send], vec![Recv, Rel(0), Recv, Rel(0)]] });
    } } }
    v
}

fn random_case(rng: &mut Rng) -> Case {
    let b = 1 + rng.below(3) as usize; let m = 1 + rng.below(3) as usize; let ovf = rng.below(2) == 0;
    let k = 1 + rng.below((b + m + 3) as u64) as usize;
    let cfg = Cfg { b, m, ovf, k };
    let ns = 2 + rng.below(8) as usize;
    let mut p0 = Vec::new();
    for _ in 0..ns { p0.push(if rng.below(6) == 0 { Op::Reclaim } else { Op::Send }); }
    let nr = 3 + rng.below(14) as usize;
    let mut p1 = Vec::new();
    for _ in 0..nr { p1.push(if rng.below(5) < 3 { Op::Recv } else { Op::Rel(rng.below(2) as usize) }); }
    let mut pre = Vec::new();
    if rng.below(2) == 0 { for _ in 0..rng.below((b + m + 1) as u64) { pre.push(Op::Send); if rng.below(2) == 0 { pre.push(Op::Recv); } } }
    Case { cfg, pre, prog: [p0, p1] }
}

fn main() {
    if std::env::var("VERIF_PANIC_VERBOSE").is_err() { std::panic::set_hook(Box::new(|_| {})); }
    iceoryx2_log::set_log_level(iceoryx2_log::LogLevel::Fatal);
    let a: Vec<String> = std::env::args().collect();
    let stdout = std::io::stdout();
    let mut out = std::io::BufWriter::with_capacity(1 << 20, stdout.lock());
    install_filtered(filter);
    match a[1].as_str() {
        "exh" => {
            let bound: usize = a[2].parse().unwrap(); let shard: usize = a[3].parse().unwrap(); let nsh: usize = a[4].parse().unwrap();
            let maxexecs: usize = a.get(6).map(|s| s.parse().unwrap()).unwrap_or(100000);
            for (i, case) in cases(bound >= 3).into_iter().enumerate() {
                if i % nsh != shard { continue; }
                let cq = probe_cq(case.cfg);
                let cur: std::cell::RefCell<Option<Instance>> = std::cell::RefCell::new(None);
                let mut mk = || { let (inst, b) = instantiate(&case); *cur.borrow_mut() = Some(inst); b };
                let outcell = std::cell::RefCell::new(&mut out);
                let mut visit = |ex: &Exec| { let inst = cur.borrow(); emit(&case, cq, inst.as_ref().unwrap(), ex, &mut **outcell.borrow_mut()); };
                explore(bound, maxexecs, &mut mk, &mut visit);
            }
        }
        "rnd" => {
            let count: u64 = a[2].parse().unwrap(); let shard: u64 = a[3].parse().unwrap(); let nsh: u64 = a[4].parse().unwrap(); let seed: u64 = a[5].parse().unwrap();
            for n in 0..count {
                if n % nsh != shard { continue; }
                let mut rng = Rng(seed ^ n.wrapping_mul(0x2545F4914F6CDD1D));
                let case = random_case(&mut rng);
                let cq = probe_cq(case.cfg);
                let (inst, bodies) = instantiate(&case);
                let ex = run_random(rng.next(), bodies);
                emit(&case, cq, &inst, &ex, &mut out);
            }
        }
        "one" | "raw" => {
            let cfg = Cfg { b: a[2].parse().unwrap(), m: a[3].parse().unwrap(), ovf: a[4] != "0", k: a[5].parse().unwrap() };
            let pre = parse_ops(&a[6]);
            let mut it = a[7].split('|');
            let p0 = parse_ops(it.next().unwrap_or("")); let p1 = parse_ops(it.next().unwrap_or(""));
            let sch: Vec<usize> = a.get(8).map(|s| s.split(',').filter(|s| !s.is_empty()).map(|s| s.parse().unwrap()).collect()).unwrap_or_default();
            let case = Case { cfg, pre, prog: [p0, p1] };
            let cq = probe_cq(cfg);
            if a[1] == "raw" { set_filter(filter_raw); }
            let (inst, bodies) = instantiate(&case);
            let mut chooser = |step: usize, enabled: &[usize], last: Option<usize>| -> Choice {
                if step < sch.len() && enabled.contains(&sch[step]) { Choice::Run(sch[step]) }
                else { match last { Some(l) if enabled.contains(&l) => Choice::Run(l), _ => Choice::Run(enabled[0]) } }
            };
            let ex = run_threads(bodies, &mut chooser);
            emit(&case, cq, &inst, &ex, &mut out);
        }
        _ => panic!("mode"),
    }
    let _ = out.flush();
}
