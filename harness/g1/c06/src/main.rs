//! G1 tie of the node-registry part of C06 (model/Service.v: OReg / RIncr / DDereg / DSnap / DCas): drives the REAL
//! StaticRobustUniqueIndexSet (the index set under dynamic_config's node Container) under the baton scheduler of
//! harness/g1/sched with the programs that correspond to "last user leaves || late opener registers" and prints, per
//! explored schedule, what every operation returned.
//!   usage: c06g1 exh <bound> <maxexecs> [<program> ...]   (default: the three programs below)
//!          c06g1 one <cap> <program> <schedule>      program e.g. "acq,lrel|acq", schedule "0,0,1,..."
//!   output: X cap=<c> prog=<p> sched=<choices> r=<per thread: results in program order>
//!           results: ok<i> (acquire -> Ok(i)) | locked (IsLocked) | full (OutOfIndices) | L (release -> Locked)
//!                    | U (release -> Unlocked)
//! A node that registered (acquire = Ok, not released afterwards) while some release(LockIfLastIndex) returned
//! Locked holds a handle of a removed service: the check (tools/checks/C06.py) applies that oracle and compares the
//! set of outcomes with the outcomes of the model's registry steps.
extern crate iceoryx2_bb_loggers;
use iceoryx2_bb_lock_free::mpmc::robust_unique_index_set::{OwnerId, StaticRobustUniqueIndexSet};
use iceoryx2_bb_lock_free::mpmc::unique_index_set_enums::{ReleaseMode, ReleaseState, UniqueIndexSetAcquireFailure};
use sched::*;
use std::io::Write;
use std::sync::{Arc, Mutex};

const MAXCAP: usize = 4;
type Body = Box<dyn FnOnce() + Send>;

#[derive(Clone, Copy, Debug)]
enum Op { Acq, RelLock }

fn parse(p: &str) -> Vec<Vec<Op>> {
    p.split('|').map(|t| t.split(',').filter(|s| !s.is_empty()).map(|s| match s { "acq" => Op::Acq, "lrel" => Op::RelLock, o => panic!("op {}", o) }).collect()).collect()
}

fn bodies(set: &Arc<StaticRobustUniqueIndexSet<MAXCAP>>, prog: &[Vec<Op>], res: &Arc<Mutex<Vec<Vec<String>>>>) -> Vec<Body> {
    let mut v: Vec<Body> = Vec::new();
    for (t, ops) in prog.iter().enumerate() {
        let (s, ops, res) = (set.clone(), ops.clone(), res.clone());
        v.push(Box::new(move || {
            let owner = OwnerId::new(t as u64 + 1).unwrap();
            let mut held: Vec<usize> = Vec::new();
            for op in ops {
                let r = match op {
                    Op::Acq => match s.acquire(owner) {
                        Ok(i) => { held.push(i); format!("ok{}", i) }
                        Err(UniqueIndexSetAcquireFailure::IsLocked) => "locked".to_string(),
                        Err(UniqueIndexSetAcquireFailure::OutOfIndices) => "full".to_string(),
                    },
                    Op::RelLock => match held.pop() {
                        Some(i) => match s.release(i, owner, ReleaseMode::LockIfLastIndex) {
                            Ok(ReleaseState::Locked) => "L".to_string(),
                            Ok(ReleaseState::Unlocked) => "U".to_string(),
                            Err(_) => "E".to_string(),
                        },
                        None => "-".to_string(),
                    },
                };
                res.lock().unwrap()[t].push(r);
            }
        }));
    }
    v
}

fn emit(cap: usize, prog: &str, ex: &Exec, res: &Arc<Mutex<Vec<Vec<String>>>>, out: &mut impl Write) {
    let r = res.lock().unwrap();
    let rs: Vec<String> = r.iter().map(|t| t.join(",")).collect();
    let sc: Vec<String> = ex.choices.iter().map(|c| c.to_string()).collect();
    let _ = writeln!(out, "X cap={} prog={} sched={} r={}{}", cap, prog, sc.join(","), rs.join("|"), if ex.deadlock { " DEADLOCK" } else { "" });
}

fn main() {
    std::panic::set_hook(Box::new(|_| {}));
    iceoryx2_log::set_log_level(iceoryx2_log::LogLevel::Fatal);
    let a: Vec<String> = std::env::args().collect();
    let stdout = std::io::stdout();
    let mut out = std::io::BufWriter::with_capacity(1 << 20, stdout.lock());
    install();
    match a[1].as_str() {
        "exh" => {
            let bound: usize = a[2].parse().unwrap();
            let maxexecs: usize = a[3].parse().unwrap();
            let given: Vec<String> = a.iter().skip(4).cloned().collect();
            let default = vec!["acq,lrel|acq".to_string(), "acq,lrel|acq,lrel".to_string(), "acq,lrel|acq|acq".to_string()];
            let list = if given.is_empty() { default } else { given };
            for prog in list.iter().map(|s| s.as_str()) {
                for cap in 1..=2usize {
                    if prog.matches('|').count() + 1 > cap + 1 { continue; }
                    let p = parse(prog);
                    let cur: std::cell::RefCell<Option<Arc<Mutex<Vec<Vec<String>>>>>> = std::cell::RefCell::new(None);
                    let mut mk = || {
                        let set = Arc::new(StaticRobustUniqueIndexSet::<MAXCAP>::new_with_reduced_capacity(cap).unwrap());
                        let res = Arc::new(Mutex::new(vec![Vec::new(); p.len()]));
                        let b = bodies(&set, &p, &res);
                        *cur.borrow_mut() = Some(res);
                        b
                    };
                    let outcell = std::cell::RefCell::new(&mut out);
                    let mut visit = |ex: &Exec| { let r = cur.borrow(); emit(cap, prog, ex, r.as_ref().unwrap(), &mut **outcell.borrow_mut()); };
                    explore(bound, maxexecs, &mut mk, &mut visit);
                }
            }
        }
        "one" => {
            let cap: usize = a[2].parse().unwrap();
            let p = parse(&a[3]);
            let sch: Vec<usize> = a[4].split(',').filter(|s| !s.is_empty()).map(|s| s.parse().unwrap()).collect();
            let set = Arc::new(StaticRobustUniqueIndexSet::<MAXCAP>::new_with_reduced_capacity(cap).unwrap());
            let res = Arc::new(Mutex::new(vec![Vec::new(); p.len()]));
            let mut chooser = |step: usize, enabled: &[usize], last: Option<usize>| -> Choice {
                if step < sch.len() && enabled.contains(&sch[step]) { Choice::Run(sch[step]) }
                else { match last { Some(l) if enabled.contains(&l) => Choice::Run(l), _ => Choice::Run(enabled[0]) } }
            };
            let ex = run_threads(bodies(&set, &p, &res), &mut chooser);
            emit(cap, &a[3], &ex, &res, &mut out);
        }
        _ => panic!("mode"),
    }
    let _ = out.flush();
}
