// Instrumented replacements for the atomic type aliases and UnsafeCell of
// iceoryx2-pal-concurrency-sync (DESIGN.md section 3.1).  Generated into the drop-in crate by
// gen_dropin.py; never part of /repo.  Every access calls the `before` hook (which may block:
// baton scheduler), performs the real operation on the inner core atomic, then calls `after`
// with what was read and written.  With no hooks installed the wrappers are plain atomics.
#![allow(clippy::all, dead_code, clippy::disallowed_types)]

use core::sync::atomic::Ordering;

#[derive(Clone, Copy, Debug, PartialEq, Eq)]
#[repr(u8)]
pub enum Kind { Load = 0, Store = 1, Cas = 2, Swap = 3, FetchAdd = 4, FetchSub = 5, FetchOr = 6, FetchAnd = 7, Cell = 8, FetchXor = 9, FetchMax = 10, FetchMin = 11, FetchNand = 12 }

#[derive(Clone, Copy, Debug)]
pub struct Access {
    pub addr: usize,
    pub width: u8,
    pub kind: Kind,
    pub ord: Ordering,
    pub ord_fail: Ordering,
    pub file: &'static str,
    pub line: u32,
}

pub type BeforeFn = fn(&Access);
pub type AfterFn = fn(&Access, u64, u64, bool);

static HOOK_BEFORE: core::sync::atomic::AtomicUsize = core::sync::atomic::AtomicUsize::new(0);
static HOOK_AFTER: core::sync::atomic::AtomicUsize = core::sync::atomic::AtomicUsize::new(0);

pub fn set_hooks(before: BeforeFn, after: AfterFn) {
    HOOK_AFTER.store(after as usize, Ordering::SeqCst);
    HOOK_BEFORE.store(before as usize, Ordering::SeqCst);
}
pub fn clear_hooks() {
    HOOK_BEFORE.store(0, Ordering::SeqCst);
    HOOK_AFTER.store(0, Ordering::SeqCst);
    HOOK_OVERRIDE.store(0, Ordering::SeqCst);
}

/// Optional third hook (weak-memory correspondence): may replace the value a LOAD or a FAILED
/// compare-exchange returns by an older value of the same location (a stale read that C11
/// permits); arguments: access, value really read, expected value (failed compare-exchange
/// only), is-failed-compare-exchange.  Memory itself is never changed by it.
pub type OverrideFn = fn(&Access, u64, u64, bool) -> u64;
static HOOK_OVERRIDE: core::sync::atomic::AtomicUsize = core::sync::atomic::AtomicUsize::new(0);
pub fn set_override_hook(f: OverrideFn) { HOOK_OVERRIDE.store(f as usize, Ordering::SeqCst); }
pub fn clear_override_hook() { HOOK_OVERRIDE.store(0, Ordering::SeqCst); }
#[inline(always)]
fn overridden(a: &Access, real: u64, expected: u64, cas_fail: bool) -> u64 {
    let h = HOOK_OVERRIDE.load(Ordering::Relaxed);
    if h != 0 { let f: OverrideFn = unsafe { core::mem::transmute(h) }; f(a, real, expected, cas_fail) } else { real }
}
pub trait FromU64 { fn from_u64(x: u64) -> Self; }
macro_rules! from_u64_int { ($($t:ty),*) => { $(impl FromU64 for $t { #[inline(always)] fn from_u64(x: u64) -> Self { x as $t } })* } }
from_u64_int!(u8, u16, u32, u64, usize, i8, i16, i32, i64, isize);
impl FromU64 for bool { #[inline(always)] fn from_u64(x: u64) -> Self { x != 0 } }

#[inline(always)]
fn before(a: &Access) {
    let h = HOOK_BEFORE.load(Ordering::Relaxed);
    if h != 0 { let f: BeforeFn = unsafe { core::mem::transmute(h) }; f(a); }
}
#[inline(always)]
fn after(a: &Access, rd: u64, wr: u64, ok: bool) {
    let h = HOOK_AFTER.load(Ordering::Relaxed);
    if h != 0 { let f: AfterFn = unsafe { core::mem::transmute(h) }; f(a, rd, wr, ok); }
}

macro_rules! gated_int {
    ($name:ident, $inner:ty, $prim:ty) => {
        #[repr(transparent)]
        pub struct $name { v: $inner }
        impl Default for $name { fn default() -> Self { Self::new(Default::default()) } }
        impl core::fmt::Debug for $name {
            fn fmt(&self, f: &mut core::fmt::Formatter<'_>) -> core::fmt::Result { core::fmt::Debug::fmt(&self.v, f) }
        }
        impl From<$prim> for $name { fn from(x: $prim) -> Self { Self::new(x) } }
        impl $name {
            pub const fn new(x: $prim) -> Self { Self { v: <$inner>::new(x) } }
            pub fn get_mut(&mut self) -> &mut $prim { self.v.get_mut() }
            pub fn into_inner(self) -> $prim { self.v.into_inner() }
            pub const fn as_ptr(&self) -> *mut $prim { self.v.as_ptr() }
            pub unsafe fn from_ptr<'a>(ptr: *mut $prim) -> &'a Self { unsafe { &*(ptr as *const Self) } }
            #[inline(always)]
            fn acc(&self, kind: Kind, ord: Ordering, ord_fail: Ordering, loc: &'static core::panic::Location<'static>) -> Access {
                Access { addr: self as *const _ as usize, width: core::mem::size_of::<$prim>() as u8, kind, ord, ord_fail, file: loc.file(), line: loc.line() }
            }
            #[track_caller]
            pub fn load(&self, order: Ordering) -> $prim {
                let a = self.acc(Kind::Load, order, order, core::panic::Location::caller());
                before(&a); let r = self.v.load(order);
                let r = <$prim as FromU64>::from_u64(overridden(&a, r as u64, 0, false));
                after(&a, r as u64, 0, true); r
            }
            #[track_caller]
            pub fn store(&self, val: $prim, order: Ordering) {
                let a = self.acc(Kind::Store, order, order, core::panic::Location::caller());
                before(&a); self.v.store(val, order); after(&a, 0, val as u64, true);
            }
            #[track_caller]
            pub fn swap(&self, val: $prim, order: Ordering) -> $prim {
                let a = self.acc(Kind::Swap, order, order, core::panic::Location::caller());
                before(&a); let r = self.v.swap(val, order); after(&a, r as u64, val as u64, true); r
            }
            #[track_caller]
            pub fn compare_exchange(&self, current: $prim, new: $prim, success: Ordering, failure: Ordering) -> Result<$prim, $prim> {
                let a = self.acc(Kind::Cas, success, failure, core::panic::Location::caller());
                before(&a);
                let r = self.v.compare_exchange(current, new, success, failure);
                let r = match r { Ok(o) => Ok(o), Err(o) => Err(<$prim as FromU64>::from_u64(overridden(&a, o as u64, current as u64, true))) };
                match r { Ok(o) => after(&a, o as u64, new as u64, true), Err(o) => after(&a, o as u64, new as u64, false) }
                r
            }
            /// never fails spuriously under the gate (the model has no spurious failures)
            #[track_caller]
            pub fn compare_exchange_weak(&self, current: $prim, new: $prim, success: Ordering, failure: Ordering) -> Result<$prim, $prim> {
                let a = self.acc(Kind::Cas, success, failure, core::panic::Location::caller());
                before(&a);
                let r = self.v.compare_exchange(current, new, success, failure);
                let r = match r { Ok(o) => Ok(o), Err(o) => Err(<$prim as FromU64>::from_u64(overridden(&a, o as u64, current as u64, true))) };
                match r { Ok(o) => after(&a, o as u64, new as u64, true), Err(o) => after(&a, o as u64, new as u64, false) }
                r
            }
            #[track_caller]
            pub fn fetch_update<F: FnMut($prim) -> Option<$prim>>(&self, set_order: Ordering, fetch_order: Ordering, mut f: F) -> Result<$prim, $prim> {
                let mut prev = self.load(fetch_order);
                while let Some(next) = f(prev) {
                    match self.compare_exchange_weak(prev, next, set_order, fetch_order) {
                        x @ Ok(_) => return x,
                        Err(next_prev) => prev = next_prev,
                    }
                }
                Err(prev)
            }
        }
    };
}

macro_rules! gated_arith {
    ($name:ident, $prim:ty) => {
        impl $name {
            #[track_caller]
            pub fn fetch_add(&self, val: $prim, order: Ordering) -> $prim {
                let a = self.acc(Kind::FetchAdd, order, order, core::panic::Location::caller());
                before(&a); let r = self.v.fetch_add(val, order); after(&a, r as u64, r.wrapping_add(val) as u64, true); r
            }
            #[track_caller]
            pub fn fetch_sub(&self, val: $prim, order: Ordering) -> $prim {
                let a = self.acc(Kind::FetchSub, order, order, core::panic::Location::caller());
                before(&a); let r = self.v.fetch_sub(val, order); after(&a, r as u64, r.wrapping_sub(val) as u64, true); r
            }
            #[track_caller]
            pub fn fetch_or(&self, val: $prim, order: Ordering) -> $prim {
                let a = self.acc(Kind::FetchOr, order, order, core::panic::Location::caller());
                before(&a); let r = self.v.fetch_or(val, order); after(&a, r as u64, (r | val) as u64, true); r
            }
            #[track_caller]
            pub fn fetch_and(&self, val: $prim, order: Ordering) -> $prim {
                let a = self.acc(Kind::FetchAnd, order, order, core::panic::Location::caller());
                before(&a); let r = self.v.fetch_and(val, order); after(&a, r as u64, (r & val) as u64, true); r
            }
            #[track_caller]
            pub fn fetch_xor(&self, val: $prim, order: Ordering) -> $prim {
                let a = self.acc(Kind::FetchXor, order, order, core::panic::Location::caller());
                before(&a); let r = self.v.fetch_xor(val, order); after(&a, r as u64, (r ^ val) as u64, true); r
            }
            #[track_caller]
            pub fn fetch_nand(&self, val: $prim, order: Ordering) -> $prim {
                let a = self.acc(Kind::FetchNand, order, order, core::panic::Location::caller());
                before(&a); let r = self.v.fetch_nand(val, order); after(&a, r as u64, (!(r & val)) as u64, true); r
            }
            #[track_caller]
            pub fn fetch_max(&self, val: $prim, order: Ordering) -> $prim {
                let a = self.acc(Kind::FetchMax, order, order, core::panic::Location::caller());
                before(&a); let r = self.v.fetch_max(val, order); after(&a, r as u64, core::cmp::max(r, val) as u64, true); r
            }
            #[track_caller]
            pub fn fetch_min(&self, val: $prim, order: Ordering) -> $prim {
                let a = self.acc(Kind::FetchMin, order, order, core::panic::Location::caller());
                before(&a); let r = self.v.fetch_min(val, order); after(&a, r as u64, core::cmp::min(r, val) as u64, true); r
            }
        }
    };
}

macro_rules! gated_bool_ops {
    ($name:ident) => {
        impl $name {
            #[track_caller]
            pub fn fetch_or(&self, val: bool, order: Ordering) -> bool {
                let a = self.acc(Kind::FetchOr, order, order, core::panic::Location::caller());
                before(&a); let r = self.v.fetch_or(val, order); after(&a, r as u64, (r | val) as u64, true); r
            }
            #[track_caller]
            pub fn fetch_and(&self, val: bool, order: Ordering) -> bool {
                let a = self.acc(Kind::FetchAnd, order, order, core::panic::Location::caller());
                before(&a); let r = self.v.fetch_and(val, order); after(&a, r as u64, (r & val) as u64, true); r
            }
            #[track_caller]
            pub fn fetch_xor(&self, val: bool, order: Ordering) -> bool {
                let a = self.acc(Kind::FetchXor, order, order, core::panic::Location::caller());
                before(&a); let r = self.v.fetch_xor(val, order); after(&a, r as u64, (r ^ val) as u64, true); r
            }
            #[track_caller]
            pub fn fetch_nand(&self, val: bool, order: Ordering) -> bool {
                let a = self.acc(Kind::FetchNand, order, order, core::panic::Location::caller());
                before(&a); let r = self.v.fetch_nand(val, order); after(&a, r as u64, (!(r & val)) as u64, true); r
            }
        }
    };
}

gated_int!(AtomicBool, core::sync::atomic::AtomicBool, bool);
gated_bool_ops!(AtomicBool);
gated_int!(AtomicUsize, core::sync::atomic::AtomicUsize, usize);
gated_arith!(AtomicUsize, usize);
gated_int!(AtomicIsize, core::sync::atomic::AtomicIsize, isize);
gated_arith!(AtomicIsize, isize);
gated_int!(AtomicU8, core::sync::atomic::AtomicU8, u8);
gated_arith!(AtomicU8, u8);
gated_int!(AtomicU16, core::sync::atomic::AtomicU16, u16);
gated_arith!(AtomicU16, u16);
gated_int!(AtomicU32, core::sync::atomic::AtomicU32, u32);
gated_arith!(AtomicU32, u32);
gated_int!(AtomicI8, core::sync::atomic::AtomicI8, i8);
gated_arith!(AtomicI8, i8);
gated_int!(AtomicI16, core::sync::atomic::AtomicI16, i16);
gated_arith!(AtomicI16, i16);
gated_int!(AtomicI32, core::sync::atomic::AtomicI32, i32);
gated_arith!(AtomicI32, i32);
gated_int!(AtomicI64, core::sync::atomic::AtomicI64, i64);
gated_arith!(AtomicI64, i64);
gated_int!(AtomicU64, core::sync::atomic::AtomicU64, u64);
gated_arith!(AtomicU64, u64);

/// UnsafeCell whose `get` is a gated access (kind Cell): the raw read or write the caller
/// performs through the returned pointer happens before its next gated access, hence inside
/// the same scheduler step.
#[repr(transparent)]
pub struct UnsafeCell<T: ?Sized> { v: core::cell::UnsafeCell<T> }
impl<T> UnsafeCell<T> {
    pub const fn new(x: T) -> Self { Self { v: core::cell::UnsafeCell::new(x) } }
    pub fn into_inner(self) -> T { self.v.into_inner() }
}
impl<T: ?Sized> UnsafeCell<T> {
    #[track_caller]
    pub fn get(&self) -> *mut T {
        let loc = core::panic::Location::caller();
        let a = Access { addr: self as *const _ as *const u8 as usize, width: 0, kind: Kind::Cell, ord: Ordering::Relaxed, ord_fail: Ordering::Relaxed, file: loc.file(), line: loc.line() };
        before(&a); let p = self.v.get(); after(&a, 0, 0, true); p
    }
    pub const fn get_ungated(&self) -> *mut T { self.v.get() }
    pub fn get_mut(&mut self) -> &mut T { self.v.get_mut() }
    pub const fn raw_get(this: *const Self) -> *mut T { this as *const T as *mut T }
}
impl<T: Default> Default for UnsafeCell<T> { fn default() -> Self { Self::new(T::default()) } }
impl<T> From<T> for UnsafeCell<T> { fn from(x: T) -> Self { Self::new(x) } }
impl<T: ?Sized> core::fmt::Debug for UnsafeCell<T> {
    fn fmt(&self, f: &mut core::fmt::Formatter<'_>) -> core::fmt::Result { f.write_str("UnsafeCell { .. }") }
}
