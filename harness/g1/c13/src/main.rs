extern crate iceoryx2_bb_loggers;
use iceoryx2_cal::named_concept::*;
use iceoryx2_cal::zero_copy_connection::*;
use iceoryx2_bb_system_types::file_name::FileName;
use sched::*;
type Conn = iceoryx2_cal::zero_copy_connection::process_local::Connection;

fn main() {
    iceoryx2_log::set_log_level(iceoryx2_log::LogLevel::Fatal);
    install();
    let name = FileName::new(b"c13probe").unwrap();
    let _ = Conn::does_exist(&name);
    let body: Box<dyn FnOnce() + Send> = Box::new(move || {
        let s = <Conn as ZeroCopyConnection>::Builder::new(&name).create_sender();
        ret(if s.is_ok() { 1 } else { 0 });
        let r = <Conn as ZeroCopyConnection>::Builder::new(&name).buffer_size(7).create_receiver();
        ret(if r.is_ok() { 1 } else { 0 });
        let r = <Conn as ZeroCopyConnection>::Builder::new(&name).create_receiver();
        ret(if r.is_ok() { 1 } else { 0 });
        let e = Conn::does_exist(&name).unwrap();
        ret(e as u64 + 10);
        drop(s);
        ret(2);
        drop(r);
        ret(3);
        let e = Conn::does_exist(&name).unwrap();
        ret(e as u64 + 10);
        let r = unsafe { Conn::remove_sender(&name, &Default::default()) };
        ret(if r.is_ok() { 1 } else { 0 });
    });
    let mut ch = |_s: usize, en: &[usize], _l: Option<usize>| Choice::Run(en[0]);
    let ex = run_threads(vec![body], &mut ch);
    let mut out = std::io::stdout();
    print_exec(&ex, &mut out);
}
