//! G1 correspondence harness for C13 (connection lifecycle): 1..3 threads run
//! create_sender / create_receiver / drop / leak / forced remove_sender|remove_receiver /
//! is_connected on ONE connection name of the REAL zero_copy_connection over process_local
//! dynamic storage, under the baton scheduler, and print every access to the connection state
//! byte, to the storage ownership flag and every storage-level operation (map critical section).
//!
//! usage: c13 exh <bound> <shard> <nshards> <seed> <maxexecs>     all schedules <= bound preemptions of the program pool
//!        c13 rnd <count> <shard> <nshards> <seed>                random programs, random schedules
//!        c13 seq <maxlen> <shard> <nshards>                       all sequential histories (one thread) up to maxlen ops
//!        c13 exhp <bound> <maxexecs> <program>                    all schedules <= bound preemptions of ONE given program (search phase)
//!        c13 one <program> <schedule>                             replay, e.g. one "cs0|cs0" 0,1,1,1,0,0,0
//!        c13 posixseq <maxlen> <shard> <nshards>                  sequential histories on posix_shared_memory (oracle only: `driver oracle`)
//!        c13 posix <program> <schedule>                           replay on posix_shared_memory storage (observations only)
//! program: threads separated by '|', ops by ',': cs<v> cr<v> (create sender/receiver with
//! parameter variant v; 0 = base), d<k> (drop the port made by this thread's op k), l<k> (leak
//! it: the owner died), fs fr (forced removal), ic<k> (is_connected).
//!
//! Gate filter (see model/ConnState.v, GRANULARITY): scheduling points are the accesses to the
//! state byte (common.rs, 1 byte wide), to Storage::has_ownership (process_local.rs) and the
//! `handle.get()` of Mutex::lock of PROCESS_LOCAL_STORAGE; everything inside the critical
//! section is recorded (map derefs, initializer) but never parks.
extern crate iceoryx2_bb_loggers;
use iceoryx2_bb_system_types::file_name::FileName;
use iceoryx2_cal::named_concept::*;
use iceoryx2_cal::zero_copy_connection::*;
use iceoryx2_pal_concurrency_sync::verif_gate::{Access, Kind};
use sched::*;
use std::cell::Cell;
use std::io::Write;
use std::sync::atomic::{AtomicUsize, Ordering as O};

type PlConn = iceoryx2_cal::zero_copy_connection::process_local::Connection;
type ShmConn = iceoryx2_cal::zero_copy_connection::posix_shared_memory::Connection;

#[derive(Clone, Copy, Debug, PartialEq)]
enum Role { S, R }
#[derive(Clone, Copy, Debug, PartialEq)]
enum Op { Create(Role, usize), Drop(usize), Leak(usize), Force(Role), IsConn(usize) }

fn op_str(o: &Op) -> String {
    match o {
        Op::Create(Role::S, v) => format!("cs{}", v), Op::Create(Role::R, v) => format!("cr{}", v),
        Op::Drop(k) => format!("d{}", k), Op::Leak(k) => format!("l{}", k),
        Op::Force(Role::S) => "fs".into(), Op::Force(Role::R) => "fr".into(), Op::IsConn(k) => format!("ic{}", k),
    }
}
fn parse_op(s: &str) -> Op {
    if let Some(v) = s.strip_prefix("cs") { return Op::Create(Role::S, v.parse().unwrap()); }
    if let Some(v) = s.strip_prefix("cr") { return Op::Create(Role::R, v.parse().unwrap()); }
    if let Some(v) = s.strip_prefix("ic") { return Op::IsConn(v.parse().unwrap()); }
    if s == "fs" { return Op::Force(Role::S); }
    if s == "fr" { return Op::Force(Role::R); }
    if let Some(v) = s.strip_prefix('d') { return Op::Drop(v.parse().unwrap()); }
    if let Some(v) = s.strip_prefix('l') { return Op::Leak(v.parse().unwrap()); }
    panic!("bad op {}", s)
}
fn prog_str(p: &[Vec<Op>]) -> String { p.iter().map(|t| t.iter().map(op_str).collect::<Vec<_>>().join(",")).collect::<Vec<_>>().join("|") }
fn parse_prog(s: &str) -> Vec<Vec<Op>> { s.split('|').map(|t| t.split(',').filter(|x| !x.is_empty()).map(parse_op).collect()).collect() }

/// parameter variants: (buffer size, max borrowed, overflow, samples per segment, segments, channels)
fn variant(v: usize) -> (usize, usize, bool, usize, u8, usize) {
    let b = (2, 2, false, 4, 1u8, 1);
    match v {
        0 => b, 1 => (3, b.1, b.2, b.3, b.4, b.5), 2 => (b.0, 3, b.2, b.3, b.4, b.5), 3 => (b.0, b.1, true, b.3, b.4, b.5),
        4 => (b.0, b.1, b.2, 5, b.4, b.5), 5 => (b.0, b.1, b.2, b.3, 2, b.5), 6 => (b.0, b.1, b.2, b.3, b.4, 2),
        7 => (3, 1, b.2, b.3, b.4, b.5), _ => panic!("variant"),
    }
}

fn err_code(e: ZeroCopyCreationError) -> u64 {
    use ZeroCopyCreationError::*;
    match e {
        IsBeingCleanedUp => 1, AnotherInstanceIsAlreadyConnected => 2, IncompatibleBufferSize => 3,
        IncompatibleMaxBorrowedSamplesPerChannelSetting => 4, IncompatibleOverflowSetting => 5, IncompatibleNumberOfSamples => 6,
        IncompatibleNumberOfSegments => 7, IncompatibleNumberOfChannels => 8, _ => 30,
    }
}

const BEGIN: u64 = 1 << 40;
const LEAK: u64 = 1 << 41;   // timeline only: the port made by op (code - LEAK) died

// ---------------- gate filter ----------------
static LOCK_CELL: AtomicUsize = AtomicUsize::new(0);
static VALUE_CELL: AtomicUsize = AtomicUsize::new(0);
static INIT_DELTA: AtomicUsize = AtomicUsize::new(0);
thread_local! { static IN_CS: Cell<bool> = const { Cell::new(false) }; }

fn is_state_byte(a: &Access) -> bool { a.width == 1 && a.kind != Kind::Cell && a.file.ends_with("zero_copy_connection/common.rs") }
fn is_init_store(a: &Access) -> bool { a.width == 8 && a.kind == Kind::Store && a.file.ends_with("zero_copy_connection/common.rs") }
fn is_own_flag(a: &Access) -> bool { a.file.ends_with("dynamic_storage/process_local.rs") }

fn filter_pl(a: &Access) -> u8 {
    if a.kind == Kind::Cell && a.addr == LOCK_CELL.load(O::Relaxed) {
        let inside = IN_CS.with(|c| c.replace(!c.get()));
        return if inside { FILTER_LOG } else { FILTER_GATE };
    }
    if IN_CS.with(|c| c.get()) {
        if (a.kind == Kind::Cell && a.addr == VALUE_CELL.load(O::Relaxed)) || is_init_store(a) { FILTER_LOG } else { FILTER_SKIP }
    } else if is_state_byte(a) || is_own_flag(a) { FILTER_GATE } else { FILTER_SKIP }
}
/// one thread only (sequential histories): same classification, nothing parks
fn filter_pl_seq(a: &Access) -> u8 { if filter_pl(a) == FILTER_SKIP { FILTER_SKIP } else { FILTER_LOG } }
fn filter_discover(a: &Access) -> u8 { if a.kind == Kind::Cell || is_state_byte(a) || is_init_store(a) { FILTER_LOG } else { FILTER_SKIP } }
/// posix_shared_memory storage: state byte, SharedMemory::has_ownership, and the harness' own op-start gate
fn filter_shm(a: &Access) -> u8 {
    if is_state_byte(a) || a.file.ends_with("c13/src/main.rs") || (a.width == 1 && a.file.ends_with("posix/src/shared_memory.rs")) { FILTER_GATE } else { FILTER_SKIP }
}

type Body = Box<dyn FnOnce() + Send>;

trait Port: Send {
    fn connected(&self) -> bool;
    /// the owning process died: no Drop logic runs; `release` = give the OS resources (fd, mapping) back the way
    /// process death does (Abandonable::abandon_in_place), otherwise the port object is simply forgotten
    fn die(self: Box<Self>, release: bool);
}
struct SP<C: ZeroCopyConnection>(C::Sender);
struct RP<C: ZeroCopyConnection>(C::Receiver);
use iceoryx2_bb_elementary_traits::testing::abandonable::Abandonable;
impl<C: ZeroCopyConnection> Port for SP<C> {
    fn connected(&self) -> bool { self.0.is_connected() }
    fn die(self: Box<Self>, release: bool) {
        let mut m = core::mem::ManuallyDrop::new(*self);
        if release { unsafe { <C::Sender as Abandonable>::abandon_in_place(core::ptr::NonNull::from(&mut m.0)) }; }
    }
}
impl<C: ZeroCopyConnection> Port for RP<C> {
    fn connected(&self) -> bool { self.0.is_connected() }
    fn die(self: Box<Self>, release: bool) {
        let mut m = core::mem::ManuallyDrop::new(*self);
        if release { unsafe { <C::Receiver as Abandonable>::abandon_in_place(core::ptr::NonNull::from(&mut m.0)) }; }
    }
}

static START_GATE: iceoryx2_pal_concurrency_sync::atomic::AtomicU8 = iceoryx2_pal_concurrency_sync::atomic::AtomicU8::new(0);

fn body<C: ZeroCopyConnection + 'static>(name: FileName, cfg: C::Configuration, ops: Vec<Op>, start_gate: bool) -> Body
where C::Configuration: Send + 'static, C::Sender: 'static, C::Receiver: 'static {
    Box::new(move || {
        let mut ports: Vec<Option<Box<dyn Port>>> = Vec::new();
        let end = |code: u64| { let ex = ungated(|| C::does_exist_cfg(&name, &cfg).unwrap_or(false)); ret(2 * code + ex as u64); };
        let begin = |k: usize| { ret(BEGIN + k as u64); if start_gate { let _ = START_GATE.load(core::sync::atomic::Ordering::Relaxed); } };
        for (k, op) in ops.iter().enumerate() {
            match *op {
                Op::Create(role, v) => {
                    begin(k);
                    let (bs, mb, ovf, ns, seg, ch) = variant(v);
                    let b = C::Builder::new(&name).config(&cfg).buffer_size(bs).receiver_max_borrowed_chunks_per_channel(mb)
                        .enable_safe_overflow(ovf).number_of_chunks_per_segment(ns).max_supported_shared_memory_segments(seg).number_of_channels(ch);
                    let res: Result<Box<dyn Port>, ZeroCopyCreationError> = match role {
                        Role::S => b.create_sender().map(|s| Box::new(SP::<C>(s)) as Box<dyn Port>),
                        Role::R => b.create_receiver().map(|r| Box::new(RP::<C>(r)) as Box<dyn Port>),
                    };
                    let code = match &res { Ok(_) => 0, Err(e) => err_code(*e) };
                    ports.push(res.ok());
                    end(code);
                }
                Op::Drop(j) => {
                    if let Some(p) = ports.get_mut(j).and_then(|x| x.take()) { begin(k); drop(p); end(0); }
                    ports.push(None);
                }
                Op::Leak(j) => {
                    if let Some(p) = ports.get_mut(j).and_then(|x| x.take()) { ungated(|| p.die(start_gate)); ret(LEAK + j as u64); }
                    ports.push(None);
                }
                Op::Force(role) => {
                    begin(k);
                    let r = unsafe { match role { Role::S => C::remove_sender(&name, &cfg), Role::R => C::remove_receiver(&name, &cfg) } };
                    end(match r { Ok(()) => 0, Err(ZeroCopyPortRemoveError::DoesNotExist) => 1, Err(_) => 30 });
                    ports.push(None);
                }
                Op::IsConn(j) => {
                    if let Some(p) = ports.get(j).and_then(|x| x.as_ref()) { begin(k); let c = p.connected(); end(c as u64); }
                    ports.push(None);
                }
            }
        }
        // ports still held when the program ends stay attached: the model program ends here
        for p in ports.into_iter().flatten() { ungated(|| p.die(start_gate)); }
    })
}

static NAME_CTR: AtomicUsize = AtomicUsize::new(0);
fn fresh_name() -> FileName {
    let n = NAME_CTR.fetch_add(1, O::Relaxed);
    FileName::new(format!("c13_{}_{}", std::process::id(), n).as_bytes()).unwrap()
}

/// prints one execution in the line format of g1drv with canonical locations:
///   map critical section -> `E t <site> 1 swap na na <map derefs> <storages initialised> 1`
///   state byte           -> address 1000 + incarnation number (creation order)
///   ownership flag       -> address 2000 + 64 * thread + index of the op that made the handle
fn emit(prog: &[Vec<Op>], ex: &Exec, exists_final: bool, out: &mut impl Write) {
    let nt = prog.len();
    let lock = LOCK_CELL.load(O::Relaxed); let value = VALUE_CELL.load(O::Relaxed); let delta = INIT_DELTA.load(O::Relaxed);
    let mut lines: Vec<String> = Vec::new();
    let mut timeline: Vec<String> = Vec::new();
    let mut in_cs = vec![false; nt]; let mut derefs = vec![0u64; nt]; let mut first_init = vec![0usize; nt];
    let mut cs_site = vec![String::new(); nt];
    let mut cur_op = vec![0usize; nt];
    let mut pending_begin: Vec<bool> = vec![false; nt];   // an op begins (for the timeline) with its first access
    let mut inc_of: std::collections::HashMap<usize, usize> = std::collections::HashMap::new();
    let mut next_inc = 0usize;
    for r in &ex.log {
        match r {
            Rec::Acc { tid, file, line, addr, width, kind, ord, ord_fail, rd, wr, ok } => {
                let t = *tid;
                if pending_begin[t] { pending_begin[t] = false; timeline.push(format!("b:{}:{}", t, cur_op[t])); }
                let f = file.rsplit('/').next().unwrap_or(file);
                if *kind == Kind::Cell && *addr == lock {
                    if !in_cs[t] { in_cs[t] = true; derefs[t] = 0; first_init[t] = 0; cs_site[t] = format!("{}:{}", f, line); }
                    else {
                        in_cs[t] = false;
                        let created = first_init[t] != 0;
                        if created { inc_of.insert(first_init[t].wrapping_sub(delta), next_inc); next_inc += 1; }
                        lines.push(format!("E {} {} 1 swap na na {} {} 1", t, cs_site[t], derefs[t], created as u64));
                    }
                } else if in_cs[t] {
                    if *kind == Kind::Cell && *addr == value { derefs[t] += 1; }
                    else if *width == 8 && *kind == Kind::Store && first_init[t] == 0 { first_init[t] = *addr; }
                } else if file.ends_with("dynamic_storage/process_local.rs") {
                    let hidx = match prog[t].get(cur_op[t]) { Some(Op::Drop(j)) => *j, _ => cur_op[t] };
                    lines.push(format!("E {} {}:{} {} {} {} {} {} {} {}", t, f, line, 2000 + 64 * t + hidx, kind_name(*kind), ord_name(*ord), ord_name(*ord_fail), rd, wr, *ok as u8));
                } else {
                    let id = match inc_of.get(addr) { Some(i) => *i, None => { let i = 900 + inc_of.len(); inc_of.insert(*addr, i); i } };
                    lines.push(format!("E {} {}:{} {} {} {} {} {} {} {}", t, f, line, 1000 + id, kind_name(*kind), ord_name(*ord), ord_name(*ord_fail), rd, wr, *ok as u8));
                }
            }
            Rec::Ret { tid, code } => {
                if *code >= LEAK && *code != u64::MAX { timeline.push(format!("l:{}:{}", tid, *code - LEAK)); }
                else if *code >= BEGIN && *code != u64::MAX { cur_op[*tid] = (*code - BEGIN) as usize; pending_begin[*tid] = true; }
                else {
                    if pending_begin[*tid] { pending_begin[*tid] = false; timeline.push(format!("b:{}:{}", tid, cur_op[*tid])); }
                    if *code == u64::MAX { lines.push(format!("R {} P", tid)); timeline.push(format!("e:{}:{}:999", tid, cur_op[*tid])); }
                    else { lines.push(format!("R {} {}", tid, code)); timeline.push(format!("e:{}:{}:{}", tid, cur_op[*tid], code)); }
                }
            }
        }
    }
    let sched0: Vec<String> = ex.choices.iter().map(|c| c.to_string()).collect();
    let _ = writeln!(out, "C {} {} {} s={}", nt, prog_str(prog), if timeline.is_empty() { "-".to_string() } else { timeline.join(",") }, sched0.join(","));
    for l in lines { let _ = writeln!(out, "{}", l); }
    if ex.deadlock { let _ = writeln!(out, "X deadlock"); }
    let sched: Vec<String> = ex.choices.iter().map(|c| c.to_string()).collect();
    let _ = writeln!(out, "S {}", sched.join(","));
    let _ = writeln!(out, "F {}", exists_final as u8);
}

fn bodies_pl(name: &FileName, prog: &[Vec<Op>]) -> Vec<Body> {
    prog.iter().map(|ops| body::<PlConn>(*name, Default::default(), ops.clone(), false)).collect()
}
fn finish_pl(name: &FileName) -> bool {
    let ex = PlConn::does_exist(name).unwrap_or(false);
    let _ = unsafe { PlConn::remove_cfg(name, &Default::default()) };
    ex
}

/// learn the addresses of the map mutex's handle cell and value cell, and the distance between the
/// first channel-state store of the initializer and the state byte of the storage it initialises
fn discover() {
    set_filter(filter_discover);
    let name = fresh_name();
    let b: Body = Box::new(move || {
        let _ = PlConn::does_exist(&name);
        let s = <PlConn as ZeroCopyConnection>::Builder::new(&name).create_sender();
        drop(s);
    });
    let mut ch = |_s: usize, en: &[usize], _l: Option<usize>| Choice::Run(en[0]);
    let ex = run_threads(vec![b], &mut ch);
    let mut cells = Vec::new(); let mut init = 0usize; let mut byte = 0usize;
    for r in &ex.log {
        if let Rec::Acc { addr, kind, width, file, .. } = r {
            if *kind == Kind::Cell { if !cells.contains(addr) { cells.push(*addr); } }
            else if *width == 8 && *kind == Kind::Store && init == 0 && file.ends_with("common.rs") { init = *addr; }
            else if *width == 1 && byte == 0 && file.ends_with("common.rs") { byte = *addr; }
        }
    }
    assert!(cells.len() >= 2 && init != 0 && byte != 0, "discovery failed: {:?} {} {}", cells, init, byte);
    LOCK_CELL.store(cells[0], O::SeqCst); VALUE_CELL.store(cells[1], O::SeqCst); INIT_DELTA.store(init.wrapping_sub(byte), O::SeqCst);
    set_filter(filter_pl);
}

/// thread-program pool of the exhaustive mode
fn pool() -> Vec<Vec<Op>> {
    use Op::*; use Role::*;
    vec![
        vec![Create(S, 0)], vec![Create(R, 0)],
        vec![Create(S, 0), Drop(0)], vec![Create(R, 0), Drop(0)],
        vec![Create(S, 0), Create(S, 0)], vec![Create(R, 0), Drop(0), Create(R, 0)],
        vec![Create(S, 0), Drop(0), Create(S, 0), Drop(2)],
        vec![Create(S, 0), IsConn(0), Drop(0)], vec![Create(R, 0), IsConn(0)],
        vec![Create(S, 0), Leak(0)], vec![Create(R, 0), Leak(0), Force(R)],
        vec![Force(S)], vec![Force(R), Create(R, 0)],
        vec![Create(S, 1)], vec![Create(R, 2), Drop(0)],
    ]
}

fn programs() -> Vec<Vec<Vec<Op>>> {
    use Op::*; use Role::*;
    let p = pool();
    let mut v = Vec::new();
    for i in 0..p.len() { for j in i..p.len() { v.push(vec![p[i].clone(), p[j].clone()]); } }
    // every mismatch kind against an attached / attaching peer
    for k in 1..=7 {
        v.push(vec![vec![Create(R, 0), Drop(0)], vec![Create(S, k)]]);
        v.push(vec![vec![Create(S, 0), IsConn(0)], vec![Create(R, k), Drop(0)]]);
        v.push(vec![vec![Create(S, k), Drop(0)], vec![Create(R, 0), Drop(0)]]);
    }
    // forced removal of a role that is NOT attached while the opposite role is attached, then the probes:
    // does_exist (every return), a new peer attaches, is_connected on both, the old side detaches
    v.push(vec![vec![Create(R, 0), IsConn(0), Drop(0)], vec![Force(S), Create(S, 0), IsConn(1)]]);
    v.push(vec![vec![Create(S, 0), IsConn(0), Drop(0)], vec![Force(R), Create(R, 0), IsConn(1)]]);
    v.push(vec![vec![Create(R, 0), Drop(0)], vec![Force(S)], vec![Force(S)]]);
    v.push(vec![vec![Create(S, 0), IsConn(0)], vec![Force(R)], vec![Force(R), Create(R, 0), IsConn(1)]]);
    v.push(vec![vec![Create(S, 0), Drop(0)], vec![Create(R, 0), IsConn(0), Drop(0)], vec![Force(S)]]);
    v.push(vec![vec![Create(R, 0), Drop(0)], vec![Create(S, 0), IsConn(0), Drop(0)], vec![Force(R)]]);
    // a dead sender / receiver cleaned up by two racing cleaners, then re-created
    v.push(vec![vec![Create(S, 0), Leak(0), Force(S), Create(S, 0)], vec![Force(S)]]);
    v.push(vec![vec![Create(R, 0), Leak(0), Force(R), Create(R, 0)], vec![Force(R), Create(S, 0)]]);
    v.push(vec![vec![Create(S, 0), Leak(0), Create(S, 0)], vec![Force(S)], vec![Force(S)]]);
    v.push(vec![vec![Create(S, 0), Leak(0)], vec![Create(R, 0), Drop(0), Create(R, 0)], vec![Force(S)]]);
    // three threads
    let small: Vec<Vec<Op>> = vec![vec![Create(S, 0)], vec![Create(R, 0)], vec![Create(S, 0), Drop(0)], vec![Create(R, 0), Drop(0)], vec![Force(S)], vec![Create(R, 3)]];
    for i in 0..small.len() { for j in i..small.len() { for k in j..small.len() { v.push(vec![small[i].clone(), small[j].clone(), small[k].clone()]); } } }
    v
}

fn random_prog(rng: &mut Rng) -> Vec<Vec<Op>> {
    let nt = 2 + rng.below(2) as usize;
    (0..nt).map(|_| {
        let len = 1 + rng.below(5) as usize;
        let mut ops: Vec<Op> = Vec::new();
        for k in 0..len {
            let creates: Vec<usize> = (0..k).filter(|&i| matches!(ops[i], Op::Create(..))).collect();
            let role = if rng.below(2) == 0 { Role::S } else { Role::R };
            let o = match rng.below(10) {
                0..=3 => Op::Create(role, if rng.below(4) == 0 { 1 + rng.below(7) as usize } else { 0 }),
                4..=6 if !creates.is_empty() => Op::Drop(creates[rng.below(creates.len() as u64) as usize]),
                7 if !creates.is_empty() => Op::IsConn(creates[rng.below(creates.len() as u64) as usize]),
                8 if !creates.is_empty() => Op::Leak(creates[rng.below(creates.len() as u64) as usize]),
                9 => Op::Force(role),
                _ => Op::Create(role, 0),
            };
            ops.push(o);
        }
        ops
    }).collect()
}

/// all sequential histories of length exactly n over the op alphabet (d/l/ic refer to earlier creates)
fn seq_histories(n: usize, mism: &[usize]) -> Vec<Vec<Op>> {
    let mut cur: Vec<Vec<Op>> = vec![vec![]];
    for _ in 0..n {
        let mut next = Vec::new();
        for h in &cur {
            let creates: Vec<usize> = (0..h.len()).filter(|&i| matches!(h[i], Op::Create(..))).collect();
            let mut alpha = vec![Op::Create(Role::S, 0), Op::Create(Role::R, 0), Op::Force(Role::S), Op::Force(Role::R)];
            for &m in mism { alpha.push(Op::Create(Role::S, m)); alpha.push(Op::Create(Role::R, m)); }
            for &c in &creates {
                // a port can be dropped / leaked / queried only while the slot may still hold it
                let used = h.iter().any(|o| matches!(o, Op::Drop(j) | Op::Leak(j) if *j == c));
                if !used { alpha.push(Op::Drop(c)); alpha.push(Op::Leak(c)); alpha.push(Op::IsConn(c)); }
            }
            for o in alpha { let mut x = h.clone(); x.push(o); next.push(x); }
        }
        cur = next;
    }
    cur
}

fn main() {
    if std::env::var("VERIF_PANIC_VERBOSE").is_err() { std::panic::set_hook(Box::new(|_| {})); }
    iceoryx2_log::set_log_level(iceoryx2_log::LogLevel::Fatal);
    let a: Vec<String> = std::env::args().collect();
    let stdout = std::io::stdout();
    let mut out = std::io::BufWriter::with_capacity(1 << 20, stdout.lock());
    install_filtered(filter_discover);
    let _ = PlConn::does_exist(&fresh_name());
    if a[1] != "posix" { discover(); }
    match a[1].as_str() {
        "exh" => {
            let bound: usize = a[2].parse().unwrap(); let shard: usize = a[3].parse().unwrap(); let nsh: usize = a[4].parse().unwrap();
            let maxexecs: usize = a.get(6).map(|s| s.parse().unwrap()).unwrap_or(100000);
            for (i, prog) in programs().into_iter().enumerate() {
                if i % nsh != shard { continue; }
                let cur: std::cell::RefCell<Option<FileName>> = std::cell::RefCell::new(None);
                let mut mk = || { let name = fresh_name(); let b = bodies_pl(&name, &prog); *cur.borrow_mut() = Some(name); b };
                let outcell = std::cell::RefCell::new(&mut out);
                let mut visit = |ex: &Exec| { let name = cur.borrow().unwrap(); let e = finish_pl(&name); emit(&prog, ex, e, &mut **outcell.borrow_mut()); };
                explore(bound, maxexecs, &mut mk, &mut visit);
            }
        }
        "exhp" => {
            let bound: usize = a[2].parse().unwrap(); let maxexecs: usize = a[3].parse().unwrap();
            let prog = parse_prog(&a[4]);
            let cur: std::cell::RefCell<Option<FileName>> = std::cell::RefCell::new(None);
            let mut mk = || { let name = fresh_name(); let b = bodies_pl(&name, &prog); *cur.borrow_mut() = Some(name); b };
            let outcell = std::cell::RefCell::new(&mut out);
            let mut visit = |ex: &Exec| { let name = cur.borrow().unwrap(); let e = finish_pl(&name); emit(&prog, ex, e, &mut **outcell.borrow_mut()); };
            explore(bound, maxexecs, &mut mk, &mut visit);
        }
        "rnd" => {
            let count: u64 = a[2].parse().unwrap(); let shard: u64 = a[3].parse().unwrap(); let nsh: u64 = a[4].parse().unwrap(); let seed: u64 = a[5].parse().unwrap();
            for n in 0..count {
                if n % nsh != shard { continue; }
                let mut rng = Rng(seed ^ n.wrapping_mul(0x2545F4914F6CDD1D));
                let prog = random_prog(&mut rng);
                let name = fresh_name();
                let ex = run_random(rng.next(), bodies_pl(&name, &prog));
                let e = finish_pl(&name);
                emit(&prog, &ex, e, &mut out);
            }
        }
        "seq" => {
            let maxlen: usize = a[2].parse().unwrap(); let shard: usize = a[3].parse().unwrap(); let nsh: usize = a[4].parse().unwrap();
            let mut n = 0usize;
            set_filter(filter_pl_seq);
            for len in 1..=maxlen {
                // all six mismatch kinds (+ the equal-completion-queue variant) up to length 3, one representative beyond
                let mism: Vec<usize> = if len <= 2 { (1..=7).collect() } else { vec![1 + (len % 6)] };
                for h in seq_histories(len, &mism) {
                    n += 1;
                    if n % nsh != shard { continue; }
                    let prog = vec![h];
                    let name = fresh_name();
                    let b: Box<dyn FnOnce()> = bodies_pl(&name, &prog).pop().unwrap();
                    let ex = run_inline(b);
                    let e = finish_pl(&name);
                    emit(&prog, &ex, e, &mut out);
                }
            }
        }
        "one" => {
            let prog = parse_prog(&a[2]);
            let sch: Vec<usize> = a[3].split(',').filter(|s| !s.is_empty()).map(|s| s.parse().unwrap()).collect();
            let name = fresh_name();
            let mut chooser = |step: usize, enabled: &[usize], last: Option<usize>| -> Choice {
                if step < sch.len() && enabled.contains(&sch[step]) { Choice::Run(sch[step]) }
                else { match last { Some(l) if enabled.contains(&l) => Choice::Run(l), _ => Choice::Run(enabled[0]) } }
            };
            let ex = run_threads(bodies_pl(&name, &prog), &mut chooser);
            let e = finish_pl(&name);
            emit(&prog, &ex, e, &mut out);
        }
        "posixseq" => {
            // all sequential histories up to maxlen on posix_shared_memory storage: observations only
            // (results, does_exist after every op, is_connected, final does_exist) for the property oracle
            fn filter_none(_a: &Access) -> u8 { FILTER_SKIP }
            set_filter(filter_none);
            let maxlen: usize = a[2].parse().unwrap(); let shard: usize = a[3].parse().unwrap(); let nsh: usize = a[4].parse().unwrap();
            let cfg: <ShmConn as NamedConceptMgmt>::Configuration = Default::default();
            let mut n = 0usize;
            for len in 1..=maxlen {
                let mism: Vec<usize> = if len <= 2 { vec![1, 3] } else { vec![] };
                for h in seq_histories(len, &mism) {
                    n += 1;
                    if n % nsh != shard { continue; }
                    let prog = vec![h];
                    let name = fresh_name();
                    let b: Box<dyn FnOnce()> = body::<ShmConn>(name, cfg.clone(), prog[0].clone(), true);
                    let ex = run_inline(b);
                    let e = ShmConn::does_exist_cfg(&name, &cfg).unwrap_or(false);
                    let _ = unsafe { ShmConn::remove_cfg(&name, &cfg) };
                    emit(&prog, &ex, e, &mut out);
                }
            }
        }
        "posix" => {
            // replay on the inter-process storage: gates = op start, state byte, SharedMemory::has_ownership;
            // open_or_create runs inside the step of the op-start gate, shm_unlink inside the step of the
            // has_ownership load of SharedMemory::drop.  Prints observations, not a model trace.
            set_filter(filter_shm);
            let prog = parse_prog(&a[2]);
            let sch: Vec<usize> = a[3].split(',').filter(|s| !s.is_empty()).map(|s| s.parse().unwrap()).collect();
            let name = fresh_name();
            let mut chooser = |step: usize, enabled: &[usize], last: Option<usize>| -> Choice {
                if step < sch.len() && enabled.contains(&sch[step]) { Choice::Run(sch[step]) }
                else { match last { Some(l) if enabled.contains(&l) => Choice::Run(l), _ => Choice::Run(enabled[0]) } }
            };
            let cfg: <ShmConn as NamedConceptMgmt>::Configuration = Default::default();
            let bodies: Vec<Body> = prog.iter().map(|ops| body::<ShmConn>(name, cfg.clone(), ops.clone(), true)).collect();
            let shm_files = |tag: &str, out: &mut dyn Write| {
                let mut v: Vec<String> = std::fs::read_dir("/dev/shm").map(|d| d.filter_map(|e| e.ok()).map(|e| e.file_name().to_string_lossy().to_string())
                    .filter(|f| f.contains(&name.to_string())).collect()).unwrap_or_default();
                v.sort();
                let _ = writeln!(out, "SHM {} name={} files={:?}", tag, name, v);
            };
            shm_files("before", &mut out);
            let ex = run_threads(bodies, &mut chooser);
            for r in &ex.log {
                match r {
                    Rec::Acc { tid, file, line, kind, rd, wr, ok, .. } =>
                        { let _ = writeln!(out, "E {} {}:{} {} rd={} wr={} ok={}", tid, file.rsplit('/').next().unwrap_or(file), line, kind_name(*kind), rd, wr, *ok as u8); }
                    Rec::Ret { tid, code } =>
                        { if *code >= LEAK && *code != u64::MAX { let _ = writeln!(out, "L {} port-of-op{} leaked", tid, code - LEAK); } else if *code >= BEGIN && *code != u64::MAX { let _ = writeln!(out, "B {} op{}", tid, code - BEGIN); } else { let _ = writeln!(out, "R {} result={} does_exist={}", tid, code / 2, code & 1); } }
                }
            }
            let _ = writeln!(out, "S {}", ex.choices.iter().map(|c| c.to_string()).collect::<Vec<_>>().join(","));
            shm_files("after-all-threads-finished(ports still held are leaked, not dropped)", &mut out);
            let e = ShmConn::does_exist_cfg(&name, &cfg).unwrap_or(false);
            let _ = writeln!(out, "F does_exist={}", e as u8);
            let _ = unsafe { ShmConn::remove_cfg(&name, &cfg) };
        }
        _ => panic!("mode"),
    }
    let _ = out.flush();
}
