//! G1 correspondence harness for C09: runs acquire/release/lock/recover programs on the REAL
//! FixedSizeUniqueIndexSet, StaticRobustUniqueIndexSet and bb-memory PoolAllocator under the
//! baton scheduler and prints every gated access.
//! usage: c09 exh <kind> <bound> <shard> <nshards> <seed> <maxexecs>
//!        c09 exhp <kind> <bound> <cap> <program> <maxexecs>   (all schedules of ONE program)
//!        c09 rnd <kind> <count> <shard> <nshards> <seed>
//!        c09 one <kind> <cap> <program> <schedule>   (replay: program "acq,rel|acq", schedule "0,0,1")
//!        c09 wrap <gated:0|1>                        (F12 witness: 2^16 head updates inside one preemption)
//! kinds: uis | pool | ruis.  Return codes: tag + 8 * payload (see coq/model/UniqueIndexSet.v `rc`).
extern crate iceoryx2_bb_loggers;
use core::alloc::Layout;
use core::ptr::NonNull;
use iceoryx2_bb_elementary::bump_allocator::BumpAllocator;
use iceoryx2_bb_elementary_traits::allocator::{Allocate, Deallocate};
use iceoryx2_bb_lock_free::mpmc::robust_unique_index_set::{OwnerId, StaticRobustUniqueIndexSet};
use iceoryx2_bb_lock_free::mpmc::unique_index_set::FixedSizeUniqueIndexSet;
use iceoryx2_bb_lock_free::mpmc::unique_index_set_enums::{ReleaseMode, ReleaseState, UniqueIndexSetAcquireFailure};
use iceoryx2_bb_memory::pool_allocator::PoolAllocator;
use sched::*;
use std::io::Write;
use std::sync::{Arc, Mutex};

const MAXCAP: usize = 4;

#[derive(Clone, Copy, Debug, PartialEq)]
enum Op { Acq(u64), Rel { lock: bool, front: bool }, Bor, IsL, Rec { d: u64, lock: bool } }

fn op_str(kind: &str, o: &Op) -> String {
    match o {
        Op::Acq(d) => if kind == "ruis" { format!("acq{}", d) } else { "acq".into() },
        Op::Rel { lock, front } => format!("{}rel{}", if *lock { "l" } else { "" }, if *front { "f" } else { "" }),
        Op::Bor => "bor".into(), Op::IsL => "isl".into(),
        Op::Rec { d, lock } => format!("{}rec{}", if *lock { "l" } else { "" }, d),
    }
}
fn parse_op(s: &str) -> Op {
    match s {
        "rel" => Op::Rel { lock: false, front: false }, "relf" => Op::Rel { lock: false, front: true },
        "lrel" => Op::Rel { lock: true, front: false }, "lrelf" => Op::Rel { lock: true, front: true },
        "bor" => Op::Bor, "isl" => Op::IsL, "acq" => Op::Acq(0),
        _ if s.starts_with("acq") => Op::Acq(s[3..].parse().unwrap()),
        _ if s.starts_with("lrec") => Op::Rec { d: s[4..].parse().unwrap(), lock: true },
        _ if s.starts_with("rec") => Op::Rec { d: s[3..].parse().unwrap(), lock: false },
        _ => panic!("bad op {}", s),
    }
}
fn prog_str(kind: &str, p: &[Vec<Op>]) -> String {
    p.iter().map(|t| t.iter().map(|o| op_str(kind, o)).collect::<Vec<_>>().join(",")).collect::<Vec<_>>().join("|")
}
fn rc(tag: u64, payload: u64) -> u64 { tag + 8 * payload }
fn mode(lock: bool) -> ReleaseMode { if lock { ReleaseMode::LockIfLastIndex } else { ReleaseMode::Default } }

type Body = Box<dyn FnOnce() + Send>;

/// bucket layouts of the pool instances, by capacity: (size, align, offset of the block start
/// inside a 64-aligned arena, extra bytes after the last bucket)
fn pool_geometry(cap: usize) -> (usize, usize, usize, usize) {
    match cap { 1 => (5, 4, 3, 2), 2 => (16, 8, 0, 7), 3 => (24, 16, 8, 0), _ => (1, 1, 1, 0) }
}
fn aligned(x: usize, a: usize) -> usize { (x + a - 1) / a * a }

struct PoolSut {
    p: Box<PoolAllocator>,
    _arena: Vec<u64>, _mgmt: Vec<u32>,
    block: usize, size: usize, stride: usize, start: usize, lay: Layout,
}
unsafe impl Send for PoolSut {}
unsafe impl Sync for PoolSut {}

enum Sut { Uis(Arc<FixedSizeUniqueIndexSet<MAXCAP>>), Ruis(Arc<StaticRobustUniqueIndexSet<MAXCAP>>), Pool(Arc<PoolSut>) }

fn make(kind: &str, cap: usize) -> Sut {
    match kind {
        "uis" => Sut::Uis(Arc::new(FixedSizeUniqueIndexSet::<MAXCAP>::new_with_reduced_capacity(cap).unwrap())),
        "ruis" => Sut::Ruis(Arc::new(StaticRobustUniqueIndexSet::<MAXCAP>::new_with_reduced_capacity(cap).unwrap())),
        "pool" => {
            let (bs, ba, off, extra) = pool_geometry(cap);
            let stride = aligned(bs, ba);
            let mut arena = vec![0u64; 64];
            let base = aligned(arena.as_mut_ptr() as usize, 64);
            let block = base + off;
            let start = aligned(block, ba);
            let size = (start - block) + cap * stride + extra.min(stride - 1);
            let mut mgmt = vec![0u32; 64];
            let bump = BumpAllocator::new(NonNull::new(mgmt.as_mut_ptr() as *mut u8).unwrap(), mgmt.len() * 4);
            let lay = Layout::from_size_align(bs, ba).unwrap();
            // the index set holds a self-relative pointer: box before init
            let mut p = Box::new(unsafe { PoolAllocator::new_uninit(lay, NonNull::new(block as *mut u8).unwrap(), size) });
            unsafe { p.init(&bump).unwrap() };
            assert_eq!(p.number_of_buckets() as usize, cap, "pool geometry");
            assert_eq!(p.start_address() as usize, start);
            assert_eq!(p.bucket_size(), stride);
            Sut::Pool(Arc::new(PoolSut { p, _arena: arena, _mgmt: mgmt, block, size, stride, start, lay }))
        }
        _ => panic!("kind"),
    }
}

/// index of a bucket address if it lies on the bucket grid, inside the block the allocator was
/// given and aligned; otherwise a code the model never produces
fn pool_code(s: &PoolSut, addr: usize) -> (u64, Option<u32>) {
    let off = addr.wrapping_sub(s.start);
    if addr >= s.block && addr >= s.start && off % s.stride == 0 && addr + s.stride <= s.block + s.size && addr % s.lay.align() == 0 {
        (rc(1, (off / s.stride) as u64), Some((off / s.stride) as u32))
    } else { (rc(6, off as u64), None) }
}

fn bodies(sut: &Sut, prog: &[Vec<Op>]) -> Vec<Body> {
    let mut v: Vec<Body> = Vec::new();
    for ops in prog {
        let ops = ops.clone();
        match sut {
            Sut::Uis(a) => {
                let s = a.clone();
                v.push(Box::new(move || {
                    let mut held: Vec<u32> = Vec::new();
                    for op in ops {
                        match op {
                            Op::Acq(_) => match unsafe { s.acquire_raw_index() } {
                                Ok(i) => { held.push(i); ret(rc(1, i as u64)); }
                                Err(UniqueIndexSetAcquireFailure::OutOfIndices) => ret(rc(0, 0)),
                                Err(UniqueIndexSetAcquireFailure::IsLocked) => ret(rc(0, 1)),
                            },
                            Op::Rel { lock, front } => if !held.is_empty() {
                                let i = if front { held.remove(0) } else { held.pop().unwrap() };
                                match unsafe { s.release_raw_index(i, mode(lock)) } { ReleaseState::Unlocked => ret(rc(2, 0)), ReleaseState::Locked => ret(rc(2, 1)) }
                            },
                            Op::Bor => { let b = s.borrowed_indices(); ret(rc(3, b as u64)); }
                            Op::IsL => { let b = s.is_locked(); ret(rc(4, b as u64)); }
                            Op::Rec { .. } => {}
                        }
                    }
                }));
            }
            Sut::Pool(a) => {
                let s = a.clone();
                v.push(Box::new(move || {
                    let mut held: Vec<usize> = Vec::new();
                    for op in ops {
                        match op {
                            Op::Acq(_) => match s.p.allocate(s.lay) {
                                Ok(p) => { let addr = p.as_ptr() as usize; held.push(addr); ret(pool_code(&s, addr).0); }
                                Err(_) => ret(rc(0, 0)),
                            },
                            Op::Rel { front, .. } => if !held.is_empty() {
                                let addr = if front { held.remove(0) } else { held.pop().unwrap() };
                                unsafe { s.p.deallocate(NonNull::new_unchecked(addr as *mut u8), s.lay) };
                                ret(rc(2, 0));
                            },
                            _ => {}
                        }
                    }
                }));
            }
            Sut::Ruis(a) => {
                let s = a.clone();
                v.push(Box::new(move || {
                    let mut held: Vec<(usize, u64)> = Vec::new();
                    for op in ops {
                        match op {
                            Op::Acq(d) => match s.acquire(OwnerId::new(d).unwrap()) {
                                Ok(i) => { held.push((i, d)); ret(rc(1, i as u64)); }
                                Err(UniqueIndexSetAcquireFailure::OutOfIndices) => ret(rc(0, 0)),
                                Err(UniqueIndexSetAcquireFailure::IsLocked) => ret(rc(0, 1)),
                            },
                            Op::Rel { lock, front } => if !held.is_empty() {
                                let (i, d) = if front { held.remove(0) } else { held.pop().unwrap() };
                                match s.release(i, OwnerId::new(d).unwrap(), mode(lock)) {
                                    Ok(ReleaseState::Unlocked) => ret(rc(2, 0)), Ok(ReleaseState::Locked) => ret(rc(2, 1)), Err(_) => ret(rc(2, 2)),
                                }
                            },
                            Op::Bor => { let b = s.borrowed_indices(); ret(rc(3, b as u64)); }
                            Op::IsL => { let b = s.is_locked(); ret(rc(4, b as u64)); }
                            Op::Rec { d, lock } => {
                                let mut mask = 0u64;
                                let want = OwnerId::new(d).unwrap();
                                let st = s.recover(mode(lock), |o, _| o == want, |_, n| { mask |= 1 << n; });
                                ret(rc(5, 2 * mask + if st == ReleaseState::Locked { 1 } else { 0 }));
                            }
                        }
                    }
                }));
            }
        }
    }
    v
}

/// final observation, taken ungated on the main thread after all harness threads are done
fn final_obs(sut: &Sut, cap: usize) -> Vec<String> {
    let mut r = Vec::new();
    match sut {
        Sut::Uis(s) => {
            r.push(s.borrowed_indices().to_string()); r.push((s.is_locked() as u32).to_string());
            for _ in 0..cap + 2 {
                match unsafe { s.acquire_raw_index() } { Ok(i) => r.push(rc(1, i as u64).to_string()), Err(UniqueIndexSetAcquireFailure::OutOfIndices) => { r.push("0".into()); break; } Err(_) => { r.push("8".into()); break; } }
            }
        }
        Sut::Pool(s) => {
            r.push("x".into()); r.push("0".into());
            for _ in 0..cap + 2 {
                match s.p.allocate(s.lay) { Ok(p) => r.push(pool_code(s, p.as_ptr() as usize).0.to_string()), Err(_) => { r.push("0".into()); break; } }
            }
        }
        Sut::Ruis(s) => {
            let locked = s.is_locked();
            r.push((locked as u32).to_string());
            let mut cells = vec![String::from("e"); cap];
            let mut seen = Vec::new();
            let _ = s.recover(ReleaseMode::Default, |o, n| { seen.push((n, o)); false }, |_, _| {});
            for (n, o) in seen { cells[n] = format!("{:?}", o).trim_start_matches("OwnerId(").trim_end_matches(')').to_string(); }
            if !locked { r.extend(cells); }
        }
    }
    r
}

/// the value of the RelocatablePointer distance field (a layout constant of the instance, an
/// input of the model), taken from the first access that loaded it
fn distance_of(ex: &Exec) -> u64 {
    for r in &ex.log { if let Rec::Acc { file, rd, .. } = r { if file.ends_with("relocatable_pointer.rs") { return *rd; } } }
    0
}

/// sched::print_exec minus the loads of the logger's global LOG_LEVEL atomic that `fail!` performs
/// on error paths (iceoryx2-log is built against the same gated atomics; that global is not part
/// of the index-set algorithms and not part of the model)
fn print_exec_filtered(ex: &Exec, out: &mut impl Write) {
    for r in &ex.log {
        match r {
            Rec::Acc { tid, file, line, addr, kind, ord, ord_fail, rd, wr, ok, .. } => {
                if file.ends_with("iceoryx2-log/log/src/lib.rs") { continue; }
                let f = file.rsplit('/').next().unwrap_or(file);
                let _ = writeln!(out, "E {} {}:{} {} {} {} {} {} {} {}", tid, f, line, addr, kind_name(*kind), ord_name(*ord), ord_name(*ord_fail), rd, wr, if *ok { 1 } else { 0 });
            }
            Rec::Ret { tid, code } => { let _ = writeln!(out, "R {} {}", tid, if *code == u64::MAX { "P".to_string() } else { code.to_string() }); }
        }
    }
    if ex.deadlock { let _ = writeln!(out, "X deadlock"); }
}

/// robust set: every successful acquire cell CAS of the execution (EMPTY -> owner) as
/// `thread:cell:number of returns logged before it`; such a cell is taken from that access on, whatever the
/// acquire finally answers (an acquire that then gets IsLocked leaves its cell populated).  "-" if none.
fn reservations_of(ex: &Exec) -> String {
    let is_pop = |r: &Rec| matches!(r, Rec::Acc { file, kind, rd, wr, ok, .. }
        if file.ends_with("robust_unique_index_set.rs") && kind_name(*kind) == "cas" && *ok && *rd == u64::MAX && *wr != u64::MAX);
    let line_of = ex.log.iter().find(|r| is_pop(r)).map(|r| if let Rec::Acc { line, .. } = r { *line } else { 0 });
    let Some(l) = line_of else { return "-".into() };
    // acquire scans from cell 0: the lowest address CASed at that source line is cell 0
    let cell0 = ex.log.iter().filter_map(|r| if let Rec::Acc { file, line, addr, .. } = r { if file.ends_with("robust_unique_index_set.rs") && *line == l { Some(*addr) } else { None } } else { None }).min().unwrap();
    let mut nret = 0usize;
    let mut v = Vec::new();
    for r in &ex.log {
        match r {
            Rec::Ret { .. } => nret += 1,
            Rec::Acc { tid, addr, .. } if is_pop(r) => v.push(format!("{}:{}:{}", tid, (addr - cell0) / 8, nret)),
            _ => {}
        }
    }
    v.join(",")
}

fn emit(kind: &str, cap: usize, prog: &[Vec<Op>], ex: &Exec, sut: &Sut, out: &mut impl Write) {
    let res = if kind == "ruis" { reservations_of(ex) } else { "-".into() };
    let _ = writeln!(out, "C {} {} {} {} {}", kind, cap, prog_str(kind, prog), distance_of(ex), res);
    print_exec_filtered(ex, out);
    let sched: Vec<String> = ex.choices.iter().map(|c| c.to_string()).collect();
    let _ = writeln!(out, "S {}", sched.join(","));
    let _ = writeln!(out, "F {}", final_obs(sut, cap).join(","));
}

fn p(s: &str) -> Vec<Vec<Op>> { s.split('|').map(|t| t.split(',').filter(|x| !x.is_empty()).map(parse_op).collect()).collect() }

/// program templates (<= 3 ops per thread, 2..3 threads), each run for capacities 1..4
fn programs(kind: &str) -> Vec<(usize, Vec<Vec<Op>>)> {
    let t: Vec<&str> = match kind {
        "uis" => vec![
            "acq,rel|acq,rel", "acq,acq,relf|acq,rel,acq", "acq,lrel|acq,lrel", "acq,lrel,acq|acq,acq,isl", "acq,relf,acq|acq,rel,bor",
            "acq,acq,lrelf|acq,isl,lrel", "acq|acq,acq,relf", "acq,rel,acq|acq,acq,rel", "acq,acq,acq|acq,rel,acq", "acq,rel,bor|acq,lrel,acq",
            "acq,rel|acq,rel|acq,rel", "acq|acq,acq,relf|acq,rel", "acq,lrel|acq,rel|acq,bor", "acq,rel,acq|acq,acq,rel|acq", "acq,acq|acq,lrel|isl,acq",
            "acq,relf|acq,acq,rel|acq,lrel,acq",
        ],
        "pool" => vec![
            "acq,rel|acq,rel", "acq,acq,relf|acq,rel,acq", "acq|acq,acq,relf", "acq,rel,acq|acq,acq,rel", "acq,acq,acq|acq,rel,acq",
            "acq,rel|acq,rel|acq,rel", "acq|acq,acq,relf|acq,rel", "acq,rel,acq|acq,acq,rel|acq",
        ],
        "ruis" => vec![
            "acq1,rel|acq2,rel", "acq1,acq1,relf|acq2,rel,acq2", "acq1,lrel|acq2,lrel", "acq1,lrel,acq1|acq2,acq2,isl", "acq1,rel,bor|acq2,bor",
            "acq1,acq1|rec1,acq2", "acq1,rel|lrec1,acq2", "acq1,acq1,rel|rec1,bor", "acq1,lrel|acq2,bor,rel", "acq1,acq1,acq1|acq2,rel,acq2",
            "acq1,rel|acq2,rel|acq3,rel", "acq1,lrel|acq2,rel|bor,acq3", "acq1,acq1|rec1|acq2,rel", "acq1,rel|acq2,lrel|lrec1,isl", "acq1,lrel|acq1,lrel|acq2,acq2",
            "acq1,rel,acq1|acq2,rel|rec1,acq3",
            // a dead owner (thread 0 stops after its acquire) recovered by TWO threads while a live thread acquires:
            // a recoverer stalled between its load of the cell and its CAS must not touch the re-populated cell
            "acq1|rec1|rec1,acq2,rel", "acq1|rec1|rec1|acq2,rel", "acq1,acq1|rec1|rec1,acq2,bor",
        ],
        _ => panic!("kind"),
    };
    let mut v = Vec::new();
    for cap in 1..=MAXCAP { for s in &t { v.push((cap, p(s))); } }
    v
}

fn random_program(kind: &str, rng: &mut Rng) -> (usize, Vec<Vec<Op>>) {
    let cap = 1 + rng.below(MAXCAP as u64) as usize;
    let nt = 2 + rng.below(2) as usize;
    let mut prog = Vec::new();
    for t in 0..nt {
        let len = 2 + rng.below(5) as usize;
        let mut ops = Vec::new();
        for _ in 0..len {
            // robust set: thread t uses owner id t + 1; only the last thread calls recover, and only for
            // owner 1, whose thread (0) never releases: recover on an owner that is still releasing or that
            // is shared between threads is outside recover's contract and outside the oracle
            let d = t as u64 + 1;
            let o = match (kind, rng.below(12)) {
                (_, 0..=4) => Op::Acq(d),
                ("ruis", 5..=7) if t == 0 => if rng.below(2) == 0 { Op::Bor } else { Op::Acq(d) },
                (_, 5) => Op::Rel { lock: false, front: false },
                (_, 6) => Op::Rel { lock: false, front: true },
                ("pool", _) => Op::Rel { lock: false, front: rng.below(2) == 0 },
                (_, 7) => Op::Rel { lock: true, front: rng.below(2) == 0 },
                (_, 8) => Op::Bor,
                (_, 9) => Op::IsL,
                ("ruis", 10) if t == nt - 1 => Op::Rec { d: 1, lock: false },
                ("ruis", 11) if t == nt - 1 => Op::Rec { d: 1, lock: true },
                (_, _) => Op::Rel { lock: false, front: false },
            };
            let o = if kind == "ruis" && t == 0 { match o { Op::Rel { .. } => Op::Acq(d), x => x } } else { o };
            ops.push(o);
        }
        prog.push(ops);
    }
    (cap, prog)
}

/// F12 witness: capacity 3.  Thread 1 acquires index 0.  Thread 0 enters acquire, loads the head
/// word (head 1, aba 1, borrowed 1), reads next[1] = 2 and is preempted before its CAS.  Thread 1
/// acquires 1 and 2, releases 0 and 1, then performs 32766 acquire/release pairs: exactly 2^16
/// successful head updates since thread 0's load, the head word is bit-identical again, but
/// index 2 is owned by thread 1 and next[1] is 0.  Thread 0's CAS succeeds with the stale
/// next = 2; its second acquire hands out index 2 a second time.
fn wrap_witness(gated: bool, out: &mut impl Write) {
    let cap = 3usize;
    let s = Arc::new(FixedSizeUniqueIndexSet::<MAXCAP>::new_with_reduced_capacity(cap).unwrap());
    let results: Arc<Mutex<Vec<(usize, String)>>> = Arc::new(Mutex::new(Vec::new()));
    let pairs = 32766usize;
    let (s0, r0) = (s.clone(), results.clone());
    let t0: Body = Box::new(move || {
        for _ in 0..2 {
            let r = unsafe { s0.acquire_raw_index() };
            match r { Ok(i) => ret(rc(1, i as u64)), Err(UniqueIndexSetAcquireFailure::OutOfIndices) => ret(rc(0, 0)), Err(_) => ret(rc(0, 1)) }
            r0.lock().unwrap().push((0, format!("{:?}", r)));
        }
    });
    let (s1, r1) = (s.clone(), results.clone());
    let t1: Body = Box::new(move || {
        let acq = |held: &mut Vec<u32>| { let i = unsafe { s1.acquire_raw_index() }.unwrap(); held.push(i); ret(rc(1, i as u64)); };
        let mut held = Vec::new();
        acq(&mut held); acq(&mut held); acq(&mut held);
        let i = held.remove(0); unsafe { s1.release_raw_index(i, ReleaseMode::Default) }; ret(rc(2, 0));
        let i = held.remove(0); unsafe { s1.release_raw_index(i, ReleaseMode::Default) }; ret(rc(2, 0));
        let bulk = |held: &mut Vec<u32>| for _ in 0..pairs {
            let i = unsafe { s1.acquire_raw_index() }.unwrap(); held.push(i); ret(rc(1, i as u64));
            let i = held.pop().unwrap(); unsafe { s1.release_raw_index(i, ReleaseMode::Default) }; ret(rc(2, 0));
        };
        if gated { bulk(&mut held) } else { ungated(|| bulk(&mut held)) }
        r1.lock().unwrap().push((1, format!("holds {:?}", held)));
    });
    // schedule: t1 x6 (first acquire), t0 x3 (load head, load distance, read next), t1 to completion, t0 to completion
    let mut chooser = |step: usize, enabled: &[usize], _last: Option<usize>| -> Choice {
        let want = if step < 6 { 1 } else if step < 9 { 0 } else { 1 };
        if enabled.contains(&want) { Choice::Run(want) } else { Choice::Run(enabled[0]) }
    };
    let t = std::time::Instant::now();
    let ex = run_threads(vec![t0, t1], &mut chooser);
    let el = t.elapsed();
    if gated {
        let mut prog1 = vec![Op::Acq(0), Op::Acq(0), Op::Acq(0), Op::Rel { lock: false, front: true }, Op::Rel { lock: false, front: true }];
        for _ in 0..pairs { prog1.push(Op::Acq(0)); prog1.push(Op::Rel { lock: false, front: false }); }
        let prog = vec![vec![Op::Acq(0), Op::Acq(0)], prog1];
        let _ = writeln!(out, "C uis {} {} {}", cap, prog_str("uis", &prog), distance_of(&ex));
        print_exec_filtered(&ex, out);
        let _ = writeln!(out, "F {}", final_obs(&Sut::Uis(s.clone()), cap).join(","));
    }
    let res = results.lock().unwrap();
    let t0_got: Vec<&String> = res.iter().filter(|x| x.0 == 0).map(|x| &x.1).collect();
    let t1_holds: Vec<&String> = res.iter().filter(|x| x.0 == 1).map(|x| &x.1).collect();
    let dup = t0_got.iter().any(|x| x.as_str() == "Ok(2)") && t1_holds.iter().any(|x| x.as_str() == "holds [2]");
    let _ = writeln!(out, "{}WRAP gated={} thread0={:?} thread1={:?} double_owner_of_index_2={} elapsed_ms={}", if gated { "S " } else { "" }, gated, t0_got, t1_holds, dup, el.as_millis());
}

fn main() {
    if std::env::var("VERIF_PANIC_VERBOSE").is_err() { std::panic::set_hook(Box::new(|_| {})); }
    iceoryx2_log::set_log_level(iceoryx2_log::LogLevel::Fatal);
    let a: Vec<String> = std::env::args().collect();
    let stdout = std::io::stdout();
    let mut out = std::io::BufWriter::with_capacity(1 << 20, stdout.lock());
    install();
    match a[1].as_str() {
        "exh" => {
            let kind = a[2].as_str(); let bound: usize = a[3].parse().unwrap();
            let shard: usize = a[4].parse().unwrap(); let nsh: usize = a[5].parse().unwrap();
            let maxexecs: usize = a.get(7).map(|s| s.parse().unwrap()).unwrap_or(100000);
            for (i, (cap, prog)) in programs(kind).into_iter().enumerate() {
                if i % nsh != shard { continue; }
                let cur: std::cell::RefCell<Option<Sut>> = std::cell::RefCell::new(None);
                let mut mk = || { let q = make(kind, cap); let b = bodies(&q, &prog); *cur.borrow_mut() = Some(q); b };
                let outcell = std::cell::RefCell::new(&mut out);
                let mut visit = |ex: &Exec| { let q = cur.borrow(); emit(kind, cap, &prog, ex, q.as_ref().unwrap(), &mut **outcell.borrow_mut()); };
                explore(bound, maxexecs, &mut mk, &mut visit);
            }
        }
        "exhp" => {
            // one program: c09 exhp <kind> <bound> <cap> <program> <maxexecs>
            let kind = a[2].as_str(); let bound: usize = a[3].parse().unwrap(); let cap: usize = a[4].parse().unwrap();
            let prog = p(&a[5]); let maxexecs: usize = a[6].parse().unwrap();
            let cur: std::cell::RefCell<Option<Sut>> = std::cell::RefCell::new(None);
            let mut mk = || { let q = make(kind, cap); let b = bodies(&q, &prog); *cur.borrow_mut() = Some(q); b };
            let outcell = std::cell::RefCell::new(&mut out);
            let mut visit = |ex: &Exec| { let q = cur.borrow(); emit(kind, cap, &prog, ex, q.as_ref().unwrap(), &mut **outcell.borrow_mut()); };
            explore(bound, maxexecs, &mut mk, &mut visit);
        }
        "rnd" => {
            let kind = a[2].as_str(); let count: u64 = a[3].parse().unwrap();
            let shard: u64 = a[4].parse().unwrap(); let nsh: u64 = a[5].parse().unwrap(); let seed: u64 = a[6].parse().unwrap();
            for n in 0..count {
                if n % nsh != shard { continue; }
                let mut rng = Rng(seed ^ n.wrapping_mul(0x2545F4914F6CDD1D));
                let (cap, prog) = random_program(kind, &mut rng);
                let q = make(kind, cap);
                let ex = run_random(rng.next(), bodies(&q, &prog));
                emit(kind, cap, &prog, &ex, &q, &mut out);
            }
        }
        // weak-memory correspondence (UniqueIndexSet only): seeded random programs and schedules with
        // C11-permitted STALE values injected into loads / failed compare-exchanges of the head word
        "ras" => {
            let count: u64 = a[3].parse().unwrap();
            let shard: u64 = a[4].parse().unwrap(); let nsh: u64 = a[5].parse().unwrap(); let seed: u64 = a[6].parse().unwrap();
            let percent: u64 = a.get(7).map(|s| s.parse().unwrap()).unwrap_or(40);
            for n in 0..count {
                if n % nsh != shard { continue; }
                let mut rng = Rng(seed ^ n.wrapping_mul(0x2545F4914F6CDD1D) ^ 0x5157);
                let (cap, prog) = random_program("uis", &mut rng);
                let q = make("uis", cap);
                sched::stale_enable(rng.next(), percent, &["unique_index_set.rs"]);
                let ex = run_random(rng.next(), bodies(&q, &prog));
                let inj = sched::stale_disable();
                let _ = writeln!(out, "C uisra {} {} {}", cap, prog_str("uis", &prog), distance_of(&ex));
                print_exec_filtered(&ex, &mut out);
                let schedv: Vec<String> = ex.choices.iter().map(|c| c.to_string()).collect();
                let _ = writeln!(out, "S {} inj={}", schedv.join(","), inj);
                let _ = writeln!(out, "F {}", final_obs(&q, cap).join(","));
            }
        }
        "one" => {
            let kind = a[2].as_str(); let cap: usize = a[3].parse().unwrap();
            let prog = p(&a[4]);
            let sch: Vec<usize> = a[5].split(',').filter(|s| !s.is_empty()).map(|s| s.parse().unwrap()).collect();
            let q = make(kind, cap);
            let mut chooser = |step: usize, enabled: &[usize], last: Option<usize>| -> Choice {
                if step < sch.len() && enabled.contains(&sch[step]) { Choice::Run(sch[step]) }
                else { match last { Some(l) if enabled.contains(&l) => Choice::Run(l), _ => Choice::Run(enabled[0]) } }
            };
            let ex = run_threads(bodies(&q, &prog), &mut chooser);
            emit(kind, cap, &prog, &ex, &q, &mut out);
        }
        "wrap" => { wrap_witness(a.get(2).map(|s| s == "1").unwrap_or(false), &mut out); }
        _ => panic!("mode"),
    }
    let _ = out.flush();
}
