//! xlate-shm: source -> Coq translator for the table of types iceoryx2 places in shared memory
//! (property C14 "shared-memory data structures are position independent").
//!
//! Reads /repo's CURRENT sources with `syn` and emits, as plain data, one row per
//!   * `#[derive(ZeroCopySend)]` struct / enum / union                         (ODerive),
//!   * `unsafe impl ZeroCopySend for X`                                         (OManualImpl),
//!   * `impl RelocatableContainer for X`                                        (ORelocContainer),
//!   * struct / enum / union named (transitively) by a field of a row           (OAux),
//! with the field-type tree of every field (see /verif/coq/model/ShmTypes.v), and every
//! `impl PointerFamily for F { type Pointer<T> = P<T>; }`.
//!
//! Anything the translator cannot handle in something it must handle is an error naming
//! file:line (exit code 3); it never guesses silently (guesses are reported as XLATE-NOTE).

use std::collections::{BTreeMap, BTreeSet};
use std::fmt::Write as _;
use std::path::{Path, PathBuf};

use proc_macro2::{Delimiter, TokenStream, TokenTree};
use quote::ToTokens;
use syn::spanned::Spanned;

// ------------------------------------------------------------------------------------------
// data
// ------------------------------------------------------------------------------------------
#[derive(Clone, Debug, PartialEq, Eq, PartialOrd, Ord)]
enum Ty {
    Prim(String),
    Param(String),
    Path(String, String, Vec<Ty>),
    Assoc(Box<Ty>, String, Vec<Ty>),
    Array(Box<Ty>, String),
    Slice(Box<Ty>),
    Tuple(Vec<Ty>),
    Ptr(bool, Box<Ty>),
    Ref(bool, Box<Ty>),
    Fn(String),
    Other(String),
}

#[derive(Clone, Copy, Debug, PartialEq, Eq, PartialOrd, Ord)]
enum Origin {
    Derive,
    ManualImpl,
    RelocContainer,
    Aux,
}

impl Origin {
    fn name(self) -> &'static str {
        match self {
            Origin::Derive => "ODerive",
            Origin::ManualImpl => "OManualImpl",
            Origin::RelocContainer => "ORelocContainer",
            Origin::Aux => "OAux",
        }
    }
}

const PRIMS: &[&str] = &["u8", "u16", "u32", "u64", "u128", "i8", "i16", "i32", "i64", "i128", "usize", "isize", "f32", "f64", "bool", "char", "str"];
const EXTERNAL_ROOTS: &[&str] = &["core", "alloc", "std", "libc"];

#[derive(Clone, Debug, Default)]
struct Scope {
    krate: String,
    modpath: Vec<String>,
    named: Vec<(String, Vec<String>)>, // local name -> path as written in the `use`
    globs: Vec<Vec<String>>,
}

#[derive(Clone, Default)]
struct GenInfo {
    tparams: Vec<(String, bool, Option<syn::Type>)>, // name, bounded by ZeroCopySend, default
    cparams: Vec<String>,
    order: Vec<bool>, // the non-lifetime parameters in order: true = type parameter
}

impl GenInfo {
    fn tnames(&self) -> Vec<String> {
        self.tparams.iter().map(|p| p.0.clone()).collect()
    }
}

#[derive(Clone)]
struct Def {
    short: String,
    qual: String,
    scope: usize,
    file: String,
    line: usize,
    gen: GenInfo,
    fields: Vec<(String, syn::Type)>,
    derive_zcs: bool,
}

#[derive(Clone)]
struct Alias {
    qual: String,
    scope: usize,
    file: String,
    line: usize,
    gen: GenInfo,
    ty: syn::Type,
}

#[derive(Clone)]
struct ImplRec {
    zcs: bool, // true: ZeroCopySend, false: RelocatableContainer
    scope: usize,
    file: String,
    line: usize,
    generics: syn::Generics,
    self_ty: syn::Type,
}

#[derive(Clone)]
struct MacroDef {
    name: String,
    scope: usize,
    file: String,
    line: usize,
    tokens: TokenStream,
}

#[derive(Clone)]
struct Invocation {
    name: String,
    scope: usize,
    file: String,
    line: usize,
    tokens: TokenStream,
}

#[derive(Clone, Copy, Debug, PartialEq, Eq)]
enum Item {
    D(usize),
    A(usize),
}

enum Lk {
    None,
    External,
    One(Item),
    Many(Vec<Item>),
}

#[derive(Clone, Debug)]
struct Row {
    qual: String,
    short: String,
    origins: BTreeSet<Origin>,
    wher: String,
    params: Vec<(String, bool)>,
    prio: u8, // which origin the bools in `params` come from
    fields: Vec<(String, Ty, String)>,
}

struct Ctx {
    scope: usize,
    tparams: Vec<String>,
    cparams: Vec<String>,
    self_ty: Option<Ty>,
    at: String,
    depth: usize,
}

#[derive(Default)]
struct World {
    scopes: Vec<Scope>,
    defs: Vec<Def>,
    aliases: Vec<Alias>,
    impls: Vec<ImplRec>,
    families: BTreeSet<(String, String)>,
    macros: Vec<MacroDef>,
    invocations: Vec<Invocation>,
    consts: BTreeSet<String>,
    modules: BTreeSet<String>,
    scope_by_mod: BTreeMap<String, usize>,
    item_quals: BTreeSet<String>,
    crates: BTreeSet<String>,
    by_short: BTreeMap<String, Vec<Item>>,
    meta_kinds: BTreeMap<String, String>, // __M_x -> fragment kind
    field_cache: BTreeMap<usize, Vec<(String, Ty, String)>>,
    leaf_impls: Vec<String>,
    macro_instances: Vec<(usize, String, String, String, usize)>, // macro def, qual, short, file, line of the invocation
    notes: Vec<String>,
    errors: Vec<String>,
    files: usize,
}

fn line_of<T: Spanned>(t: &T) -> usize {
    t.span().start().line
}

/// Source text of a syntax node with the token-stream spacing tidied up.
fn src<T: ToTokens>(t: &T) -> String {
    tidy(&t.to_token_stream().to_string()).replace("__M_", "$")
}

fn tidy(s: &str) -> String {
    let cs: Vec<char> = s.chars().collect();
    let word = |c: char| c.is_alphanumeric() || c == '_';
    let mut o = String::new();
    for (i, &c) in cs.iter().enumerate() {
        if c == ' ' {
            let prev = if i > 0 { cs[i - 1] } else { ' ' };
            let next = cs.get(i + 1).copied().unwrap_or(' ');
            if !(word(prev) && (word(next) || next == '\'')) {
                continue;
            }
        }
        o.push(c);
        if c == ',' || c == ';' {
            o.push(' ');
        }
    }
    o.trim().to_string()
}

fn nospace(s: &str) -> String {
    s.chars().filter(|c| !c.is_whitespace()).collect()
}

// ------------------------------------------------------------------------------------------
// attributes, generics, fields
// ------------------------------------------------------------------------------------------
fn has_test(ts: TokenStream) -> bool {
    let v: Vec<TokenTree> = ts.into_iter().collect();
    let mut i = 0;
    while i < v.len() {
        match &v[i] {
            TokenTree::Ident(id) if id == "test" => return true,
            TokenTree::Ident(id) if id == "not" => {
                i += 2; // `not ( .. )`: a negated `test` does not make the item test-only
                continue;
            }
            TokenTree::Group(g) => {
                if has_test(g.stream()) {
                    return true;
                }
            }
            _ => {}
        }
        i += 1;
    }
    false
}

fn is_cfg_test(attrs: &[syn::Attribute]) -> bool {
    attrs.iter().any(|a| {
        a.path().is_ident("cfg")
            && match &a.meta {
                syn::Meta::List(l) => has_test(l.tokens.clone()),
                _ => false,
            }
    })
}

fn mentions_zcs(ts: TokenStream) -> bool {
    ts.into_iter().any(|t| match t {
        TokenTree::Ident(i) => i == "ZeroCopySend",
        TokenTree::Group(g) => mentions_zcs(g.stream()),
        _ => false,
    })
}

/// `#[derive(.. ZeroCopySend ..)]`; a conditional `#[cfg_attr(c, derive(.. ZeroCopySend ..))]` counts too.
fn derives_zcs(attrs: &[syn::Attribute]) -> bool {
    attrs.iter().any(|a| {
        if a.path().is_ident("cfg_attr") {
            return matches!(&a.meta, syn::Meta::List(l) if mentions_zcs(l.tokens.clone()));
        }
        a.path().is_ident("derive")
            && a.parse_args_with(syn::punctuated::Punctuated::<syn::Path, syn::Token![,]>::parse_terminated)
                .map(|ps| ps.iter().any(|p| p.segments.last().map(|s| s.ident == "ZeroCopySend").unwrap_or(false)))
                .unwrap_or(false)
    })
}

fn has_zcs_bound<'a>(bounds: impl Iterator<Item = &'a syn::TypeParamBound>) -> bool {
    for b in bounds {
        if let syn::TypeParamBound::Trait(t) = b {
            if t.path.segments.last().map(|s| s.ident == "ZeroCopySend").unwrap_or(false) {
                return true;
            }
        }
    }
    false
}

fn gen_info(g: &syn::Generics) -> GenInfo {
    let mut gi = GenInfo::default();
    for p in &g.params {
        match p {
            syn::GenericParam::Type(t) => {
                gi.tparams.push((t.ident.to_string(), has_zcs_bound(t.bounds.iter()), t.default.clone()));
                gi.order.push(true);
            }
            syn::GenericParam::Const(c) => {
                gi.cparams.push(c.ident.to_string());
                gi.order.push(false);
            }
            syn::GenericParam::Lifetime(_) => {}
        }
    }
    if let Some(w) = &g.where_clause {
        for pred in &w.predicates {
            if let syn::WherePredicate::Type(pt) = pred {
                if let syn::Type::Path(tp) = &pt.bounded_ty {
                    if let Some(id) = tp.path.get_ident() {
                        if has_zcs_bound(pt.bounds.iter()) {
                            for tpm in gi.tparams.iter_mut().filter(|t| id == &t.0) {
                                tpm.1 = true;
                            }
                        }
                    }
                }
            }
        }
    }
    gi
}

fn fields_of(fields: &syn::Fields, prefix: &str, out: &mut Vec<(String, syn::Type)>) {
    for (i, f) in fields.iter().enumerate() {
        let n = match &f.ident {
            Some(id) => id.to_string(),
            None => i.to_string(),
        };
        out.push((format!("{}{}", prefix, n), f.ty.clone()));
    }
}

fn data_fields(d: &syn::Data) -> Vec<(String, syn::Type)> {
    let mut out = Vec::new();
    match d {
        syn::Data::Struct(s) => fields_of(&s.fields, "", &mut out),
        syn::Data::Enum(e) => {
            for v in &e.variants {
                fields_of(&v.fields, &format!("{}.", v.ident), &mut out);
            }
        }
        syn::Data::Union(u) => {
            for f in &u.fields.named {
                out.push((f.ident.as_ref().map(|i| i.to_string()).unwrap_or_default(), f.ty.clone()));
            }
        }
    }
    out
}

// ------------------------------------------------------------------------------------------
// use tables
// ------------------------------------------------------------------------------------------
fn flatten_use(tree: &syn::UseTree, prefix: &mut Vec<String>, out: &mut Scope) {
    match tree {
        syn::UseTree::Path(p) => {
            prefix.push(p.ident.to_string());
            flatten_use(&p.tree, prefix, out);
            prefix.pop();
        }
        syn::UseTree::Name(n) => {
            let id = n.ident.to_string();
            if id == "self" {
                if let Some(last) = prefix.last() {
                    out.named.push((last.clone(), prefix.clone()));
                }
            } else {
                let mut p = prefix.clone();
                p.push(id.clone());
                out.named.push((id, p));
            }
        }
        syn::UseTree::Rename(r) => {
            let mut p = prefix.clone();
            if r.ident != "self" {
                p.push(r.ident.to_string());
            }
            out.named.push((r.rename.to_string(), p));
        }
        syn::UseTree::Glob(_) => out.globs.push(prefix.clone()),
        syn::UseTree::Group(g) => {
            for t in &g.items {
                flatten_use(t, prefix, out);
            }
        }
    }
}

// ------------------------------------------------------------------------------------------
// scanning
// ------------------------------------------------------------------------------------------
fn crate_name_of(dir: &Path) -> Option<String> {
    let txt = std::fs::read_to_string(dir.join("Cargo.toml")).ok()?;
    let mut in_pkg = false;
    for l in txt.lines() {
        let l = l.trim();
        if l.starts_with('[') {
            in_pkg = l == "[package]";
        } else if in_pkg && l.starts_with("name") {
            let v = l.split('=').nth(1)?.trim().trim_matches('"');
            return Some(v.replace('-', "_"));
        }
    }
    None
}

const SKIP_DIRS: &[&str] = &["tests", "tests-common", "conformance-tests", "benches", "examples"];

fn rs_files(dir: &Path, out: &mut Vec<PathBuf>) {
    let mut ents: Vec<PathBuf> = match std::fs::read_dir(dir) {
        Ok(r) => r.filter_map(|e| e.ok()).map(|e| e.path()).collect(),
        Err(_) => return,
    };
    ents.sort();
    for p in ents {
        if p.is_dir() {
            let n = p.file_name().map(|n| n.to_string_lossy().to_string()).unwrap_or_default();
            if !SKIP_DIRS.contains(&n.as_str()) {
                rs_files(&p, out);
            }
        } else if p.extension().map(|e| e == "rs").unwrap_or(false) {
            out.push(p);
        }
    }
}

/// Finds shared-memory types declared inside function bodies (not tabled, only reported).
struct LocalFinder {
    found: Vec<(usize, String)>,
}

impl<'ast> syn::visit::Visit<'ast> for LocalFinder {
    fn visit_item_struct(&mut self, i: &'ast syn::ItemStruct) {
        if derives_zcs(&i.attrs) {
            self.found.push((line_of(&i.ident), format!("#[derive(ZeroCopySend)] struct {}", i.ident)));
        }
    }
    fn visit_item_enum(&mut self, i: &'ast syn::ItemEnum) {
        if derives_zcs(&i.attrs) {
            self.found.push((line_of(&i.ident), format!("#[derive(ZeroCopySend)] enum {}", i.ident)));
        }
    }
    fn visit_item_union(&mut self, i: &'ast syn::ItemUnion) {
        if derives_zcs(&i.attrs) {
            self.found.push((line_of(&i.ident), format!("#[derive(ZeroCopySend)] union {}", i.ident)));
        }
    }
    fn visit_item_impl(&mut self, i: &'ast syn::ItemImpl) {
        if let Some((_, tr, _)) = &i.trait_ {
            let n = tr.segments.last().map(|s| s.ident.to_string()).unwrap_or_default();
            if n == "ZeroCopySend" || n == "RelocatableContainer" {
                self.found.push((line_of(&i.self_ty), format!("impl {} for {}", n, src(&i.self_ty))));
            }
        }
        syn::visit::visit_item_impl(self, i);
    }
}

impl World {
    fn note(&mut self, s: String) {
        if !self.notes.contains(&s) {
            self.notes.push(s);
        }
    }

    fn err(&mut self, at: &str, s: String) {
        let m = format!("{} {}", at, s);
        if !self.errors.contains(&m) {
            self.errors.push(m);
        }
    }

    fn modstr(&self, scope: usize) -> String {
        let s = &self.scopes[scope];
        let mut v = vec![s.krate.clone()];
        v.extend(s.modpath.iter().cloned());
        v.join("::")
    }

    fn new_scope(&mut self, krate: &str, modpath: &[String]) -> usize {
        self.scopes.push(Scope { krate: krate.to_string(), modpath: modpath.to_vec(), ..Default::default() });
        let i = self.scopes.len() - 1;
        let m = self.modstr(i);
        self.modules.insert(m.clone());
        self.scope_by_mod.entry(m).or_insert(i);
        i
    }

    fn add_def(&mut self, di: &syn::DeriveInput, scope: usize, file: &str, in_macro: Option<&str>) {
        let short = di.ident.to_string();
        let qual = match in_macro {
            Some(m) => format!("{}::{}!::{}", self.modstr(scope), m, short),
            None => format!("{}::{}", self.modstr(scope), short),
        };
        let d = Def {
            short: short.clone(),
            qual: qual.clone(),
            scope,
            file: file.to_string(),
            line: line_of(&di.ident),
            gen: gen_info(&di.generics),
            fields: data_fields(&di.data),
            derive_zcs: derives_zcs(&di.attrs),
        };
        self.defs.push(d);
        if in_macro.is_none() {
            self.item_quals.insert(qual);
            self.by_short.entry(short).or_default().push(Item::D(self.defs.len() - 1));
        }
    }

    fn local_items(&mut self, block: &syn::Block, file: &str) {
        let mut lf = LocalFinder { found: vec![] };
        syn::visit::Visit::visit_block(&mut lf, block);
        for (l, t) in lf.found {
            self.note(format!("{}:{} `{}` is declared inside a function body: not tabled", file, l, t));
        }
    }

    fn walk(&mut self, items: &[syn::Item], scope: usize, file: &str) {
        for it in items {
            if let syn::Item::Use(u) = it {
                if !is_cfg_test(&u.attrs) {
                    let mut sc = std::mem::take(&mut self.scopes[scope]);
                    flatten_use(&u.tree, &mut Vec::new(), &mut sc);
                    self.scopes[scope] = sc;
                }
            }
        }
        for it in items {
            match it {
                syn::Item::Struct(syn::ItemStruct { attrs, .. }) | syn::Item::Enum(syn::ItemEnum { attrs, .. }) | syn::Item::Union(syn::ItemUnion { attrs, .. }) => {
                    if is_cfg_test(attrs) {
                        continue;
                    }
                    match syn::parse2::<syn::DeriveInput>(it.to_token_stream()) {
                        Ok(di) => self.add_def(&di, scope, file, None),
                        Err(e) => self.err(&format!("{}:{}", file, line_of(it)), format!("cannot re-parse type definition: {}", e)),
                    }
                }
                syn::Item::Type(t) => {
                    if is_cfg_test(&t.attrs) {
                        continue;
                    }
                    let short = t.ident.to_string();
                    let qual = format!("{}::{}", self.modstr(scope), short);
                    self.aliases.push(Alias { qual: qual.clone(), scope, file: file.to_string(), line: line_of(&t.ident), gen: gen_info(&t.generics), ty: (*t.ty).clone() });
                    self.item_quals.insert(qual);
                    self.by_short.entry(short).or_default().push(Item::A(self.aliases.len() - 1));
                }
                syn::Item::Const(c) => {
                    self.consts.insert(c.ident.to_string());
                    let mut lf = LocalFinder { found: vec![] };
                    syn::visit::Visit::visit_expr(&mut lf, &c.expr);
                    for (l, t) in lf.found {
                        self.note(format!("{}:{} `{}` is declared inside a const initializer: not tabled", file, l, t));
                    }
                }
                syn::Item::Impl(im) => {
                    if is_cfg_test(&im.attrs) {
                        continue;
                    }
                    for ii in &im.items {
                        match ii {
                            syn::ImplItem::Fn(f) => self.local_items(&f.block, file),
                            syn::ImplItem::Const(c) => {
                                self.consts.insert(c.ident.to_string());
                            }
                            _ => {}
                        }
                    }
                    let Some((neg, tr, _)) = &im.trait_ else { continue };
                    let trname = tr.segments.last().map(|s| s.ident.to_string()).unwrap_or_default();
                    let at = format!("{}:{}", file, line_of(&im.self_ty));
                    if neg.is_some() && (trname == "ZeroCopySend" || trname == "RelocatableContainer") {
                        self.note(format!("{} negative impl `!{} for {}` ignored", at, trname, src(&im.self_ty)));
                        continue;
                    }
                    if trname == "ZeroCopySend" || trname == "RelocatableContainer" {
                        self.impls.push(ImplRec { zcs: trname == "ZeroCopySend", scope, file: file.to_string(), line: line_of(&im.self_ty), generics: im.generics.clone(), self_ty: (*im.self_ty).clone() });
                    } else if trname == "PointerFamily" {
                        let f = match &*im.self_ty {
                            syn::Type::Path(p) if p.qself.is_none() => p.path.segments.last().map(|s| s.ident.to_string()),
                            _ => None,
                        };
                        let mut p = None;
                        for ii in &im.items {
                            if let syn::ImplItem::Type(t) = ii {
                                if t.ident == "Pointer" {
                                    if let syn::Type::Path(tp) = &t.ty {
                                        p = tp.path.segments.last().map(|s| s.ident.to_string());
                                    }
                                }
                            }
                        }
                        match (f, p) {
                            (Some(f), Some(p)) => {
                                self.families.insert((f, p));
                            }
                            _ => self.err(&at, format!("impl PointerFamily for {}: cannot read `type Pointer<T> = P<T>`", src(&im.self_ty))),
                        }
                    }
                }
                syn::Item::Fn(f) => {
                    if !is_cfg_test(&f.attrs) {
                        self.local_items(&f.block, file);
                    }
                }
                syn::Item::Macro(m) => {
                    if is_cfg_test(&m.attrs) {
                        continue;
                    }
                    let name = m.mac.path.segments.last().map(|s| s.ident.to_string()).unwrap_or_default();
                    if let (Some(id), "macro_rules") = (&m.ident, name.as_str()) {
                        self.macros.push(MacroDef { name: id.to_string(), scope, file: file.to_string(), line: line_of(id), tokens: m.mac.tokens.clone() });
                    } else {
                        if mentions_zcs(m.mac.tokens.clone()) {
                            self.err(&format!("{}:{}", file, line_of(&m.mac.path)), format!("the arguments of the macro invocation `{}!` mention ZeroCopySend (a derive or impl passed through a macro): not supported", name));
                        }
                        self.invocations.push(Invocation { name, scope, file: file.to_string(), line: line_of(&m.mac.path), tokens: m.mac.tokens.clone() });
                    }
                }
                syn::Item::Mod(m) => {
                    if is_cfg_test(&m.attrs) {
                        continue;
                    }
                    if let Some((_, sub)) = &m.content {
                        let krate = self.scopes[scope].krate.clone();
                        let mut mp = self.scopes[scope].modpath.clone();
                        mp.push(m.ident.to_string());
                        let child = self.new_scope(&krate, &mp);
                        self.walk(sub, child, file);
                    }
                }
                _ => {}
            }
        }
    }

    // --------------------------------------------------------------------------------------
    // name resolution
    // --------------------------------------------------------------------------------------
    /// Make a path as written in scope `scope` absolute as far as its first segment allows.
    fn abs_of(&self, scope: usize, p: &[String]) -> Vec<String> {
        let s = &self.scopes[scope];
        let mut base: Vec<String> = vec![s.krate.clone()];
        base.extend(s.modpath.iter().cloned());
        if p.is_empty() {
            return base;
        }
        match p[0].as_str() {
            "crate" => {
                let mut r = vec![s.krate.clone()];
                r.extend(p[1..].iter().cloned());
                r
            }
            "self" => {
                base.extend(p[1..].iter().cloned());
                base
            }
            "super" => {
                let mut i = 0;
                while i < p.len() && p[i] == "super" {
                    if base.len() > 1 {
                        base.pop();
                    }
                    i += 1;
                }
                base.extend(p[i..].iter().cloned());
                base
            }
            first => {
                let mut cand = base.clone();
                cand.push(first.to_string());
                if self.modules.contains(&cand.join("::")) && !self.crates.contains(first) {
                    base.extend(p.iter().cloned());
                    base
                } else {
                    p.to_vec()
                }
            }
        }
    }

    /// Absolute path of `name` as visible in module `m` of the scanned crates: defined there,
    /// imported there by name, or (recursively) glob-imported there (`pub use static_string::*;`).
    fn find_in_module(&self, m: &str, name: &str, depth: usize) -> Option<Vec<String>> {
        let cand = format!("{}::{}", m, name);
        if self.modules.contains(&cand) || self.item_quals.contains(&cand) {
            return Some(cand.split("::").map(|s| s.to_string()).collect());
        }
        let &sc = self.scope_by_mod.get(m)?;
        if let Some((_, p)) = self.scopes[sc].named.iter().find(|(l, _)| l == name) {
            return Some(self.abs_of(sc, p));
        }
        if depth < 4 {
            for g in &self.scopes[sc].globs {
                let gp = self.abs_of(sc, g).join("::");
                if gp != m {
                    if let Some(r) = self.find_in_module(&gp, name, depth + 1) {
                        return Some(r);
                    }
                }
            }
        }
        None
    }

    /// Expand the first segment of `segs` through the `use` declarations of `scope`.
    fn expand_path(&self, scope: usize, segs: &[String]) -> Vec<String> {
        let first = segs[0].as_str();
        if first == "crate" || first == "self" || first == "super" {
            return self.abs_of(scope, segs);
        }
        let s = &self.scopes[scope];
        if let Some((_, p)) = s.named.iter().find(|(l, _)| l == first) {
            let mut r = self.abs_of(scope, p);
            r.extend(segs[1..].iter().cloned());
            return r;
        }
        let mut base: Vec<String> = vec![s.krate.clone()];
        base.extend(s.modpath.iter().cloned());
        let cand = format!("{}::{}", base.join("::"), first);
        if self.modules.contains(&cand) || self.item_quals.contains(&cand) {
            base.extend(segs.iter().cloned());
            return base;
        }
        // glob imports of modules of the scanned crates: a definition or a re-export there
        for g in &s.globs {
            let gp = self.abs_of(scope, g);
            if let Some(mut r) = self.find_in_module(&gp.join("::"), first, 0) {
                r.extend(segs[1..].iter().cloned());
                return r;
            }
        }
        segs.to_vec()
    }

    /// Follow named `pub use` re-exports of modules / items of the scanned crates
    /// (`pub use iceoryx2_bb_elementary::bump_allocator;` in iceoryx2-bb/memory/src/lib.rs).
    fn follow_reexports(&self, path: &str) -> String {
        let mut segs: Vec<String> = path.split("::").map(|s| s.to_string()).collect();
        'again: for _ in 0..8 {
            for k in 1..segs.len() {
                let pre = segs[..k].join("::");
                let full = format!("{}::{}", pre, segs[k]);
                if self.modules.contains(&full) || self.item_quals.contains(&full) {
                    continue;
                }
                let Some(&sc) = self.scope_by_mod.get(&pre) else { continue };
                if let Some((_, p)) = self.scopes[sc].named.iter().find(|(l, _)| *l == segs[k]) {
                    let mut r = self.abs_of(sc, p);
                    if r.join("::") == full {
                        continue;
                    }
                    r.extend(segs[k + 1..].iter().cloned());
                    segs = r;
                    continue 'again;
                }
            }
            break;
        }
        segs.join("::")
    }

    fn item_qual(&self, it: Item) -> &str {
        match it {
            Item::D(i) => &self.defs[i].qual,
            Item::A(i) => &self.aliases[i].qual,
        }
    }

    /// Which definition(s) of the scanned crates can `short`, written/expanded as `path`, name?
    fn lookup(&self, short: &str, path: &str) -> Lk {
        let segs: Vec<&str> = path.split("::").collect();
        if segs.len() >= 2 && EXTERNAL_ROOTS.contains(&segs[0]) {
            return Lk::External;
        }
        let Some(c) = self.by_short.get(short) else { return Lk::None };
        let one_or_many = |v: Vec<Item>| if v.len() == 1 { Lk::One(v[0]) } else { Lk::Many(v) };
        let exact: Vec<Item> = c.iter().copied().filter(|&i| self.item_qual(i) == path).collect();
        if !exact.is_empty() {
            return one_or_many(exact);
        }
        let followed = self.follow_reexports(path);
        if followed != path {
            return self.lookup(followed.rsplit("::").next().unwrap_or(short), &followed);
        }
        let mut c: Vec<Item> = c.clone();
        if segs.len() >= 2 && self.crates.contains(segs[0]) {
            let kp = format!("{}::", segs[0]);
            let k: Vec<Item> = c.iter().copied().filter(|&i| self.item_qual(i).starts_with(&kp)).collect();
            if !k.is_empty() {
                c = k;
                let pre = format!("{}::", segs[..segs.len() - 1].join("::"));
                let m: Vec<Item> = c.iter().copied().filter(|&i| self.item_qual(i).starts_with(&pre)).collect();
                if !m.is_empty() {
                    c = m;
                }
            }
        }
        one_or_many(c)
    }

    // --------------------------------------------------------------------------------------
    // type translation
    // --------------------------------------------------------------------------------------
    fn xl(&mut self, cx: &Ctx, t: &syn::Type) -> Ty {
        use syn::Type as T;
        match t {
            T::Paren(p) => self.xl(cx, &p.elem),
            T::Group(p) => self.xl(cx, &p.elem),
            T::Never(_) => Ty::Prim("!".into()),
            T::Tuple(tt) if tt.elems.is_empty() => Ty::Prim("()".into()),
            T::Tuple(tt) => Ty::Tuple(tt.elems.iter().map(|e| self.xl(cx, e)).collect()),
            T::Array(a) => Ty::Array(Box::new(self.xl(cx, &a.elem)), nospace(&a.len.to_token_stream().to_string())),
            T::Slice(s) => Ty::Slice(Box::new(self.xl(cx, &s.elem))),
            T::Ptr(p) => Ty::Ptr(p.mutability.is_some(), Box::new(self.xl(cx, &p.elem))),
            T::Reference(r) => Ty::Ref(r.mutability.is_some(), Box::new(self.xl(cx, &r.elem))),
            T::BareFn(_) | T::TraitObject(_) | T::ImplTrait(_) => Ty::Fn(src(t)),
            T::Path(p) => self.xl_path(cx, p, t),
            _ => Ty::Other(src(t)),
        }
    }

    fn looks_const(&mut self, cx: &Ctx, t: &syn::Type) -> bool {
        let syn::Type::Path(tp) = t else { return false };
        if tp.qself.is_some() {
            return false;
        }
        let Some(id) = tp.path.get_ident() else { return false };
        let n = id.to_string();
        if cx.tparams.contains(&n) || PRIMS.contains(&n.as_str()) {
            return false;
        }
        if cx.cparams.contains(&n) {
            return true;
        }
        if let Some(k) = self.meta_kinds.get(&n) {
            return k == "expr" || k == "literal";
        }
        if self.by_short.contains_key(&n) {
            return false;
        }
        if self.consts.contains(&n) {
            return true;
        }
        if n.len() > 1 && n.chars().all(|c| c.is_ascii_uppercase() || c.is_ascii_digit() || c == '_') {
            self.note(format!("{} generic argument `{}` of an unresolved type is taken for a constant (SCREAMING_CASE) and dropped", cx.at, n));
            return true;
        }
        false
    }

    /// Generic TYPE arguments of a path segment; `order` = kinds of the target's parameters if known.
    fn seg_args(&mut self, cx: &Ctx, seg: &syn::PathSegment, order: Option<&[bool]>) -> Vec<Ty> {
        let mut out = Vec::new();
        let syn::PathArguments::AngleBracketed(ab) = &seg.arguments else { return out };
        let mut pos = 0;
        for ga in &ab.args {
            match ga {
                syn::GenericArgument::Lifetime(_) => {}
                syn::GenericArgument::Const(_) => pos += 1,
                syn::GenericArgument::Type(t) => {
                    let is_const = match order {
                        Some(o) if pos < o.len() => !o[pos],
                        _ => self.looks_const(cx, t),
                    };
                    pos += 1;
                    if !is_const {
                        out.push(self.xl(cx, t));
                    }
                }
                other => self.err(&cx.at, format!("unsupported generic argument `{}`", src(other))),
            }
        }
        out
    }

    fn bind(&mut self, gen: &GenInfo, scope: usize, args: &[Ty], what: &str, at: &str) -> BTreeMap<String, Ty> {
        let mut map = BTreeMap::new();
        if args.len() > gen.tparams.len() {
            self.err(at, format!("{} takes {} type parameters but {} type arguments are given", what, gen.tparams.len(), args.len()));
        }
        for (i, (name, _, default)) in gen.tparams.iter().enumerate() {
            if let Some(a) = args.get(i) {
                map.insert(name.clone(), a.clone());
            } else if let Some(d) = default {
                let dcx = Ctx { scope, tparams: gen.tnames(), cparams: gen.cparams.clone(), self_ty: None, at: at.to_string(), depth: 1 };
                let dt = self.xl(&dcx, d);
                let dt = subst(&dt, &map);
                map.insert(name.clone(), dt);
            } else {
                self.err(at, format!("{}: no argument and no default for type parameter {}", what, name));
            }
        }
        map
    }

    fn xl_path(&mut self, cx: &Ctx, tp: &syn::TypePath, whole: &syn::Type) -> Ty {
        let segs: Vec<&syn::PathSegment> = tp.path.segments.iter().collect();
        if let Some(q) = &tp.qself {
            let mut base = self.xl(cx, &q.ty);
            for s in &segs[q.position.min(segs.len())..] {
                let args = self.seg_args(cx, s, None);
                base = Ty::Assoc(Box::new(base), s.ident.to_string(), args);
            }
            return base;
        }
        let first = segs[0].ident.to_string();
        if segs.len() == 1 && segs[0].arguments.is_none() {
            if first.starts_with("__M_") {
                return Ty::Other(format!("${}", &first[4..]));
            }
            if cx.tparams.contains(&first) {
                return Ty::Param(first);
            }
            if PRIMS.contains(&first.as_str()) {
                return Ty::Prim(first);
            }
        }
        if cx.tparams.contains(&first) || first == "Self" {
            let mut base = if first == "Self" {
                match &cx.self_ty {
                    Some(t) => t.clone(),
                    None => {
                        self.err(&cx.at, format!("`Self` in `{}` outside of a type definition", src(whole)));
                        Ty::Other("Self".into())
                    }
                }
            } else {
                Ty::Param(first)
            };
            for s in &segs[1..] {
                let args = self.seg_args(cx, s, None);
                base = Ty::Assoc(Box::new(base), s.ident.to_string(), args);
            }
            return base;
        }
        for s in &segs[..segs.len() - 1] {
            if !s.arguments.is_none() {
                self.err(&cx.at, format!("generic arguments on an inner path segment in `{}`", src(whole)));
            }
        }
        let names: Vec<String> = segs.iter().map(|s| s.ident.to_string()).collect();
        let expanded = self.expand_path(cx.scope, &names);
        let short = expanded.last().unwrap().clone(); // differs from the written name for `use a::B as C`
        let path = expanded.join("::");
        let last = *segs.last().unwrap();
        if let syn::PathArguments::Parenthesized(_) = last.arguments {
            return Ty::Fn(src(whole));
        }
        let lk = self.lookup(&short, &path);
        let order: Option<Vec<bool>> = match &lk {
            Lk::One(Item::D(i)) => Some(self.defs[*i].gen.order.clone()),
            Lk::One(Item::A(i)) => Some(self.aliases[*i].gen.order.clone()),
            _ => None,
        };
        let args = self.seg_args(cx, last, order.as_deref());
        // a definition identified through a path rooted in a scanned crate: use its canonical name
        let path = match &lk {
            Lk::One(Item::D(i)) if expanded.len() >= 2 && self.crates.contains(&expanded[0]) => self.defs[*i].qual.clone(),
            _ => path,
        };
        match lk {
            Lk::One(Item::A(i)) => {
                let a = self.aliases[i].clone();
                let aat = format!("{}:{}", a.file, a.line);
                if cx.depth > 16 {
                    self.err(&cx.at, format!("type alias expansion of `{}` too deep (cyclic?)", path));
                    return Ty::Path(short, path, args);
                }
                let acx = Ctx { scope: a.scope, tparams: a.gen.tnames(), cparams: a.gen.cparams.clone(), self_ty: None, at: aat.clone(), depth: cx.depth + 1 };
                let rhs = self.xl(&acx, &a.ty);
                let map = self.bind(&a.gen, a.scope, &args, &format!("type alias {}", a.qual), &cx.at);
                subst(&rhs, &map)
            }
            Lk::Many(v) => {
                if v.iter().any(|i| matches!(i, Item::A(_))) {
                    let mut qs: Vec<String> = v.iter().map(|&i| format!("{}{}", self.item_qual(i), if matches!(i, Item::A(_)) { " (alias)" } else { "" })).collect();
                    qs.sort();
                    self.note(format!("type alias `{}` (written `{}`) is ambiguous, NOT expanded; candidates: {}", short, path, qs.join(", ")));
                }
                Ty::Path(short, path, args)
            }
            _ => Ty::Path(short, path, args),
        }
    }

    /// Fields of definition `di` with its own type parameters symbolic.
    fn def_fields(&mut self, di: usize) -> Vec<(String, Ty, String)> {
        if let Some(f) = self.field_cache.get(&di) {
            return f.clone();
        }
        let d = self.defs[di].clone();
        let me = Ty::Path(d.short.clone(), d.qual.clone(), d.gen.tnames().into_iter().map(Ty::Param).collect());
        let mut out = Vec::new();
        for (n, t) in &d.fields {
            let cx = Ctx { scope: d.scope, tparams: d.gen.tnames(), cparams: d.gen.cparams.clone(), self_ty: Some(me.clone()), at: format!("{}:{}", d.file, line_of(t)), depth: 0 };
            out.push((n.clone(), self.xl(&cx, t), src(t)));
        }
        self.field_cache.insert(di, out.clone());
        out
    }
}

fn subst(t: &Ty, m: &BTreeMap<String, Ty>) -> Ty {
    let sv = |v: &Vec<Ty>| v.iter().map(|x| subst(x, m)).collect::<Vec<_>>();
    match t {
        Ty::Param(n) => m.get(n).cloned().unwrap_or_else(|| t.clone()),
        Ty::Path(s, p, a) => Ty::Path(s.clone(), p.clone(), sv(a)),
        Ty::Assoc(b, n, a) => Ty::Assoc(Box::new(subst(b, m)), n.clone(), sv(a)),
        Ty::Array(e, l) => Ty::Array(Box::new(subst(e, m)), l.clone()),
        Ty::Slice(e) => Ty::Slice(Box::new(subst(e, m))),
        Ty::Tuple(v) => Ty::Tuple(sv(v)),
        Ty::Ptr(b, e) => Ty::Ptr(*b, Box::new(subst(e, m))),
        Ty::Ref(b, e) => Ty::Ref(*b, Box::new(subst(e, m))),
        Ty::Prim(_) | Ty::Fn(_) | Ty::Other(_) => t.clone(),
    }
}

// ------------------------------------------------------------------------------------------
// rows
// ------------------------------------------------------------------------------------------
fn add_row(rows: &mut Vec<Row>, qual: &str, short: &str, origin: Origin, wher: (String, usize), params: Vec<(String, bool)>, fields: Vec<(String, Ty, String)>) {
    let prio = match origin {
        Origin::ManualImpl => 2,
        Origin::Derive => 1,
        _ => 0,
    };
    let same = |r: &Row| {
        r.qual == qual
            && r.short == short
            && r.params.iter().map(|p| &p.0).eq(params.iter().map(|p| &p.0))
            && r.fields.iter().map(|f| (&f.0, &f.1)).eq(fields.iter().map(|f| (&f.0, &f.1)))
    };
    if let Some(r) = rows.iter_mut().find(|r| same(r)) {
        r.origins.insert(origin);
        if prio > r.prio {
            r.params = params;
            r.prio = prio;
        } else if prio == r.prio {
            for (a, b) in r.params.iter_mut().zip(params.iter()) {
                a.1 |= b.1;
            }
        }
        return;
    }
    rows.push(Row { qual: qual.to_string(), short: short.to_string(), origins: [origin].into_iter().collect(), wher: format!("{}:{}", wher.0, wher.1), params, prio, fields });
}

fn visit_paths(t: &Ty, f: &mut dyn FnMut(&str, &str)) {
    match t {
        Ty::Path(s, p, a) => {
            f(s, p);
            a.iter().for_each(|x| visit_paths(x, f));
        }
        Ty::Assoc(b, _, a) => {
            visit_paths(b, f);
            a.iter().for_each(|x| visit_paths(x, f));
        }
        Ty::Array(e, _) | Ty::Slice(e) | Ty::Ptr(_, e) | Ty::Ref(_, e) => visit_paths(e, f),
        Ty::Tuple(v) => v.iter().for_each(|x| visit_paths(x, f)),
        Ty::Prim(_) | Ty::Param(_) | Ty::Fn(_) | Ty::Other(_) => {}
    }
}

impl World {
    fn impl_rows(&mut self, rows: &mut Vec<Row>) {
        for im in self.impls.clone() {
            let at = format!("{}:{}", im.file, im.line);
            let trname = if im.zcs { "ZeroCopySend" } else { "RelocatableContainer" };
            let gi = gen_info(&im.generics);
            let cx = Ctx { scope: im.scope, tparams: gi.tnames(), cparams: gi.cparams.clone(), self_ty: None, at: at.clone(), depth: 0 };
            let mut t = &im.self_ty;
            while let syn::Type::Paren(syn::TypeParen { elem, .. }) | syn::Type::Group(syn::TypeGroup { elem, .. }) = t {
                t = elem;
            }
            let leaf = match t {
                syn::Type::Slice(_) | syn::Type::Array(_) | syn::Type::Never(_) => true,
                syn::Type::Tuple(tt) => tt.elems.is_empty(),
                syn::Type::Path(tp) if tp.qself.is_none() => tp.path.get_ident().map(|i| PRIMS.contains(&i.to_string().as_str())).unwrap_or(false),
                _ => false,
            };
            if leaf && im.zcs {
                self.leaf_impls.push(format!("{} ({})", src(t), at));
                continue;
            }
            let syn::Type::Path(tp) = t else {
                self.err(&at, format!("impl {} for `{}`: self type is not a path", trname, src(t)));
                continue;
            };
            if tp.qself.is_some() {
                self.err(&at, format!("impl {} for `{}`: qualified self type", trname, src(t)));
                continue;
            }
            let names: Vec<String> = tp.path.segments.iter().map(|s| s.ident.to_string()).collect();
            if cx.tparams.contains(&names[0]) {
                self.err(&at, format!("blanket impl {} for type parameter `{}`", trname, src(t)));
                continue;
            }
            let written = names.last().unwrap().clone();
            let expanded = self.expand_path(im.scope, &names);
            let path = expanded.join("::");
            let item = match self.lookup(expanded.last().unwrap(), &path) {
                Lk::None if im.zcs && EXTERNAL_ROOTS.contains(&path.split("::").next().unwrap_or("")) => {
                    self.leaf_impls.push(format!("{} ({})", src(t), at));
                    continue;
                }
                Lk::One(i) => i,
                Lk::External if im.zcs => {
                    self.leaf_impls.push(format!("{} ({})", src(t), at));
                    continue;
                }
                Lk::Many(v) => {
                    let qs: Vec<String> = v.iter().map(|&i| self.item_qual(i).to_string()).collect();
                    self.err(&at, format!("impl {} for `{}`: ambiguous self type ({})", trname, src(t), qs.join(", ")));
                    continue;
                }
                _ => {
                    self.err(&at, format!("impl {} for `{}` ({}): no struct/enum/union/alias of that name in the scanned crates", trname, src(t), path));
                    continue;
                }
            };
            let Ty::Path(ushort, upath, uargs) = self.xl(&cx, t) else {
                self.err(&at, format!("impl {} for `{}`: self type does not expand to a nominal type", trname, src(t)));
                continue;
            };
            let (di, qual, wher) = match item {
                Item::D(i) => (i, self.defs[i].qual.clone(), (self.defs[i].file.clone(), self.defs[i].line)),
                Item::A(a) => match self.lookup(&ushort, &upath) {
                    Lk::One(Item::D(i)) => (i, self.aliases[a].qual.clone(), (im.file.clone(), im.line)),
                    _ => {
                        self.err(&at, format!("impl {} for alias `{}`: underlying type `{}` is not a unique struct/enum/union of the scanned crates", trname, src(t), upath));
                        continue;
                    }
                },
            };
            let d = self.defs[di].clone();
            let map = self.bind(&d.gen, d.scope, &uargs, &format!("type {}", d.qual), &at);
            let fields: Vec<(String, Ty, String)> = self.def_fields(di).into_iter().map(|(n, t, s)| (n, subst(&t, &map), s)).collect();
            let params: Vec<(String, bool)> = gi.tparams.iter().map(|p| (p.0.clone(), im.zcs && p.1)).collect();
            add_row(rows, &qual, &written, if im.zcs { Origin::ManualImpl } else { Origin::RelocContainer }, wher, params, fields);
        }
    }

    fn derive_rows(&mut self, rows: &mut Vec<Row>) {
        for di in 0..self.defs.len() {
            if !self.defs[di].derive_zcs {
                continue;
            }
            let d = self.defs[di].clone();
            let fields = self.def_fields(di);
            let params = d.gen.tparams.iter().map(|p| (p.0.clone(), p.1)).collect();
            add_row(rows, &d.qual, &d.short, Origin::Derive, (d.file.clone(), d.line), params, fields);
        }
        for (di, qual, short, file, line) in self.macro_instances.clone() {
            let d = self.defs[di].clone();
            let fields = self.def_fields(di);
            let params = d.gen.tparams.iter().map(|p| (p.0.clone(), p.1)).collect();
            add_row(rows, &qual, &short, Origin::Derive, (file, line), params, fields);
        }
    }

    fn aux_rows(&mut self, rows: &[Row]) -> Vec<Row> {
        let main_quals: BTreeSet<String> = rows.iter().map(|r| r.qual.clone()).collect();
        let mut aux: Vec<Row> = Vec::new();
        let mut done: BTreeSet<usize> = BTreeSet::new();
        let mut work: Vec<Ty> = rows.iter().flat_map(|r| r.fields.iter().map(|f| f.1.clone())).collect();
        work.reverse();
        while let Some(t) = work.pop() {
            let mut names: Vec<(String, String)> = Vec::new();
            visit_paths(&t, &mut |s, p| names.push((s.to_string(), p.to_string())));
            for (s, p) in names {
                let cands: Vec<usize> = match self.lookup(&s, &p) {
                    Lk::One(Item::D(i)) => vec![i],
                    Lk::Many(v) => {
                        let ds: Vec<usize> = v.iter().filter_map(|i| if let Item::D(d) = i { Some(*d) } else { None }).collect();
                        let mut qs: Vec<String> = v.iter().map(|&i| format!("{}{}", self.item_qual(i), if matches!(i, Item::A(_)) { " (alias, not expanded)" } else { "" })).collect();
                        qs.sort();
                        qs.dedup();
                        if !ds.is_empty() {
                            self.note(format!("homonym: `{}` (written `{}`) does not identify one definition; ALL of these are taken: {}", s, p, qs.join(", ")));
                        }
                        ds
                    }
                    _ => vec![],
                };
                for di in cands {
                    if main_quals.contains(&self.defs[di].qual) || !done.insert(di) {
                        continue;
                    }
                    let d = self.defs[di].clone();
                    let fields = self.def_fields(di);
                    for f in fields.iter().rev() {
                        work.push(f.1.clone());
                    }
                    let params = d.gen.tparams.iter().map(|p| (p.0.clone(), p.1)).collect();
                    add_row(&mut aux, &d.qual, &d.short, Origin::Aux, (d.file.clone(), d.line), params, fields);
                }
            }
        }
        aux
    }
}

// ------------------------------------------------------------------------------------------
// macro_rules! bodies
// ------------------------------------------------------------------------------------------
fn names_text(v: &[(Option<(String, String)>, String, usize)]) -> String {
    if v.is_empty() {
        return "none found".to_string();
    }
    v.iter()
        .map(|(n, f, l)| match n {
            Some((m, n)) => format!("{}::{} ({}:{})", m, n, f, l),
            None => format!("<name not determined> ({}:{})", f, l),
        })
        .collect::<Vec<_>>()
        .join(", ")
}

fn is_punct(t: &TokenTree, c: char) -> bool {
    matches!(t, TokenTree::Punct(p) if p.as_char() == c)
}

/// `$x` -> identifier `__M_x`; `$( .. ) sep? op` -> the contents once (flagged).
fn demeta(ts: TokenStream, reps: &mut usize) -> TokenStream {
    let v: Vec<TokenTree> = ts.into_iter().collect();
    let mut out: Vec<TokenTree> = Vec::new();
    let mut i = 0;
    while i < v.len() {
        if is_punct(&v[i], '$') && i + 1 < v.len() {
            match &v[i + 1] {
                TokenTree::Ident(id) => {
                    out.push(TokenTree::Ident(proc_macro2::Ident::new(&format!("__M_{}", id), id.span())));
                    i += 2;
                    continue;
                }
                TokenTree::Group(g) if g.delimiter() == Delimiter::Parenthesis => {
                    *reps += 1;
                    out.extend(demeta(g.stream(), reps));
                    i += 2;
                    let mut k = 0;
                    while i < v.len() && k < 2 {
                        let stop = is_punct(&v[i], '*') || is_punct(&v[i], '+') || is_punct(&v[i], '?');
                        i += 1;
                        k += 1;
                        if stop {
                            break;
                        }
                    }
                    continue;
                }
                _ => {}
            }
        }
        match &v[i] {
            TokenTree::Group(g) => {
                let mut ng = proc_macro2::Group::new(g.delimiter(), demeta(g.stream(), reps));
                ng.set_span(g.span());
                out.push(TokenTree::Group(ng));
            }
            t => out.push(t.clone()),
        }
        i += 1;
    }
    out.into_iter().collect()
}

fn meta_kinds(ts: TokenStream, out: &mut BTreeMap<String, String>) {
    let v: Vec<TokenTree> = ts.into_iter().collect();
    for i in 0..v.len() {
        if let TokenTree::Group(g) = &v[i] {
            meta_kinds(g.stream(), out);
        }
        if is_punct(&v[i], '$') && i + 3 < v.len() && is_punct(&v[i + 2], ':') {
            if let (TokenTree::Ident(n), TokenTree::Ident(k)) = (&v[i + 1], &v[i + 3]) {
                out.insert(format!("__M_{}", n), k.to_string());
            }
        }
    }
}

fn is_zcs_derive(ts: TokenStream) -> bool {
    let v: Vec<TokenTree> = ts.into_iter().collect();
    if v.len() < 2 || !matches!(&v[0], TokenTree::Ident(i) if i == "derive") {
        return false;
    }
    match &v[1] {
        TokenTree::Group(g) => g.stream().into_iter().any(|t| matches!(&t, TokenTree::Ident(i) if i == "ZeroCopySend")),
        _ => false,
    }
}

/// The identifier an invocation binds to metavariable `var` (heuristic: literal tokens that precede
/// `$var` in the matcher are searched in the invocation; leading attributes are skipped).
fn inv_name(matcher: &TokenStream, var: &str, inv: &TokenStream) -> Option<String> {
    let m: Vec<TokenTree> = matcher.clone().into_iter().collect();
    let pos = (0..m.len()).find(|&i| is_punct(&m[i], '$') && matches!(m.get(i + 1), Some(TokenTree::Ident(id)) if id == var))?;
    let mut prefix: Vec<String> = Vec::new();
    let mut i = pos;
    let mut only_reps_before = true;
    while i > 0 && prefix.len() < 2 {
        i -= 1;
        match &m[i] {
            TokenTree::Group(_) => break,
            t if is_punct(t, '$') || is_punct(t, '*') || is_punct(t, '+') || is_punct(t, '?') => break,
            TokenTree::Ident(_) if i >= 1 && is_punct(&m[i - 1], ':') && i >= 3 && is_punct(&m[i - 3], '$') => {
                only_reps_before = false;
                break;
            }
            t => prefix.insert(0, t.to_string()),
        }
    }
    let iv: Vec<TokenTree> = inv.clone().into_iter().collect();
    if prefix.is_empty() {
        if !only_reps_before {
            return None;
        }
        let mut k = 0;
        while k + 1 < iv.len() && is_punct(&iv[k], '#') && matches!(&iv[k + 1], TokenTree::Group(_)) {
            k += 2;
        }
        return match iv.get(k) {
            Some(TokenTree::Ident(id)) => Some(id.to_string()),
            _ => None,
        };
    }
    let strs: Vec<String> = iv.iter().map(|t| t.to_string()).collect();
    for k in 0..strs.len().saturating_sub(prefix.len()) {
        if strs[k..k + prefix.len()] == prefix[..] {
            if let TokenTree::Ident(id) = &iv[k + prefix.len()] {
                return Some(id.to_string());
            }
        }
    }
    None
}

impl World {
    /// (qualified name or None, file, line) of what every invocation of `m` binds to `$var`.
    fn generated_names(&self, m: &MacroDef, matcher: &TokenStream, var: &str, same_file_only: bool) -> Vec<(Option<(String, String)>, String, usize)> {
        let mut names = Vec::new();
        for inv in &self.invocations {
            if inv.name != m.name || (same_file_only && inv.file != m.file) {
                continue;
            }
            let n = inv_name(matcher, var, &inv.tokens).map(|n| (self.modstr(inv.scope), n));
            names.push((n, inv.file.clone(), inv.line));
        }
        names
    }

    fn scan_macro_body(&mut self, v: &[TokenTree], m: &MacroDef, matcher: &TokenStream, reps: usize) {
        let mut i = 0;
        while i < v.len() {
            if is_punct(&v[i], '#') && i + 1 < v.len() {
                if let TokenTree::Group(g) = &v[i + 1] {
                    if g.delimiter() == Delimiter::Bracket && is_zcs_derive(g.stream()) {
                        let at = format!("{}:{}", m.file, v[i].span().start().line);
                        let mut j = i;
                        let mut item = TokenStream::new();
                        while j < v.len() {
                            item.extend(std::iter::once(v[j].clone()));
                            let stop = is_punct(&v[j], ';') || matches!(&v[j], TokenTree::Group(g) if g.delimiter() == Delimiter::Brace);
                            j += 1;
                            if stop {
                                break;
                            }
                        }
                        let text = tidy(&item.to_string());
                        match syn::parse2::<syn::DeriveInput>(item) {
                            Ok(di) => {
                                self.add_def(&di, m.scope, &m.file, Some(&m.name));
                                let short = di.ident.to_string();
                                let gen = if short.starts_with("__M_") { self.generated_names(m, matcher, &short[4..], false) } else { vec![] };
                                let di = self.defs.len() - 1;
                                for (n, f, l) in &gen {
                                    if let Some((mo, n)) = n {
                                        self.macro_instances.push((di, format!("{}::{}", mo, n), n.clone(), f.clone(), *l));
                                    }
                                }
                                let gen = names_text(&gen);
                                self.note(format!(
                                    "{} #[derive(ZeroCopySend)] inside macro_rules! {} : tabled as ONE row `{}!::{}` with metavariables as `__M_x` (names resolved in the scope of the macro definition{}) PLUS one copy of that row per invocation whose name could be determined: {}",
                                    at,
                                    m.name,
                                    m.name,
                                    short,
                                    if reps > 0 { "; the macro arm contains `$(..)*` repetitions, each taken once" } else { "" },
                                    gen
                                ));
                            }
                            Err(e) => self.note(format!("{} #[derive(ZeroCopySend)] inside macro_rules! {} could NOT be parsed ({}); NOT tabled; text: {}", at, m.name, e, text)),
                        }
                        i = j;
                        continue;
                    }
                }
            }
            if matches!(&v[i], TokenTree::Ident(id) if id == "impl") {
                let end = (i..v.len()).find(|&k| matches!(&v[k], TokenTree::Group(g) if g.delimiter() == Delimiter::Brace)).unwrap_or(v.len());
                for k in i..end {
                    let tr = match &v[k] {
                        TokenTree::Ident(id) if id == "ZeroCopySend" || id == "RelocatableContainer" => id.to_string(),
                        _ => continue,
                    };
                    if k + 2 >= v.len() + 0 || !matches!(&v[k + 1], TokenTree::Ident(f) if f == "for") {
                        continue;
                    }
                    let at = format!("{}:{}", m.file, v[k].span().start().line);
                    let selfty: String = tidy(&v[k + 2..end].iter().cloned().collect::<TokenStream>().to_string());
                    match &v[k + 2] {
                        TokenTree::Ident(id) if id.to_string().starts_with("__M_") && k + 3 == end => {
                            let var = id.to_string()[4..].to_string();
                            let gen = names_text(&self.generated_names(m, matcher, &var, true));
                            self.note(format!("{} `impl {} for ${}` inside macro_rules! {} (defined at {}:{}): NO OManualImpl row is made from it (the generated types are rows only if something else makes them one, e.g. OAux); types generated by invocations in the same file: {}", at, tr, var, m.name, m.file, m.line, gen));
                        }
                        _ => self.err(&at, format!("`impl {} for {}` inside macro_rules! {}: self type is not a plain $metavariable; not supported", tr, selfty, m.name)),
                    }
                }
                i = end + 1;
                continue;
            }
            if let TokenTree::Group(g) = &v[i] {
                let inner: Vec<TokenTree> = g.stream().into_iter().collect();
                self.scan_macro_body(&inner, m, matcher, reps);
            }
            i += 1;
        }
    }

    fn scan_macros(&mut self) {
        for m in self.macros.clone() {
            let groups: Vec<proc_macro2::Group> = m.tokens.clone().into_iter().filter_map(|t| if let TokenTree::Group(g) = t { Some(g) } else { None }).collect();
            for pair in groups.chunks(2) {
                if pair.len() != 2 {
                    continue;
                }
                let mut kinds = BTreeMap::new();
                meta_kinds(pair[0].stream(), &mut kinds);
                self.meta_kinds.extend(kinds);
                let mut reps = 0;
                let body: Vec<TokenTree> = demeta(pair[1].stream(), &mut reps).into_iter().collect();
                self.scan_macro_body(&body, &m, &pair[0].stream(), reps);
            }
        }
    }
}

// ------------------------------------------------------------------------------------------
// output
// ------------------------------------------------------------------------------------------
fn coq_str(s: &str) -> String {
    format!("\"{}\"", s.replace('"', "\"\""))
}

fn json_str(s: &str) -> String {
    let mut o = String::from("\"");
    for c in s.chars() {
        match c {
            '"' => o.push_str("\\\""),
            '\\' => o.push_str("\\\\"),
            '\n' => o.push_str("\\n"),
            c if (c as u32) < 0x20 => write!(o, "\\u{:04x}", c as u32).unwrap(),
            c => o.push(c),
        }
    }
    o.push('"');
    o
}

fn coq_list(v: &[Ty]) -> String {
    format!("[{}]", v.iter().map(|t| coq_ty(t, false)).collect::<Vec<_>>().join("; "))
}

fn coq_ty(t: &Ty, paren: bool) -> String {
    let b = |x: bool| if x { "true" } else { "false" };
    let s = match t {
        Ty::Prim(n) => format!("TPrim {}", coq_str(n)),
        Ty::Param(n) => format!("TParam {}", coq_str(n)),
        Ty::Path(s, p, a) => format!("TPath {} {} {}", coq_str(s), coq_str(p), coq_list(a)),
        Ty::Assoc(bs, n, a) => format!("TAssoc {} {} {}", coq_ty(bs, true), coq_str(n), coq_list(a)),
        Ty::Array(e, l) => format!("TArray {} {}", coq_ty(e, true), coq_str(l)),
        Ty::Slice(e) => format!("TSlice {}", coq_ty(e, true)),
        Ty::Tuple(v) => format!("TTuple {}", coq_list(v)),
        Ty::Ptr(m, e) => format!("TPtr {} {}", b(*m), coq_ty(e, true)),
        Ty::Ref(m, e) => format!("TRef {} {}", b(*m), coq_ty(e, true)),
        Ty::Fn(x) => format!("TFn {}", coq_str(x)),
        Ty::Other(x) => format!("TOther {}", coq_str(x)),
    };
    if paren {
        format!("({})", s)
    } else {
        s
    }
}

fn emit_rows_coq(o: &mut String, name: &str, rows: &[Row]) {
    if rows.is_empty() {
        writeln!(o, "Definition {} : list row := [].\n", name).unwrap();
        return;
    }
    writeln!(o, "Definition {} : list row := [", name).unwrap();
    for (i, r) in rows.iter().enumerate() {
        let origins = r.origins.iter().map(|x| x.name()).collect::<Vec<_>>().join("; ");
        let params = r.params.iter().map(|(n, b)| format!("({}, {})", coq_str(n), b)).collect::<Vec<_>>().join("; ");
        writeln!(o, "  (* {} *)", r.wher).unwrap();
        write!(o, "  mk_row {} {} [{}] {} [{}] [", coq_str(&r.qual), coq_str(&r.short), origins, coq_str(&r.wher), params).unwrap();
        if r.fields.is_empty() {
            write!(o, "]").unwrap();
        } else {
            writeln!(o).unwrap();
            for (j, f) in r.fields.iter().enumerate() {
                writeln!(o, "    ({}, {}){}", coq_str(&f.0), coq_ty(&f.1, false), if j + 1 < r.fields.len() { ";" } else { "" }).unwrap();
            }
            write!(o, "  ]").unwrap();
        }
        writeln!(o, "{}", if i + 1 < rows.len() { ";" } else { "" }).unwrap();
    }
    o.push_str("].\n\n");
}

fn emit_coq(rows: &[Row], aux: &[Row], fams: &BTreeSet<(String, String)>) -> String {
    let mut o = String::new();
    o.push_str("(* GENERATED by /verif/harness/xlate-shm from /repo (iceoryx2-bb, iceoryx2-cal, iceoryx2, iceoryx2-pal).\n");
    o.push_str("   DO NOT EDIT: ./check C14 regenerates this file on every run; the committed copy is the last accepted table. Data only. *)\n");
    o.push_str("From Coq Require Import List String.\nFrom V Require Import model.ShmTypes.\nImport ListNotations.\nOpen Scope string_scope.\n\n");
    emit_rows_coq(&mut o, "shm_types", rows);
    emit_rows_coq(&mut o, "aux_types", aux);
    let f = fams.iter().map(|(a, b)| format!("({}, {})", coq_str(a), coq_str(b))).collect::<Vec<_>>().join("; ");
    writeln!(o, "Definition pointer_families : list (string * string) := [{}].", f).unwrap();
    o
}

fn emit_rows_json(o: &mut String, rows: &[Row]) {
    for (i, r) in rows.iter().enumerate() {
        let origins = r.origins.iter().map(|x| json_str(x.name())).collect::<Vec<_>>().join(",");
        let params = r.params.iter().map(|(n, b)| format!("[{},{}]", json_str(n), b)).collect::<Vec<_>>().join(",");
        write!(o, "  {{\"qual\":{},\"short\":{},\"origins\":[{}],\"where\":{},\"params\":[{}],\"fields\":[", json_str(&r.qual), json_str(&r.short), origins, json_str(&r.wher), params).unwrap();
        for (j, f) in r.fields.iter().enumerate() {
            write!(o, "{}\n    {{\"name\":{},\"ty\":{},\"src\":{}}}", if j > 0 { "," } else { "" }, json_str(&f.0), json_str(&coq_ty(&f.1, false)), json_str(&f.2)).unwrap();
        }
        writeln!(o, "]}}{}", if i + 1 < rows.len() { "," } else { "" }).unwrap();
    }
}

fn emit_json(rows: &[Row], aux: &[Row], fams: &BTreeSet<(String, String)>, notes: &[String]) -> String {
    let mut o = String::from("{\n \"rows\":[\n");
    emit_rows_json(&mut o, rows);
    o.push_str(" ],\n \"aux\":[\n");
    emit_rows_json(&mut o, aux);
    o.push_str(" ],\n \"pointer_families\":[");
    o.push_str(&fams.iter().map(|(a, b)| format!("[{},{}]", json_str(a), json_str(b))).collect::<Vec<_>>().join(","));
    o.push_str("],\n \"notes\":[");
    for (i, n) in notes.iter().enumerate() {
        write!(o, "{}\n  {}", if i > 0 { "," } else { "" }, json_str(n)).unwrap();
    }
    o.push_str("]\n}\n");
    o
}

fn write_if_changed(p: &Path, content: &str) {
    if let Ok(cur) = std::fs::read_to_string(p) {
        if cur == content {
            return;
        }
    }
    if let Some(d) = p.parent() {
        let _ = std::fs::create_dir_all(d);
    }
    std::fs::write(p, content).unwrap_or_else(|e| panic!("cannot write {}: {}", p.display(), e));
}

fn sort_rows(rows: &mut [Row]) {
    rows.sort_by(|a, b| (&a.qual, &a.short, &a.wher, &a.params, &a.fields.iter().map(|f| (&f.0, &f.1)).collect::<Vec<_>>()).cmp(&(&b.qual, &b.short, &b.wher, &b.params, &b.fields.iter().map(|f| (&f.0, &f.1)).collect::<Vec<_>>())));
}

// ------------------------------------------------------------------------------------------
// main
// ------------------------------------------------------------------------------------------
fn main() {
    let args: Vec<String> = std::env::args().collect();
    let mut repo = PathBuf::from("/repo");
    let mut coq_out: Option<PathBuf> = None;
    let mut json_out: Option<PathBuf> = None;
    let mut i = 1;
    while i < args.len() {
        let v = args.get(i + 1).cloned().unwrap_or_default();
        match args[i].as_str() {
            "--repo" => repo = PathBuf::from(v),
            "--coq" => coq_out = Some(PathBuf::from(v)),
            "--json" => json_out = Some(PathBuf::from(v)),
            a => {
                eprintln!("unknown argument {}\nusage: xlate-shm --repo DIR --coq FILE --json FILE", a);
                std::process::exit(2);
            }
        }
        i += 2;
    }
    let mut w = World::default();

    // crates
    let mut crate_dirs = vec![repo.join("iceoryx2"), repo.join("iceoryx2-cal")];
    for group in ["iceoryx2-bb", "iceoryx2-pal"] {
        if let Ok(rd) = std::fs::read_dir(repo.join(group)) {
            let mut ds: Vec<PathBuf> = rd.filter_map(|e| e.ok()).map(|e| e.path()).filter(|p| p.join("Cargo.toml").exists() && p.join("src").is_dir()).collect();
            ds.sort();
            for d in ds {
                let n = d.file_name().unwrap().to_string_lossy().to_string();
                if group == "iceoryx2-bb" && (n == "testing" || n == "derive-macros") {
                    continue;
                }
                crate_dirs.push(d);
            }
        }
    }
    // parse everything first
    struct Parsed {
        krate: String,
        modpath: Vec<String>,
        rel: String,
        ast: syn::File,
    }
    let mut parsed: Vec<Parsed> = Vec::new();
    for d in &crate_dirs {
        let Some(krate) = crate_name_of(d) else {
            w.err(&format!("{}:0", d.join("Cargo.toml").display()), "no package name".into());
            continue;
        };
        w.crates.insert(krate.clone());
        let srcdir = d.join("src");
        let mut files = Vec::new();
        rs_files(&srcdir, &mut files);
        for f in files {
            let rel = f.strip_prefix(&repo).unwrap_or(&f).to_string_lossy().to_string();
            let comps: Vec<String> = f.strip_prefix(&srcdir).unwrap().components().map(|c| c.as_os_str().to_string_lossy().to_string()).collect();
            let mut modpath: Vec<String> = comps.iter().map(|c| c.trim_end_matches(".rs").to_string()).collect();
            if matches!(modpath.last().map(|s| s.as_str()), Some("mod") | Some("lib") | Some("main")) {
                modpath.pop();
            }
            let txt = match std::fs::read_to_string(&f) {
                Ok(t) => t,
                Err(e) => {
                    w.err(&format!("{}:0", rel), format!("cannot read: {}", e));
                    continue;
                }
            };
            match syn::parse_file(&txt) {
                Ok(ast) => parsed.push(Parsed { krate: krate.clone(), modpath, rel, ast }),
                Err(e) => w.err(&format!("{}:{}", rel, e.span().start().line), format!("cannot parse: {}", e)),
            }
        }
    }
    if parsed.is_empty() {
        w.err(&format!("{}:0", repo.display()), "no source files found".into());
    }
    // `#[cfg(test)] mod x;` declarations make the files of x test-only
    let mut test_mods: Vec<String> = Vec::new();
    for p in &parsed {
        for it in &p.ast.items {
            if let syn::Item::Mod(m) = it {
                if m.content.is_none() && is_cfg_test(&m.attrs) {
                    let mut v = vec![p.krate.clone()];
                    v.extend(p.modpath.iter().cloned());
                    v.push(m.ident.to_string());
                    test_mods.push(v.join("::"));
                }
            }
        }
    }
    let mut skipped_test_files = Vec::new();
    for p in &parsed {
        let mut v = vec![p.krate.clone()];
        v.extend(p.modpath.iter().cloned());
        let ms = v.join("::");
        if is_cfg_test(&p.ast.attrs) || test_mods.iter().any(|t| ms == *t || ms.starts_with(&format!("{}::", t))) {
            skipped_test_files.push(p.rel.clone());
            continue;
        }
        w.files += 1;
        let scope = w.new_scope(&p.krate, &p.modpath);
        w.walk(&p.ast.items, scope, &p.rel);
    }
    if !skipped_test_files.is_empty() {
        w.note(format!("files of `#[cfg(test)] mod x;` modules skipped: {}", skipped_test_files.join(", ")));
    }

    w.scan_macros();
    let mut rows: Vec<Row> = Vec::new();
    w.derive_rows(&mut rows);
    w.impl_rows(&mut rows);
    if !w.leaf_impls.is_empty() {
        let l = w.leaf_impls.join(", ");
        w.note(format!("`unsafe impl ZeroCopySend` for primitives / slices / arrays / types of core are leaves, not rows: {}", l));
    }
    let mut aux = w.aux_rows(&rows);
    sort_rows(&mut rows);
    sort_rows(&mut aux);
    if !w.errors.is_empty() {
        for e in &w.errors {
            println!("XLATE-ERROR {}", e);
        }
        for n in &w.notes {
            println!("XLATE-NOTE {}", n);
        }
        std::process::exit(3);
    }
    if let Some(p) = &coq_out {
        write_if_changed(p, &emit_coq(&rows, &aux, &w.families));
    }
    if let Some(p) = &json_out {
        write_if_changed(p, &emit_json(&rows, &aux, &w.families, &w.notes));
    }
    let nfields: usize = rows.iter().chain(aux.iter()).map(|r| r.fields.len()).sum();
    println!("XLATE-OK rows={} aux={} fields={} families={} files={}", rows.len(), aux.len(), nfields, w.families.len(), w.files);
    for n in &w.notes {
        println!("XLATE-NOTE {}", n);
    }
}
