//! xlate-own: source -> Coq translator for the ownership graph of property C17 (DESIGN 3.4).
//!
//! Reads /repo's CURRENT sources with `syn` and emits, as plain data (no proofs):
//!   * the user-visible types of the iceoryx2 API (node, port factories, ports, samples, requests,
//!     responses, entry handles, wait-set guard) and every struct/enum of the scanned files that
//!     is reachable from them through fields, instantiated per generic argument that is itself
//!     one of these types (`ChunkMutInnerSharedState<PublisherSharedState>`, ...);
//!   * one edge per field:  Counted  = the field type (after peeling transparent containers such
//!     as Option/Vec/UnsafeCell) is a counted shared handle `Arc<T>` / `Rc<T>` /
//!     `Service::ArcThreadSafetyPolicy<T>` to another type of the table;
//!                          Owned    = the field holds another type of the table by value;
//!                          Borrow   = `&'a T` with a non-'static lifetime (compiler enforced);
//!                          StaticRef= `&'static T` (a reference into shared memory whose validity
//!                                     rests on a Counted/Owned edge of the same struct);
//!   * resource rows: fields whose type is an associated type of the `Service` trait
//!     (`Service::StaticStorage`, `Service::DynamicStorage<..>`, ...), i.e. which type's drop
//!     releases which OS-level resource handle;
//!   * for each type whether an `impl Drop` exists (finaliser present);
//!   * the concrete `ArcThreadSafetyPolicy` of each service variant and the std handle
//!     (`Rc`/`Arc`) inside it, read from iceoryx2-cal/src/arc_sync_policy and service/*.rs.
//!
//! usage: xlate-own <repo> <out.v> <out.json>
//! Anything the translator cannot resolve is an error naming file:line (exit code 3).

use std::collections::{BTreeMap, BTreeSet};
use std::fmt::Write as _;
use std::path::Path;

use quote::ToTokens;

const FILES: &[&str] = &[
    "iceoryx2/src/node/mod.rs",
    "iceoryx2/src/service/mod.rs",
    "iceoryx2/src/service/resource/mod.rs",
    "iceoryx2/src/service/resource/publish_subscribe.rs",
    "iceoryx2/src/service/resource/request_response.rs",
    "iceoryx2/src/service/resource/blackboard.rs",
    "iceoryx2/src/service/port_factory/publish_subscribe.rs",
    "iceoryx2/src/service/port_factory/event.rs",
    "iceoryx2/src/service/port_factory/request_response.rs",
    "iceoryx2/src/service/port_factory/blackboard.rs",
    "iceoryx2/src/port/publisher.rs",
    "iceoryx2/src/port/subscriber.rs",
    "iceoryx2/src/port/client.rs",
    "iceoryx2/src/port/server.rs",
    "iceoryx2/src/port/notifier.rs",
    "iceoryx2/src/port/listener.rs",
    "iceoryx2/src/port/writer.rs",
    "iceoryx2/src/port/reader.rs",
    "iceoryx2/src/port/details/chunk.rs",
    "iceoryx2/src/port/details/chunk_details.rs",
    "iceoryx2/src/port/details/chunk_mut_shared_state.rs",
    "iceoryx2/src/port/details/data_segment.rs",
    "iceoryx2/src/port/details/receiver.rs",
    "iceoryx2/src/port/details/sender.rs",
    "iceoryx2/src/port/details/segment_state.rs",
    "iceoryx2/src/sample.rs",
    "iceoryx2/src/sample_mut.rs",
    "iceoryx2/src/sample_mut_uninit.rs",
    "iceoryx2/src/request_mut.rs",
    "iceoryx2/src/request_mut_uninit.rs",
    "iceoryx2/src/pending_response.rs",
    "iceoryx2/src/active_request.rs",
    "iceoryx2/src/response.rs",
    "iceoryx2/src/response_mut.rs",
    "iceoryx2/src/response_mut_uninit.rs",
    "iceoryx2/src/waitset.rs",
];

/// user-visible roots: (file, struct, name in the table)
const ROOTS: &[(&str, &str, &str)] = &[
    ("iceoryx2/src/node/mod.rs", "Node", "Node"),
    ("iceoryx2/src/service/port_factory/publish_subscribe.rs", "PortFactory", "PortFactoryPubSub"),
    ("iceoryx2/src/service/port_factory/event.rs", "PortFactory", "PortFactoryEvent"),
    ("iceoryx2/src/service/port_factory/request_response.rs", "PortFactory", "PortFactoryReqRes"),
    ("iceoryx2/src/service/port_factory/blackboard.rs", "PortFactory", "PortFactoryBlackboard"),
    ("iceoryx2/src/port/publisher.rs", "Publisher", "Publisher"),
    ("iceoryx2/src/port/subscriber.rs", "Subscriber", "Subscriber"),
    ("iceoryx2/src/port/client.rs", "Client", "Client"),
    ("iceoryx2/src/port/server.rs", "Server", "Server"),
    ("iceoryx2/src/port/notifier.rs", "Notifier", "Notifier"),
    ("iceoryx2/src/port/listener.rs", "Listener", "Listener"),
    ("iceoryx2/src/port/writer.rs", "Writer", "Writer"),
    ("iceoryx2/src/port/reader.rs", "Reader", "Reader"),
    ("iceoryx2/src/sample.rs", "Sample", "Sample"),
    ("iceoryx2/src/sample_mut.rs", "SampleMut", "SampleMut"),
    ("iceoryx2/src/sample_mut_uninit.rs", "SampleMutUninit", "SampleMutUninit"),
    ("iceoryx2/src/request_mut.rs", "RequestMut", "RequestMut"),
    ("iceoryx2/src/request_mut_uninit.rs", "RequestMutUninit", "RequestMutUninit"),
    ("iceoryx2/src/pending_response.rs", "PendingResponse", "PendingResponse"),
    ("iceoryx2/src/active_request.rs", "ActiveRequest", "ActiveRequest"),
    ("iceoryx2/src/response.rs", "Response", "Response"),
    ("iceoryx2/src/response_mut.rs", "ResponseMut", "ResponseMut"),
    ("iceoryx2/src/response_mut_uninit.rs", "ResponseMutUninit", "ResponseMutUninit"),
    ("iceoryx2/src/port/reader.rs", "EntryHandle", "EntryHandle"),
    ("iceoryx2/src/port/writer.rs", "EntryHandleMut", "EntryHandleMut"),
    ("iceoryx2/src/port/writer.rs", "EntryValueUninit", "EntryValueUninit"),
    ("iceoryx2/src/waitset.rs", "WaitSetGuard", "WaitSetGuard"),
    ("iceoryx2/src/waitset.rs", "WaitSet", "WaitSet"),
];

/// generic wrappers that own their type arguments without sharing: peeled
const NO_OWNERSHIP: &[&str] = &["PhantomData"];
const COUNTED: &[&str] = &["Arc", "Rc"];
const POLICY_ASSOC: &str = "ArcThreadSafetyPolicy";

fn die(msg: String) -> ! {
    eprintln!("xlate-own: {}", msg);
    std::process::exit(3);
}

#[derive(Clone)]
struct Def {
    file: String,
    line: usize,
    name: String,
    generics: Vec<String>, // type parameters in order (lifetimes and consts skipped)
    fields: Vec<(String, syn::Type)>, // struct fields, or "Variant.idx" for enum variants
}

struct Scan {
    defs: Vec<Def>,
    by_name: BTreeMap<String, Vec<usize>>,
    uses: BTreeMap<String, BTreeMap<String, Vec<String>>>, // file -> ident -> module path
    drops: BTreeSet<(String, String)>,                     // (file, type name)
}

fn collect_use(tree: &syn::UseTree, prefix: &mut Vec<String>, out: &mut BTreeMap<String, Vec<String>>) {
    match tree {
        syn::UseTree::Path(p) => {
            prefix.push(p.ident.to_string());
            collect_use(&p.tree, prefix, out);
            prefix.pop();
        }
        syn::UseTree::Name(n) => {
            out.insert(n.ident.to_string(), prefix.clone());
        }
        syn::UseTree::Rename(r) => {
            let mut p = prefix.clone();
            p.push(format!("={}", r.ident));
            out.insert(r.rename.to_string(), p);
        }
        syn::UseTree::Group(g) => {
            for t in &g.items {
                collect_use(t, prefix, out);
            }
        }
        syn::UseTree::Glob(_) => {}
    }
}

fn type_params(g: &syn::Generics) -> Vec<String> {
    g.params
        .iter()
        .filter_map(|p| match p {
            syn::GenericParam::Type(t) => Some(t.ident.to_string()),
            _ => None,
        })
        .collect()
}

fn scan(repo: &Path) -> Scan {
    let mut s = Scan { defs: vec![], by_name: BTreeMap::new(), uses: BTreeMap::new(), drops: BTreeSet::new() };
    for f in FILES {
        let p = repo.join(f);
        let src = std::fs::read_to_string(&p).unwrap_or_else(|e| die(format!("{}: {}", p.display(), e)));
        let ast = syn::parse_file(&src).unwrap_or_else(|e| die(format!("{}: parse error: {}", f, e)));
        let mut uses = BTreeMap::new();
        for item in &ast.items {
            match item {
                syn::Item::Use(u) => collect_use(&u.tree, &mut vec![], &mut uses),
                syn::Item::Struct(st) => {
                    let mut fields = vec![];
                    for (i, fl) in st.fields.iter().enumerate() {
                        let n = fl.ident.as_ref().map(|x| x.to_string()).unwrap_or_else(|| i.to_string());
                        fields.push((n, fl.ty.clone()));
                    }
                    s.defs.push(Def {
                        file: f.to_string(),
                        line: st.ident.span().start().line,
                        name: st.ident.to_string(),
                        generics: type_params(&st.generics),
                        fields,
                    });
                }
                syn::Item::Enum(en) => {
                    let mut fields = vec![];
                    for v in &en.variants {
                        for (i, fl) in v.fields.iter().enumerate() {
                            let n = fl.ident.as_ref().map(|x| x.to_string()).unwrap_or_else(|| i.to_string());
                            fields.push((format!("{}.{}", v.ident, n), fl.ty.clone()));
                        }
                    }
                    s.defs.push(Def {
                        file: f.to_string(),
                        line: en.ident.span().start().line,
                        name: en.ident.to_string(),
                        generics: type_params(&en.generics),
                        fields,
                    });
                }
                syn::Item::Impl(im) => {
                    if let Some((_, tr, _)) = &im.trait_ {
                        if tr.segments.last().map(|x| x.ident == "Drop").unwrap_or(false) {
                            if let syn::Type::Path(tp) = &*im.self_ty {
                                if let Some(seg) = tp.path.segments.last() {
                                    s.drops.insert((f.to_string(), seg.ident.to_string()));
                                }
                            }
                        }
                    }
                }
                _ => {}
            }
        }
        s.uses.insert(f.to_string(), uses);
    }
    for (i, d) in s.defs.iter().enumerate() {
        s.by_name.entry(d.name.clone()).or_default().push(i);
    }
    s
}

fn module_path(file: &str) -> Vec<String> {
    // iceoryx2/src/port/details/sender.rs -> [port, details, sender]; .../node/mod.rs -> [node]
    let rel = file.trim_start_matches("iceoryx2/src/").trim_end_matches(".rs");
    let mut v: Vec<String> = rel.split('/').map(|x| x.to_string()).collect();
    if v.last().map(|x| x == "mod").unwrap_or(false) {
        v.pop();
    }
    v
}

impl Scan {
    /// definition a type name refers to, seen from `file`
    fn resolve(&self, file: &str, name: &str, path_prefix: &[String]) -> Option<usize> {
        let cands = self.by_name.get(name)?;
        if cands.len() == 1 {
            return Some(cands[0]);
        }
        // an explicit path in the type (`crate::port::details::sender::Connection`)
        let mut hint: Vec<String> = path_prefix.iter().filter(|x| !matches!(x.as_str(), "crate" | "super" | "self")).cloned().collect();
        if hint.is_empty() {
            if let Some(&c) = cands.iter().find(|&&c| self.defs[c].file == file) {
                return Some(c);
            }
            if let Some(u) = self.uses.get(file).and_then(|u| u.get(name)) {
                hint = u.iter().filter(|x| !matches!(x.as_str(), "crate" | "super" | "self") && !x.starts_with('=')).cloned().collect();
            }
        }
        let m: Vec<usize> = cands.iter().cloned().filter(|&c| module_path(&self.defs[c].file).ends_with(&hint)).collect();
        if m.len() == 1 && !hint.is_empty() {
            return Some(m[0]);
        }
        die(format!("{}: cannot decide which `{}` is meant (candidates in {:?})", file, name, cands.iter().map(|&c| &self.defs[c].file).collect::<Vec<_>>()));
    }
}

#[derive(Clone, Copy, PartialEq, Eq, PartialOrd, Ord, Debug)]
enum Kind {
    Counted,
    Owned,
    Borrow,
    StaticRef,
}

#[derive(Clone, Debug)]
struct NodeT {
    name: String,
    def: usize,
    args: Vec<Option<usize>>, // node index per type parameter, if it is a table type
    visible: bool,
}

struct Builder<'a> {
    scan: &'a Scan,
    nodes: Vec<NodeT>,
    index: BTreeMap<String, usize>,
    edges: Vec<(usize, usize, Kind, String)>,
    res: Vec<(usize, String, String)>,
    leaves: Vec<(usize, String, String, String)>, // (node, field, what, type text): counted leaves, raw pointers, foreign borrows
    todo: Vec<usize>,
}

fn ty_text(t: &syn::Type) -> String {
    let s = t.to_token_stream().to_string();
    s.replace(" :: ", "::").replace(" < ", "<").replace(" >", ">").replace("< ", "<").replace(" ,", ",").replace("& ", "&")
}

impl<'a> Builder<'a> {
    fn node_for(&mut self, def: usize, args: Vec<Option<usize>>, forced_name: Option<&str>) -> usize {
        let d = &self.scan.defs[def];
        let name = match forced_name {
            Some(n) => n.to_string(),
            None => {
                let a: Vec<String> = args.iter().flatten().map(|&i| self.nodes[i].name.clone()).collect();
                let base = if self.scan.by_name[&d.name].len() > 1 {
                    // disambiguate same-named types by their module
                    let m = module_path(&d.file);
                    format!("{}::{}", m.last().cloned().unwrap_or_default(), d.name)
                } else {
                    d.name.clone()
                };
                if a.is_empty() { base } else { format!("{}<{}>", base, a.join(",")) }
            }
        };
        // a root type keeps its root name whatever the route it is reached by
        let key = format!("{}|{}|{:?}", d.file, d.name, args);
        if let Some(&i) = self.index.get(&key) {
            return i;
        }
        let i = self.nodes.len();
        self.nodes.push(NodeT { name, def, args, visible: forced_name.is_some() });
        self.index.insert(key, i);
        self.todo.push(i);
        i
    }

    /// node a type denotes, if it is a struct/enum of the scanned files (or a bound type parameter)
    fn as_node(&mut self, file: &str, env: &BTreeMap<String, Option<usize>>, t: &syn::Type) -> Option<usize> {
        if let syn::Type::Path(tp) = t {
            if tp.qself.is_some() {
                return None;
            }
            let segs: Vec<&syn::PathSegment> = tp.path.segments.iter().collect();
            let last = segs.last()?;
            let name = last.ident.to_string();
            if segs.len() == 1 {
                if let Some(b) = env.get(&name) {
                    return *b;
                }
            }
            // `Service::X` / `S::X`: associated type of a type parameter, not a table type
            if segs.len() >= 2 && env.contains_key(&segs[0].ident.to_string()) {
                return None;
            }
            let prefix: Vec<String> = segs[..segs.len() - 1].iter().map(|s| s.ident.to_string()).collect();
            if !self.scan.by_name.contains_key(&name) {
                return None;
            }
            let def = self.scan.resolve(file, &name, &prefix)?;
            let params = self.scan.defs[def].generics.clone();
            let mut targs: Vec<&syn::Type> = vec![];
            if let syn::PathArguments::AngleBracketed(ab) = &last.arguments {
                for a in &ab.args {
                    if let syn::GenericArgument::Type(t) = a {
                        targs.push(t);
                    }
                }
            }
            let mut args = vec![];
            for (i, _) in params.iter().enumerate() {
                args.push(match targs.get(i) {
                    Some(t) => self.as_node(file, env, t),
                    None => None,
                });
            }
            // the root name, if this is a root reached with all-free arguments
            let d = &self.scan.defs[def];
            let root = ROOTS.iter().find(|r| r.0 == d.file && r.1 == d.name).map(|r| r.2);
            return Some(self.node_for(def, args, root));
        }
        None
    }

    fn walk(&mut self, me: usize, file: &str, env: &BTreeMap<String, Option<usize>>, field: &str, t: &syn::Type, kind: Kind) {
        match t {
            syn::Type::Reference(r) => {
                let k = match &r.lifetime {
                    Some(l) if l.ident == "static" => Kind::StaticRef,
                    _ => Kind::Borrow,
                };
                match self.as_node(file, env, &r.elem) {
                    Some(n) => self.edges.push((me, n, k, field.to_string())),
                    None => self.leaves.push((me, field.to_string(), format!("{:?}", k), ty_text(t))),
                }
            }
            syn::Type::Ptr(_) => self.leaves.push((me, field.to_string(), "RawPointer".into(), ty_text(t))),
            syn::Type::Tuple(tu) => {
                for e in &tu.elems {
                    self.walk(me, file, env, field, e, kind);
                }
            }
            syn::Type::Array(a) => self.walk(me, file, env, field, &a.elem, kind),
            syn::Type::Slice(a) => self.walk(me, file, env, field, &a.elem, kind),
            syn::Type::Paren(a) => self.walk(me, file, env, field, &a.elem, kind),
            syn::Type::Path(tp) => {
                if let Some(n) = self.as_node(file, env, t) {
                    self.edges.push((me, n, kind, field.to_string()));
                    return;
                }
                let segs: Vec<&syn::PathSegment> = tp.path.segments.iter().collect();
                let last = match segs.last() {
                    Some(l) => *l,
                    None => return,
                };
                let name = last.ident.to_string();
                if NO_OWNERSHIP.contains(&name.as_str()) {
                    return;
                }
                let mut targs: Vec<&syn::Type> = vec![];
                for s in &segs {
                    if let syn::PathArguments::AngleBracketed(ab) = &s.arguments {
                        for a in &ab.args {
                            if let syn::GenericArgument::Type(t) = a {
                                targs.push(t);
                            }
                        }
                    }
                }
                let is_counted = COUNTED.contains(&name.as_str()) || name == POLICY_ASSOC;
                let is_assoc = tp.qself.is_some() || (segs.len() >= 2 && env.contains_key(&segs[0].ident.to_string()));
                if is_counted {
                    for a in &targs {
                        match self.as_node(file, env, a) {
                            Some(n) => self.edges.push((me, n, Kind::Counted, field.to_string())),
                            None => self.leaves.push((me, field.to_string(), "CountedLeaf".into(), ty_text(t))),
                        }
                    }
                    return;
                }
                if is_assoc {
                    // an OS-level resource handle chosen by the service variant
                    self.res.push((me, field.to_string(), ty_text(t)));
                    return;
                }
                // transparent container or foreign type: look inside its type arguments
                for a in &targs {
                    self.walk(me, file, env, field, a, kind);
                }
            }
            _ => {}
        }
    }

    fn run(&mut self) {
        while let Some(i) = self.todo.pop() {
            let n = self.nodes[i].clone();
            let d = self.scan.defs[n.def].clone();
            let mut env: BTreeMap<String, Option<usize>> = BTreeMap::new();
            for (k, p) in d.generics.iter().enumerate() {
                env.insert(p.clone(), n.args.get(k).cloned().flatten());
            }
            for (fname, fty) in &d.fields {
                self.walk(i, &d.file, &env, fname, fty, Kind::Owned);
            }
        }
    }
}

fn policies(repo: &Path) -> Vec<(String, String, String)> {
    // (service variant file stem, policy struct, std handle inside)
    let mut handle_of: BTreeMap<String, String> = BTreeMap::new();
    for f in ["single_threaded.rs", "mutex_protected.rs"] {
        let p = repo.join("iceoryx2-cal/src/arc_sync_policy").join(f);
        let src = std::fs::read_to_string(&p).unwrap_or_else(|e| die(format!("{}: {}", p.display(), e)));
        let ast = syn::parse_file(&src).unwrap_or_else(|e| die(format!("{}: {}", f, e)));
        let mut impls = vec![];
        let mut structs: BTreeMap<String, Vec<String>> = BTreeMap::new();
        for it in &ast.items {
            match it {
                syn::Item::Struct(s) => {
                    structs.insert(s.ident.to_string(), s.fields.iter().map(|f| ty_text(&f.ty)).collect());
                }
                syn::Item::Impl(im) => {
                    if let Some((_, tr, _)) = &im.trait_ {
                        if tr.segments.last().map(|x| x.ident == "ArcSyncPolicy").unwrap_or(false) {
                            if let syn::Type::Path(tp) = &*im.self_ty {
                                impls.push(tp.path.segments.last().unwrap().ident.to_string());
                            }
                        }
                    }
                }
                _ => {}
            }
        }
        for i in impls {
            let fs = structs.get(&i).unwrap_or_else(|| die(format!("{}: struct {} not found", f, i)));
            let h = fs.iter().find_map(|t| if t.starts_with("Rc<") { Some("Rc") } else if t.starts_with("Arc<") { Some("Arc") } else { None });
            match h {
                Some(h) => {
                    handle_of.insert(i, h.to_string());
                }
                None => die(format!("{}: {} implements ArcSyncPolicy but holds neither Rc nor Arc: {:?}", f, i, fs)),
            }
        }
    }
    let mut out = vec![];
    for v in ["local", "local_threadsafe", "ipc", "ipc_threadsafe"] {
        let p = repo.join("iceoryx2/src/service").join(format!("{}.rs", v));
        let src = std::fs::read_to_string(&p).unwrap_or_else(|e| die(format!("{}: {}", p.display(), e)));
        let ast = syn::parse_file(&src).unwrap_or_else(|e| die(format!("{}: {}", v, e)));
        let mut found = false;
        for it in &ast.items {
            if let syn::Item::Impl(im) = it {
                for ii in &im.items {
                    if let syn::ImplItem::Type(t) = ii {
                        if t.ident == POLICY_ASSOC {
                            if let syn::Type::Path(tp) = &t.ty {
                                let pol = tp.path.segments.last().unwrap().ident.to_string();
                                let h = handle_of.get(&pol).unwrap_or_else(|| die(format!("{}: unknown policy {}", v, pol)));
                                out.push((v.to_string(), pol, h.clone()));
                                found = true;
                            }
                        }
                    }
                }
            }
        }
        if !found {
            die(format!("{}: no `type {}`", v, POLICY_ASSOC));
        }
    }
    out
}

// ------------------------------------------------------------------------------------------
// decision rows: the conditions under which a receiver keeps / removes the connection of a sender
// that has gone away (port/details/receiver.rs); conditions are emitted as token text
// ------------------------------------------------------------------------------------------
struct CondFinder {
    in_fn: Option<String>,
    rows: Vec<(String, String)>,
}

fn toks<T: ToTokens>(t: &T) -> String {
    t.to_token_stream().to_string()
}

fn block_has_break(b: &syn::Block) -> bool {
    b.stmts.iter().any(|s| matches!(s, syn::Stmt::Expr(syn::Expr::Break(_), _)))
}

impl<'ast> syn::visit::Visit<'ast> for CondFinder {
    fn visit_impl_item_fn(&mut self, f: &'ast syn::ImplItemFn) {
        let prev = self.in_fn.replace(f.sig.ident.to_string());
        syn::visit::visit_impl_item_fn(self, f);
        self.in_fn = prev;
    }
    fn visit_expr_if(&mut self, e: &'ast syn::ExprIf) {
        match self.in_fn.as_deref() {
            Some("receiver_channels_have_data_or_borrows") if block_has_break(&e.then_branch) => {
                self.rows.push(("receiver_channels_have_data_or_borrows.break_if".into(), toks(&*e.cond)));
            }
            Some("receive_from_to_be_removed_connections") if toks(&*e.cond).contains("has_borrows") => {
                self.rows.push(("receive_from_to_be_removed_connections.remove_if".into(), toks(&*e.cond)));
            }
            _ => {}
        }
        syn::visit::visit_expr_if(self, e);
    }
    fn visit_local(&mut self, l: &'ast syn::Local) {
        if self.in_fn.as_deref() == Some("prepare_connection_removal") && toks(&l.pat) == "keep_connection" {
            if let Some(init) = &l.init {
                self.rows.push(("prepare_connection_removal.keep_connection".into(), toks(&*init.expr)));
            }
        }
        syn::visit::visit_local(self, l);
    }
}

fn decision_rows(repo: &Path) -> Vec<(String, String)> {
    let f = "iceoryx2/src/port/details/receiver.rs";
    let src = std::fs::read_to_string(repo.join(f)).unwrap_or_else(|e| die(format!("{}: {}", f, e)));
    let ast = syn::parse_file(&src).unwrap_or_else(|e| die(format!("{}: parse error: {}", f, e)));
    let mut c = CondFinder { in_fn: None, rows: vec![] };
    syn::visit::Visit::visit_file(&mut c, &ast);
    for want in ["receiver_channels_have_data_or_borrows.break_if", "receive_from_to_be_removed_connections.remove_if", "prepare_connection_removal.keep_connection"] {
        let n = c.rows.iter().filter(|r| r.0 == want).count();
        if n != 1 {
            die(format!("{}: expected exactly one `{}` decision, found {}", f, want, n));
        }
    }
    c.rows.extend(capacity_rows(repo));
    c.rows.extend(open_order_rows(repo));
    c.rows.sort();
    c.rows
}

// the capacity of a subscriber's list of expired connections (port/subscriber.rs, Subscriber::new)
struct CapFinder {
    in_fn: Option<String>,
    in_field: bool,
    rows: Vec<(String, String)>,
}

fn tail_expr(b: &syn::Block) -> String {
    match b.stmts.last() {
        Some(syn::Stmt::Expr(e, None)) => toks(e),
        _ => "?".into(),
    }
}

impl<'ast> syn::visit::Visit<'ast> for CapFinder {
    fn visit_impl_item_fn(&mut self, f: &'ast syn::ImplItemFn) {
        let prev = self.in_fn.replace(f.sig.ident.to_string());
        syn::visit::visit_impl_item_fn(self, f);
        self.in_fn = prev;
    }
    fn visit_local(&mut self, l: &'ast syn::Local) {
        if self.in_fn.as_deref() == Some("new") && toks(&l.pat) == "number_of_to_be_removed_connections" {
            if let Some(init) = &l.init {
                let text = match &*init.expr {
                    syn::Expr::If(e) => {
                        let els = match &e.else_branch {
                            Some((_, b)) => match &**b { syn::Expr::Block(bb) => tail_expr(&bb.block), o => toks(o) },
                            None => "?".into(),
                        };
                        format!("if {} then {} else {}", toks(&*e.cond), tail_expr(&e.then_branch), els)
                    }
                    o => toks(o),
                };
                self.rows.push(("Subscriber::new.number_of_to_be_removed_connections".into(), text));
            }
        }
        syn::visit::visit_local(self, l);
    }
    fn visit_field_value(&mut self, fv: &'ast syn::FieldValue) {
        let is = self.in_fn.as_deref() == Some("new") && toks(&fv.member) == "to_be_removed_connections";
        let prev = self.in_field;
        if is { self.in_field = true; }
        syn::visit::visit_field_value(self, fv);
        self.in_field = prev;
    }
    fn visit_expr_call(&mut self, c: &'ast syn::ExprCall) {
        if self.in_field && toks(&*c.func).replace(' ', "") == "PolymorphicVec::new" && c.args.len() == 2 {
            self.rows.push(("Subscriber::new.to_be_removed_connections.capacity".into(), toks(&c.args[1])));
        }
        syn::visit::visit_expr_call(self, c);
    }
}

fn capacity_rows(repo: &Path) -> Vec<(String, String)> {
    let f = "iceoryx2/src/port/subscriber.rs";
    let src = std::fs::read_to_string(repo.join(f)).unwrap_or_else(|e| die(format!("{}: {}", f, e)));
    let ast = syn::parse_file(&src).unwrap_or_else(|e| die(format!("{}: parse error: {}", f, e)));
    let mut c = CapFinder { in_fn: None, in_field: false, rows: vec![] };
    syn::visit::Visit::visit_file(&mut c, &ast);
    for want in ["Subscriber::new.number_of_to_be_removed_connections", "Subscriber::new.to_be_removed_connections.capacity"] {
        let n = c.rows.iter().filter(|r| r.0 == want).count();
        if n != 1 {
            die(format!("{}: expected exactly one `{}` row, found {}", f, want, n));
        }
    }
    c.rows
}

// order of the fallible steps and of `service_tag.release_ownership()` in BuilderWithServiceType::open
// (service/builder/mod.rs): positions of the first occurrence of each marker in the function body
fn open_order_rows(repo: &Path) -> Vec<(String, String)> {
    let f = "iceoryx2/src/service/builder/mod.rs";
    let src = std::fs::read_to_string(repo.join(f)).unwrap_or_else(|e| die(format!("{}: {}", f, e)));
    let ast = syn::parse_file(&src).unwrap_or_else(|e| die(format!("{}: parse error: {}", f, e)));
    let mut found = vec![];
    for item in &ast.items {
        if let syn::Item::Impl(im) = item {
            for ii in &im.items {
                if let syn::ImplItem::Fn(func) = ii {
                    if func.sig.ident == "open" {
                        let t = toks(&func.block).replace(' ', "");
                        let marks = [("create_service_tag", "create_service_tag("), ("open_service_resource", "open_service_resource("),
                                     ("open_dynamic_config_storage", ".open_dynamic_config_storage("), ("release_tag_ownership", "service_tag.release_ownership()")];
                        let mut pos: Vec<(usize, &str)> = vec![];
                        for (name, pat) in marks {
                            match t.find(pat) {
                                Some(i) => pos.push((i, name)),
                                None => die(format!("{}: fn open: `{}` not found", f, pat)),
                            }
                        }
                        pos.sort();
                        found.push(pos.iter().map(|p| p.1).collect::<Vec<_>>().join(" < "));
                    }
                }
            }
        }
    }
    if found.len() != 1 {
        die(format!("{}: expected exactly one fn open with the service-tag protocol, found {}", f, found.len()));
    }
    vec![("BuilderWithServiceType::open.step_order".into(), found.remove(0))]
}

fn coq_str(s: &str) -> String {
    format!("\"{}\"", s.replace('"', "\"\""))
}

fn json_str(s: &str) -> String {
    format!("\"{}\"", s.replace('\\', "\\\\").replace('"', "\\\""))
}

fn main() {
    let a: Vec<String> = std::env::args().collect();
    if a.len() != 4 {
        eprintln!("usage: xlate-own <repo> <out.v> <out.json>");
        std::process::exit(2);
    }
    let repo = Path::new(&a[1]);
    let sc = scan(repo);
    let mut b = Builder { scan: &sc, nodes: vec![], index: BTreeMap::new(), edges: vec![], res: vec![], leaves: vec![], todo: vec![] };
    for (file, st, name) in ROOTS {
        let def = sc
            .defs
            .iter()
            .position(|d| d.file == *file && d.name == *st)
            .unwrap_or_else(|| die(format!("{}: user-visible type `{}` not found", file, st)));
        let n = sc.defs[def].generics.len();
        b.node_for(def, vec![None; n], Some(name));
        // breadth first per root keeps the numbering stable under local edits
        b.run();
    }
    // stable numbering: the user-visible roots in the order of ROOTS, then every other type by name
    // (an added field then changes one row, it does not renumber the table)
    {
        let mut order: Vec<usize> = (0..b.nodes.len()).collect();
        let root_pos = |n: &NodeT| ROOTS.iter().position(|r| r.2 == n.name && n.visible);
        order.sort_by(|&x, &y| {
            let (nx, ny) = (&b.nodes[x], &b.nodes[y]);
            match (root_pos(nx), root_pos(ny)) {
                (Some(a), Some(c)) => a.cmp(&c),
                (Some(_), None) => std::cmp::Ordering::Less,
                (None, Some(_)) => std::cmp::Ordering::Greater,
                (None, None) => nx.name.cmp(&ny.name),
            }
        });
        let mut newid = vec![0usize; b.nodes.len()];
        for (new, &old) in order.iter().enumerate() {
            newid[old] = new;
        }
        let nodes: Vec<NodeT> = order.iter().map(|&o| b.nodes[o].clone()).collect();
        b.nodes = nodes;
        for e in b.edges.iter_mut() {
            e.0 = newid[e.0];
            e.1 = newid[e.1];
        }
        for r in b.res.iter_mut() {
            r.0 = newid[r.0];
        }
        for l in b.leaves.iter_mut() {
            l.0 = newid[l.0];
        }
    }
    // field declaration order inside one source type: stable sort by source only (fields were walked in order)
    let edges = b.edges.clone();
    let mut edges_decl = b.edges.clone();
    edges_decl.sort_by_key(|e| e.0);
    let kinds = |k: Kind| match k {
        Kind::Counted => "Counted",
        Kind::Owned => "Owned",
        Kind::Borrow => "Borrow",
        Kind::StaticRef => "StaticRef",
    };

    let mut v = String::new();
    writeln!(v, "(* GENERATED by harness/xlate-own from the sources of /repo -- data only, do not edit.").unwrap();
    writeln!(v, "   The committed copy is the last accepted table; tools/checks/C17.py regenerates, diffs and rebuilds.").unwrap();
    writeln!(v, "   own_types : (id, name, has `impl Drop`, user-visible)").unwrap();
    writeln!(v, "   own_edges : (source id, target id, kind, field), fields in declaration order per source").unwrap();
    writeln!(v, "   own_res   : (type id, field, associated type of the Service trait held by value) *)").unwrap();
    writeln!(v, "From Coq Require Import List String.").unwrap();
    writeln!(v, "Import ListNotations.").unwrap();
    writeln!(v, "Local Open Scope string_scope.").unwrap();
    writeln!(v, "Inductive ekind := Counted | Owned | Borrow | StaticRef.").unwrap();
    writeln!(v, "Definition own_types : list (nat * string * bool * bool) := [").unwrap();
    for (i, n) in b.nodes.iter().enumerate() {
        let d = &sc.defs[n.def];
        let has_drop = sc.drops.contains(&(d.file.clone(), d.name.clone()));
        writeln!(
            v,
            "  ({}, {}, {}, {}){}   (* {} *)",
            i,
            coq_str(&n.name),
            has_drop,
            n.visible,
            if i + 1 < b.nodes.len() { ";" } else { "" },
            d.file
        )
        .unwrap();
    }
    writeln!(v, "].").unwrap();
    writeln!(v, "Definition own_edges : list (nat * nat * ekind * string) := [").unwrap();
    for (i, e) in edges_decl.iter().enumerate() {
        writeln!(
            v,
            "  ({}, {}, {}, {}){}   (* {} -> {} *)",
            e.0,
            e.1,
            kinds(e.2),
            coq_str(&e.3),
            if i + 1 < edges_decl.len() { ";" } else { "" },
            b.nodes[e.0].name,
            b.nodes[e.1].name
        )
        .unwrap();
    }
    writeln!(v, "].").unwrap();
    writeln!(v, "Definition own_res : list (nat * string * string) := [").unwrap();
    let mut res = b.res.clone();
    res.sort_by_key(|r| r.0);
    for (i, r) in res.iter().enumerate() {
        writeln!(v, "  ({}, {}, {}){}   (* {} *)", r.0, coq_str(&r.1), coq_str(&r.2), if i + 1 < res.len() { ";" } else { "" }, b.nodes[r.0].name).unwrap();
    }
    writeln!(v, "].").unwrap();
    let pol = policies(repo);
    writeln!(v, "(* (service variant, its ArcThreadSafetyPolicy, the std counted handle inside the policy) *)").unwrap();
    writeln!(v, "Definition own_policies : list (string * string * string) := [").unwrap();
    for (i, p) in pol.iter().enumerate() {
        writeln!(v, "  ({}, {}, {}){}", coq_str(&p.0), coq_str(&p.1), coq_str(&p.2), if i + 1 < pol.len() { ";" } else { "" }).unwrap();
    }
    writeln!(v, "].").unwrap();
    let dec = decision_rows(repo);
    writeln!(v, "(* conditions of port/details/receiver.rs that decide whether the connection of a departed sender is kept: (site, condition as token text) *)").unwrap();
    writeln!(v, "Definition own_decisions : list (string * string) := [").unwrap();
    for (i, d) in dec.iter().enumerate() {
        writeln!(v, "  ({}, {}){}", coq_str(&d.0), coq_str(&d.1), if i + 1 < dec.len() { ";" } else { "" }).unwrap();
    }
    writeln!(v, "].").unwrap();
    std::fs::write(&a[2], v).unwrap_or_else(|e| die(format!("{}: {}", a[2], e)));

    // JSON copy (rows as readable strings so that the check can name the row that moved)
    let mut j = String::new();
    j.push_str("{\n \"types\": [\n");
    for (i, n) in b.nodes.iter().enumerate() {
        let d = &sc.defs[n.def];
        let has_drop = sc.drops.contains(&(d.file.clone(), d.name.clone()));
        write!(j, "  {{\"name\": {}, \"has_drop\": {}, \"visible\": {}, \"file\": {}}}{}\n", json_str(&n.name), has_drop, n.visible, json_str(&d.file), if i + 1 < b.nodes.len() { "," } else { "" }).unwrap();
    }
    j.push_str(" ],\n \"edges\": [\n");
    for (i, e) in edges_decl.iter().enumerate() {
        write!(j, "  {}{}\n", json_str(&format!("{} -{}-> {} [{}]", b.nodes[e.0].name, kinds(e.2), b.nodes[e.1].name, e.3)), if i + 1 < edges_decl.len() { "," } else { "" }).unwrap();
    }
    j.push_str(" ],\n \"resources\": [\n");
    for (i, r) in res.iter().enumerate() {
        write!(j, "  {}{}\n", json_str(&format!("{}.{} : {}", b.nodes[r.0].name, r.1, r.2)), if i + 1 < res.len() { "," } else { "" }).unwrap();
    }
    j.push_str(" ],\n \"leaves\": [\n");
    for (i, l) in b.leaves.iter().enumerate() {
        write!(j, "  {}{}\n", json_str(&format!("{}.{} : {} {}", b.nodes[l.0].name, l.1, l.2, l.3)), if i + 1 < b.leaves.len() { "," } else { "" }).unwrap();
    }
    j.push_str(" ],\n \"policies\": [\n");
    for (i, p) in pol.iter().enumerate() {
        write!(j, "  {}{}\n", json_str(&format!("{} : {} ({})", p.0, p.1, p.2)), if i + 1 < pol.len() { "," } else { "" }).unwrap();
    }
    j.push_str(" ],\n \"decisions\": [\n");
    for (i, d) in dec.iter().enumerate() {
        write!(j, "  {}{}\n", json_str(&format!("{} : {}", d.0, d.1)), if i + 1 < dec.len() { "," } else { "" }).unwrap();
    }
    j.push_str(" ]\n}\n");
    std::fs::write(&a[3], j).unwrap_or_else(|e| die(format!("{}: {}", a[3], e)));
    let _ = edges;
}
