//! Slices the three pub(crate) connection-name functions out of the CURRENT
//! /repo/iceoryx2/src/service/naming_scheme.rs (they cannot be reached through the public API)
//! so that the harness executes exactly the source text that is in the working tree.
use std::io::Write;

fn slice_fn(src: &str, name: &str) -> String {
    let pat = format!("fn {}(", name);
    let start = src.find(&pat).unwrap_or_else(|| panic!("function {} not found in naming_scheme.rs", name));
    let open = start + src[start..].find('{').expect("no body");
    let mut depth = 0usize;
    let mut end = open;
    for (i, ch) in src[open..].char_indices() {
        if ch == '{' { depth += 1; }
        if ch == '}' { depth -= 1; if depth == 0 { end = open + i + 1; break; } }
    }
    format!("pub {}\n", &src[start..end])
}

fn main() {
    let repo = std::env::var("VERIF_REPO").unwrap_or_else(|_| "/repo".to_string());
    let path = format!("{}/iceoryx2/src/service/naming_scheme.rs", repo);
    println!("cargo:rerun-if-changed={}", path);
    println!("cargo:rerun-if-env-changed=VERIF_REPO");
    let src = std::fs::read_to_string(&path).expect("naming_scheme.rs");
    let mut out = String::new();
    for f in ["connection_name", "extract_sender_port_id_from_connection", "extract_receiver_port_id_from_connection"] {
        out.push_str(&slice_fn(&src, f));
    }
    let dst = format!("{}/naming_slice.rs", std::env::var("OUT_DIR").unwrap());
    std::fs::File::create(dst).unwrap().write_all(out.as_bytes()).unwrap();
}
