//! Isolation scenarios on the real file system (a fresh directory under /tmp per run):
//!  1. cal level: two static_storage::file configurations sharing one directory; each creates
//!     its storages, then lists.  `O listf <prefix> <suffix> <hint> <dir files> <own names> <other prefixes> = <listed>`
//!     (spec: listed = own names; model: extract_name_from_file over the directory content).
//!  2. API level: two iceoryx2 `Config`s (same root, prefixes P1 / P2) creating nodes and
//!     services and listing in each other's presence; printed as `O note ...` lines
//!     (`ISO ...` on stderr-free stdout lines are read by the check, ignored by the driver).
use crate::*;
use iceoryx2::config::Config;
use iceoryx2::node::{Node, NodeBuilder, NodeState, NodeView};
use iceoryx2::prelude::{CallbackProgression, MessagingPattern};
use iceoryx2::service::{ipc, Service};
use iceoryx2_cal::named_concept::{NamedConceptBuilder, NamedConceptConfiguration, NamedConceptMgmt};
use iceoryx2_cal::static_storage::file::{Builder, Configuration as FileCfg, Storage};
use iceoryx2_cal::static_storage::StaticStorageBuilder;

fn dir_files(dir: &str) -> Vec<Vec<u8>> {
    let mut v: Vec<Vec<u8>> = std::fs::read_dir(dir).map(|rd| rd.filter_map(|e| e.ok()).filter(|e| e.file_type().map(|t| t.is_file()).unwrap_or(false))
        .map(|e| { use std::os::unix::ffi::OsStrExt; e.file_name().as_bytes().to_vec() }).collect()).unwrap_or_default();
    v.sort();
    v
}
fn join_hex(v: &[Vec<u8>]) -> String { if v.is_empty() { "[]".into() } else { v.iter().map(|b| hex(b)).collect::<Vec<_>>().join(",") } }

fn cal_scenario(out: &mut Out, root: &str, tag: &str, p1: &[u8], p2: &[u8], sfx: &[u8], names1: &[&[u8]], names2: &[&[u8]], stray: &[&[u8]]) {
    let dir = format!("{}/{}", root, tag);
    let _ = std::fs::create_dir_all(&dir);
    let hint = Path::new(dir.as_bytes()).unwrap();
    let mk = |p: &[u8]| FileCfg::default().prefix(&FileName::new(p).unwrap()).suffix(&FileName::new(sfx).unwrap()).path_hint(&hint);
    let (c1, c2) = (mk(p1), mk(p2));
    let mut keep: Vec<Storage> = vec![];
    for (cfg, names) in [(&c1, names1), (&c2, names2)] {
        for n in names.iter() {
            // names that FileName::new rejects can only come from file_name()/entries(): same bytes, new_unchecked
            let name = FileName::new(n).unwrap_or_else(|_| unsafe { FileName::new_unchecked(n) });
            match guarded(|| Builder::new(&name).config(cfg).has_ownership(true).create(b"content")) {
                Some(Ok(s)) => keep.push(s),
                other => out.line(&format!("O note create-failed {} {} {:?}", tag, hex(n), other.map(|r| r.err()))),
            }
        }
    }
    for s in stray { let _ = std::fs::write(format!("{}/{}", dir, String::from_utf8_lossy(s)), b"x"); }
    let files = dir_files(&dir);
    for (cfg, p, own) in [(&c1, p1, names1), (&c2, p2, names2)] {
        let listed = guarded(|| Storage::list_cfg(cfg));
        let mut own: Vec<Vec<u8>> = own.iter().map(|n| n.to_vec()).collect(); own.sort();
        let obs = match listed {
            None => "P".to_string(),
            Some(Err(e)) => format!("err:{:?}", e),
            Some(Ok(l)) => { let mut l: Vec<Vec<u8>> = l.iter().map(|f| f.as_bytes().to_vec()).collect(); l.sort(); join_hex(&l) }
        };
        let other: Vec<Vec<u8>> = [p1, p2].iter().filter(|q| **q != p).map(|q| q.to_vec()).collect();
        out.line(&format!("O listf {} {} {} {} {} {} = {}", hex(p), hex(sfx), hex(dir.as_bytes()), join_hex(&files), join_hex(&own), join_hex(&other), obs));
        // does_exist of the other configuration's names through this configuration
        for (q, other) in [(p1, names1), (p2, names2)] {
            if q == p { continue; }
            for n in other.iter() {
                let r = guarded(|| Storage::does_exist_cfg(&FileName::new(n).unwrap_or_else(|_| unsafe { FileName::new_unchecked(n) }), cfg));
                out.line(&format!("O note cal-does-exist {} cfg={} name={} of={} -> {:?}", tag, hex(p), hex(n), hex(q), r));
            }
        }
    }
    drop(keep);
    for s in stray { let _ = std::fs::remove_file(format!("{}/{}", dir, String::from_utf8_lossy(s))); }
}

fn api_scenario(out: &mut Out, root: &str, tag: &str, p1: &[u8], p2: &[u8]) {
    let dir = format!("{}/{}", root, tag);
    let _ = std::fs::create_dir_all(&dir);
    let mk = |p: &[u8]| { let mut c = Config::default(); c.global.set_root_path(&Path::new(dir.as_bytes()).unwrap()); c.global.prefix = FileName::new(p).unwrap(); c };
    let (c1, c2) = (mk(p1), mk(p2));
    let r = guarded(|| {
        let n1 = NodeBuilder::new().name(&"node-one".try_into().unwrap()).config(&c1).create::<ipc::Service>().unwrap();
        let n2 = NodeBuilder::new().name(&"node-two".try_into().unwrap()).config(&c2).create::<ipc::Service>().unwrap();
        let s1 = n1.service_builder(&"svc-one".try_into().unwrap()).publish_subscribe::<u64>().create().unwrap();
        let s2 = n2.service_builder(&"svc-two".try_into().unwrap()).publish_subscribe::<u64>().create().unwrap();
        let mut lines = vec![];
        for (who, cfg) in [("1", &c1), ("2", &c2)] {
            let mut nodes: Vec<String> = vec![];
            let lr = guarded(|| Node::<ipc::Service>::list(cfg, |st| {
                nodes.push(match &st {
                    NodeState::Alive(v) => format!("alive:{}", v.details().as_ref().map(|d| d.name().as_str().to_string()).unwrap_or("?".into())),
                    NodeState::Dead(v) => format!("dead:{}", v.details().as_ref().map(|d| d.name().as_str().to_string()).unwrap_or("?".into())),
                    NodeState::Inaccessible(_) => "inaccessible".into(),
                    NodeState::Undefined(_) => "undefined".into(),
                });
                CallbackProgression::Continue
            }));
            nodes.sort();
            lines.push(format!("ISO {} nodes-listed-by-{} prefix={} other={} -> {} [{}]", tag, who, String::from_utf8_lossy(if who == "1" { p1 } else { p2 }), String::from_utf8_lossy(if who == "1" { p2 } else { p1 }),
                match lr { None => "PANIC".to_string(), Some(r) => format!("{:?}", r.is_ok()) }, nodes.join(",")));
            let mut svcs: Vec<String> = vec![];
            let lr = guarded(|| ipc::Service::list(cfg, |d| { svcs.push(d.static_details.name().as_str().to_string()); CallbackProgression::Continue }));
            svcs.sort();
            lines.push(format!("ISO {} services-listed-by-{} prefix={} other={} -> {} [{}]", tag, who, String::from_utf8_lossy(if who == "1" { p1 } else { p2 }), String::from_utf8_lossy(if who == "1" { p2 } else { p1 }),
                match lr { None => "PANIC".to_string(), Some(r) => format!("{:?}", r.is_ok()) }, svcs.join(",")));
            for sn in ["svc-one", "svc-two"] {
                let e = guarded(|| ipc::Service::does_exist(&sn.try_into().unwrap(), cfg, MessagingPattern::PublishSubscribe));
                lines.push(format!("ISO {} does-exist-by-{} {} -> {:?}", tag, who, sn, e.map(|r| r.ok())));
            }
        }
        let files: Vec<String> = ["nodes", "services"].iter().flat_map(|d| dir_files(&format!("{}/{}", dir, d)).into_iter().map(move |f| format!("{}/{}", d, String::from_utf8_lossy(&f)))).collect();
        lines.push(format!("ISO {} files {}", tag, files.join(" ")));
        drop(s1); drop(s2); drop(n1); drop(n2);
        lines
    });
    match r {
        Some(lines) => for l in lines { out.line(&l); },
        None => out.line(&format!("ISO {} scenario-panicked", tag)),
    }
}

pub fn run(a: &Args, out: &mut Out) {
    out.line("C iso -");
    let root = format!("/tmp/verif_c19_{}_{}", a.seed, a.level);
    let _ = std::fs::remove_dir_all(&root);
    std::fs::create_dir_all(&root).unwrap();
    // cal level
    cal_scenario(out, &root, "disjoint", b"a_", b"b_", b".service", &[b"one", b"two"], &[b"three"], &[]);
    cal_scenario(out, &root, "prefix-of-prefix", b"a_", b"a_b", b".service", &[b"one", b"bee"], &[b"three"], &[]);
    cal_scenario(out, &root, "default-std-vs-no-std", b"iox2_", b"iox2_no_std_", b".service", &[b"one"], &[b"three"], &[]);
    cal_scenario(out, &root, "suffix-of-suffix", b"a_", b"b_", b".s", &[b"one"], &[b"three"], &[]);
    cal_scenario(out, &root, "stray-file", b"a_", b"b_", b".service", &[b"one"], &[b"three"], &[b"a_.service"]);
    cal_scenario(out, &root, "stray-file-dot", b"a_", b"b_", b".service", &[b"one"], &[b"three"], &[b"b_..service"]);
    // names obtained from the unchecked conversions FilePath::file_name() / Path::entries()
    {
        let n1 = FilePath::new(b"d/x\\y").unwrap().file_name();
        let n2 = Path::new(b"/tmp/..").unwrap().entries()[1];
        out.line(&format!("O note unchecked-names file_name={} revalidates={:?} entry={} revalidates={:?}", hex(n1.as_bytes()), FileName::new(n1.as_bytes()).is_ok(), hex(n2.as_bytes()), FileName::new(n2.as_bytes()).is_ok()));
        cal_scenario(out, &root, "unchecked-name-backslash", b"a_", b"b_", b".service", &[b"one", n1.as_bytes()], &[b"three"], &[]);
        cal_scenario(out, &root, "unchecked-name-dotdot", b"a_", b"b_", b".service", &[b"one", n2.as_bytes()], &[b"three"], &[]);
    }
    // API level
    if a.level >= 1 {
        api_scenario(out, &root, "api-disjoint", b"a_", b"b_");
        api_scenario(out, &root, "api-prefix-of-prefix", b"a_", b"a_b");
        api_scenario(out, &root, "api-prefix-digit", b"a_", b"a_1");
        api_scenario(out, &root, "api-default-std-vs-no-std", b"iox2_", b"iox2_no_std_");
    }
    let _ = std::fs::remove_dir_all(&root);
}
