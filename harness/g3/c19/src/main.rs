//! G3 correspondence harness for C19: runs constructors, mutators and the naming-scheme
//! functions of the REAL semantic string types and prints one observation per operation.
//! usage: c19 <mode> <type|-> <level> <shard> <nshards> <seed> [ncases]
//!   mode = exh-new | exh-mut | rnd | fun | iso | reg (regression histories of repaired defects)
//! Byte strings are printed as lowercase hex, the empty string as "-".
extern crate iceoryx2_bb_loggers;

use std::io::Write;
use std::panic::{catch_unwind, AssertUnwindSafe};

use iceoryx2_bb_container::semantic_string::{SemanticString, SemanticStringError};
use iceoryx2_bb_system_types::base64url::Base64Url;
use iceoryx2_bb_system_types::file_name::{FileName, RestrictedFileName};
use iceoryx2_bb_system_types::file_path::FilePath;
use iceoryx2_bb_system_types::group_name::GroupName;
use iceoryx2_bb_system_types::path::Path;
use iceoryx2_bb_system_types::user_name::UserName;

mod funs;
mod iso;

pub struct Rng(pub u64);
impl Rng {
    pub fn next(&mut self) -> u64 {
        self.0 = self.0.wrapping_add(0x9E3779B97F4A7C15);
        let mut z = self.0;
        z = (z ^ (z >> 30)).wrapping_mul(0xBF58476D1CE4E5B9);
        z = (z ^ (z >> 27)).wrapping_mul(0x94D049BB133111EB);
        z ^ (z >> 31)
    }
    pub fn below(&mut self, n: u64) -> u64 {
        if n == 0 { 0 } else { self.next() % n }
    }
    pub fn pick<'a, T>(&mut self, xs: &'a [T]) -> &'a T {
        &xs[self.below(xs.len() as u64) as usize]
    }
}

pub fn hex(b: &[u8]) -> String {
    if b.is_empty() { return "-".into(); }
    let mut s = String::with_capacity(b.len() * 2);
    for c in b { s.push_str(&format!("{:02x}", c)); }
    s
}

pub fn guarded<R>(f: impl FnOnce() -> R) -> Option<R> {
    catch_unwind(AssertUnwindSafe(f)).ok()
}

pub struct Out { pub w: std::io::BufWriter<std::io::Stdout> }
impl Out {
    pub fn line(&mut self, s: &str) { let _ = self.w.write_all(s.as_bytes()); let _ = self.w.write_all(b"\n"); }
}

pub struct Args { pub mode: String, pub ty: String, pub level: usize, pub shard: u64, pub nshards: u64, pub seed: u64, pub ncases: u64 }

pub fn err_str(e: SemanticStringError) -> &'static str {
    match e { SemanticStringError::InvalidContent => "eC", SemanticStringError::ExceedsMaximumLength => "eL" }
}

#[derive(Clone, Debug)]
pub enum Pred { Eq(u8), Lt(u8), Ge(u8), All, None }
impl Pred {
    fn f(&self, c: u8) -> bool { match *self { Pred::Eq(d) => c == d, Pred::Lt(d) => c < d, Pred::Ge(d) => c >= d, Pred::All => true, Pred::None => false } }
    fn show(&self) -> String { match *self { Pred::Eq(d) => format!("eq {}", d), Pred::Lt(d) => format!("lt {}", d), Pred::Ge(d) => format!("ge {}", d), Pred::All => "all".into(), Pred::None => "none".into() } }
}

#[derive(Clone, Debug)]
pub enum Op { Push(u8), PushB(Vec<u8>), Ins(usize, u8), InsB(usize, Vec<u8>), Pop, Rem(usize), RemR(usize, usize), Ret(Pred), StripP(Vec<u8>), StripS(Vec<u8>), Trunc(usize) }
impl Op {
    fn show(&self) -> String {
        match self {
            Op::Push(c) => format!("push {}", c), Op::PushB(b) => format!("pushb {}", hex(b)),
            Op::Ins(i, c) => format!("ins {} {}", i, c), Op::InsB(i, b) => format!("insb {} {}", i, hex(b)),
            Op::Pop => "pop".into(), Op::Rem(i) => format!("rem {}", i), Op::RemR(i, n) => format!("remr {} {}", i, n),
            Op::Ret(p) => format!("ret {}", p.show()), Op::StripP(b) => format!("stripp {}", hex(b)),
            Op::StripS(b) => format!("strips {}", hex(b)), Op::Trunc(n) => format!("trunc {}", n),
        }
    }
}

fn unit_r(r: Result<(), SemanticStringError>) -> String { match r { Ok(()) => "u".into(), Err(e) => err_str(e).into() } }
fn optb_r(r: Result<Option<u8>, SemanticStringError>) -> String { match r { Ok(None) => "n".into(), Ok(Some(c)) => format!("s{}", c), Err(e) => err_str(e).into() } }
fn bool_r(r: Result<bool, SemanticStringError>) -> String { match r { Ok(true) => "b1".into(), Ok(false) => "b0".into(), Err(e) => err_str(e).into() } }

/// applies one operation to the real value; "P" on panic
fn apply<const C: usize, T: SemanticString<C>>(v: &mut T, op: &Op) -> String {
    let r = guarded(|| match op {
        Op::Push(c) => unit_r(v.push(*c)),
        Op::PushB(b) => unit_r(v.push_bytes(b)),
        Op::Ins(i, c) => unit_r(v.insert(*i, *c)),
        Op::InsB(i, b) => unit_r(v.insert_bytes(*i, b)),
        Op::Pop => optb_r(v.pop()),
        Op::Rem(i) => optb_r(v.remove(*i)),
        Op::RemR(i, n) => unit_r(v.remove_range(*i, *n)),
        Op::Ret(p) => { let p = p.clone(); unit_r(v.retain(move |c| p.f(c))) }
        Op::StripP(b) => bool_r(v.strip_prefix(b)),
        Op::StripS(b) => bool_r(v.strip_suffix(b)),
        Op::Trunc(n) => unit_r(v.truncate(*n)),
    });
    r.unwrap_or_else(|| "P".into())
}

fn new_obs<const C: usize, T: SemanticString<C>>(b: &[u8]) -> String {
    match guarded(|| T::new(b)) {
        None => "P".into(),
        Some(Ok(v)) => {
            // consistency of the cheap accessors with as_bytes (the model only carries the bytes)
            if v.len() != v.as_bytes().len() || v.is_empty() != (v.len() == 0) || v.is_full() != (v.len() == C) || v.capacity() != C {
                return "?accessors".into();
            }
            format!("ok:{}", hex(v.as_bytes()))
        }
        Some(Err(e)) => err_str(e).into(),
    }
}

/// every byte string of length <= maxlen, sharded by index
fn exh_new<const C: usize, T: SemanticString<C>>(a: &Args, out: &mut Out) {
    out.line(&format!("C new {}", a.ty));
    let mut idx: u64 = 0;
    let mut buf: Vec<u8> = vec![];
    for len in 0..=a.level {
        let total: u64 = 256u64.pow(len as u32);
        for k in 0..total {
            idx += 1;
            if idx % a.nshards != a.shard { continue; }
            buf.clear();
            let mut kk = k;
            for _ in 0..len { buf.push((kk % 256) as u8); kk /= 256; }
            out.line(&format!("O new {} = {}", hex(&buf), new_obs::<C, T>(&buf)));
        }
    }
}

const ALPHA_BASE: &[u8] = b"a./_0-";
const ALPHA_ARG: &[u8] = &[0, b'a', b'.', b'/', b'\\', 0x7f, 0x80, 0xff, b'*', b' ', b'0', b'-'];
const ALPHA_STRIP: &[u8] = b"a./_";

fn strings_over(alpha: &[u8], maxlen: usize) -> Vec<Vec<u8>> {
    let mut res: Vec<Vec<u8>> = vec![vec![]];
    let mut layer: Vec<Vec<u8>> = vec![vec![]];
    for _ in 0..maxlen {
        let mut next = vec![];
        for s in &layer { for c in alpha { let mut t = s.clone(); t.push(*c); next.push(t); } }
        res.extend(next.iter().cloned());
        layer = next;
    }
    res
}

fn ops_for_base(base: &[u8], cap: usize, thorough: bool, first: bool) -> Vec<Op> {
    let n = base.len();
    let mut ops = vec![];
    let big = n > 8;
    for c in 0..=255u8 { ops.push(Op::Push(c)); }
    let idxs: Vec<usize> = if big { vec![0, 1, n / 2, n - 1, n, n + 1] } else { (0..=n + 1).collect() };
    for &i in &idxs { for c in 0..=255u8 { ops.push(Op::Ins(i, c)); } }
    let args2 = strings_over(ALPHA_ARG, 2);
    for b in &args2 { ops.push(Op::PushB(b.clone())); }
    for &i in &idxs { for b in &args2 { ops.push(Op::InsB(i, b.clone())); } }
    for b in strings_over(b"./a", 3) { if b.len() == 3 { ops.push(Op::PushB(b.clone())); ops.push(Op::InsB(0, b.clone())); } }
    if first || (thorough && n <= 1) {
        // every two-byte argument on a few bases
        for x in 0..=255u8 { for y in 0..=255u8 { ops.push(Op::PushB(vec![x, y])); } }
    }
    // capacity boundary
    for extra in [cap.saturating_sub(n + 1), cap.saturating_sub(n), cap.saturating_sub(n) + 1] {
        ops.push(Op::PushB(vec![b'a'; extra]));
        ops.push(Op::InsB(0, vec![b'a'; extra]));
        let mut v = vec![b'a'; extra]; if let Some(l) = v.last_mut() { *l = 0x80; } ops.push(Op::PushB(v));
    }
    ops.push(Op::Pop);
    for &i in &idxs { ops.push(Op::Rem(i)); ops.push(Op::Trunc(i)); }
    for &i in &idxs { for &k in &idxs { ops.push(Op::RemR(i, k)); } }
    for &i in &idxs { ops.push(Op::RemR(i, 0)); ops.push(Op::RemR(i, 1)); ops.push(Op::RemR(0, i)); }
    for c in ALPHA_BASE { ops.push(Op::Ret(Pred::Eq(*c))); }
    ops.push(Op::Ret(Pred::Lt(b'0'))); ops.push(Op::Ret(Pred::Ge(b'a'))); ops.push(Op::Ret(Pred::Lt(b'a'))); ops.push(Op::Ret(Pred::All)); ops.push(Op::Ret(Pred::None));
    for b in strings_over(ALPHA_STRIP, 3) { ops.push(Op::StripP(b.clone())); ops.push(Op::StripS(b)); }
    // every prefix / suffix of the base itself (covers the 123-byte log buffer of strip_*)
    let cuts: Vec<usize> = if big { vec![0, 1, 2, n / 2, 122, 123, 124, 125, n - 2, n - 1, n].into_iter().filter(|k| *k <= n).collect() } else { (0..=n).collect() };
    for &k in &cuts { ops.push(Op::StripP(base[..k].to_vec())); ops.push(Op::StripS(base[n - k..].to_vec())); }
    ops
}

fn bases_for<const C: usize, T: SemanticString<C>>(thorough: bool) -> Vec<Vec<u8>> {
    let mut cands = strings_over(ALPHA_BASE, if thorough { 3 } else { 2 });
    for len in [C, C.saturating_sub(1), 124, 123, 125] {
        if len == 0 || len > C { continue; }
        cands.push(vec![b'a'; len]);
        let mut v = vec![b'a'; len]; v[len / 2] = b'/'; cands.push(v);
        let mut v = vec![b'a'; len]; v[len - 1] = b'.'; if len >= 2 { v[len - 2] = b'/'; } cands.push(v);
        let mut v = vec![b'.'; len]; v[0] = b'a'; cands.push(v);
    }
    cands.sort(); cands.dedup();
    cands.into_iter().filter(|b| T::new(b).is_ok()).collect()
}

/// each operation is applied to a fresh copy of the base (case kind mut1)
fn exh_mut<const C: usize, T: SemanticString<C>>(a: &Args, out: &mut Out) {
    let thorough = a.level >= 3;
    let bases = bases_for::<C, T>(thorough);
    for (bi, base) in bases.iter().enumerate() {
        if (bi as u64) % a.nshards != a.shard { continue; }
        out.line(&format!("C mut1 {} {}", a.ty, hex(base)));
        for op in ops_for_base(base, C, thorough, bi < 2) {
            let mut v = T::new(base).unwrap();
            let r = apply::<C, T>(&mut v, &op);
            out.line(&format!("O {} = {}/{}", op.show(), r, hex(v.as_bytes())));
        }
    }
}

pub const FRAGS: &[&[u8]] = &[b"/", b"..", b".", b"\0", b"\x80", b"\xff", b"a", b"abc", b"//", b"/.", b"/..", b"./", b"../", b" ", b"*", b"\\", b":",
    b"iox2://", b"iox2_", b"-", b"_", b"0", b"9", b"Z", b"\xc3\xa9", b"\xe2\x82\xac", b"\xf0\x9f\x92\xa9", b"\xc0\x80", b"\xed\xa0\x80", b"\x7f", b"\x1f", b"~", b"service", b".node"];
pub const GOOD: &[&[u8]] = &[b"a", b"b", b"abc", b"x1", b"_", b"-", b"Q", b"7", b".", b"svc", b"node"];

/// structured random string: mostly harmless fragments, sometimes dangerous ones, length biased to small and to the capacity boundary
pub fn rnd_string(r: &mut Rng, cap: usize, danger: u64) -> Vec<u8> {
    let target = match r.below(10) { 0..=5 => r.below(9) as usize, 6 => cap, 7 => cap + 1 + r.below(3) as usize, 8 => cap.saturating_sub(1 + r.below(3) as usize), _ => r.below(cap as u64 + 4) as usize };
    let mut s: Vec<u8> = vec![];
    while s.len() < target {
        let f: &[u8] = if r.below(100) < danger { *r.pick(FRAGS) } else { *r.pick(GOOD) };
        s.extend_from_slice(f);
    }
    if r.below(4) != 0 { s.truncate(target); }
    if r.below(12) == 0 { s.push(b'/'); }
    s
}

fn rnd_op(r: &mut Rng, cur: &[u8], cap: usize) -> Op {
    let n = cur.len();
    let idx = |r: &mut Rng| -> usize { match r.below(8) { 0 => 0, 1 => n, 2 => n + 1, 3 => n.saturating_sub(1), _ => r.below(n as u64 + 1) as usize } };
    let byte = |r: &mut Rng| -> u8 { match r.below(4) { 0 => *r.pick(ALPHA_ARG), 1 => r.below(256) as u8, _ => *r.pick(b"ab./_-0") } };
    let frag = |r: &mut Rng| -> Vec<u8> {
        match r.below(6) {
            0 => rnd_string(r, cap, 40),
            1 => { let k = r.below(n as u64 + 1) as usize; cur[..k].to_vec() }
            2 => { let k = r.below(n as u64 + 1) as usize; cur[n - k..].to_vec() }
            3 => cur.to_vec(),
            _ => { let f: &[u8] = if r.below(3) == 0 { *r.pick(FRAGS) } else { *r.pick(GOOD) }; f.to_vec() }
        }
    };
    match r.below(14) {
        0 | 1 => Op::Push(byte(r)),
        2 | 3 => Op::PushB(frag(r)),
        4 => Op::Ins(idx(r), byte(r)),
        5 | 6 => Op::InsB(idx(r), frag(r)),
        7 => Op::Pop,
        8 => Op::Rem(idx(r)),
        9 => { let i = idx(r); let k = match r.below(4) { 0 => 0, 1 => 1, _ => r.below(n as u64 + 2) as usize }; Op::RemR(i, k) }
        10 => Op::Ret(match r.below(5) { 0 => Pred::Eq(byte(r)), 1 => Pred::Lt(byte(r)), 2 => Pred::Ge(byte(r)), 3 => Pred::All, _ => Pred::None }),
        11 => Op::StripP(frag(r)),
        12 => Op::StripS(frag(r)),
        _ => Op::Trunc(idx(r)),
    }
}

/// random: constructor on a structured random string; when accepted, a sequence of random mutators (case kind mutseq)
fn rnd<const C: usize, T: SemanticString<C>>(a: &Args, out: &mut Out) {
    let mut r = Rng(a.seed ^ 0xC19 ^ (a.shard.wrapping_mul(0x1234567)) ^ (a.ty.len() as u64) << 32);
    for b in a.ty.bytes() { r.0 = r.0.wrapping_mul(31).wrapping_add(b as u64); }
    for _ in 0..a.ncases {
        let s = rnd_string(&mut r, C, 12);
        out.line(&format!("C new {}", a.ty));
        out.line(&format!("O new {} = {}", hex(&s), new_obs::<C, T>(&s)));
        if let Ok(mut v) = T::new(&s) {
            out.line(&format!("C mutseq {} {}", a.ty, hex(&s)));
            let nops = 1 + r.below(a.level as u64);
            for _ in 0..nops {
                let cur = v.as_bytes().to_vec();
                let op = rnd_op(&mut r, &cur, C);
                let res = apply::<C, T>(&mut v, &op);
                out.line(&format!("O {} = {}/{}", op.show(), res, hex(v.as_bytes())));
            }
        }
    }
}

fn str_new_obs(ty: &str, b: &[u8]) -> String {
    let s = match core::str::from_utf8(b) { Ok(s) => s, Err(_) => return "U".into() };
    match ty {
        "svc" => match guarded(|| iceoryx2::service::service_name::ServiceName::new(s)) {
            None => "P".into(),
            Some(Ok(v)) => format!("ok:{}", hex(v.as_str().as_bytes())),
            Some(Err(iceoryx2::service::service_name::ServiceNameError::InvalidContent)) => "eC".into(),
            Some(Err(iceoryx2::service::service_name::ServiceNameError::ExceedsMaximumLength)) => "eL".into(),
        },
        _ => match guarded(|| iceoryx2::node::node_name::NodeName::new(s)) {
            None => "P".into(),
            Some(Ok(v)) => format!("ok:{}", hex(v.as_str().as_bytes())),
            Some(Err(e)) => err_str(e).into(),
        },
    }
}

fn exh_new_str(a: &Args, out: &mut Out) {
    out.line(&format!("C new {}", a.ty));
    let mut idx: u64 = 0;
    let mut buf: Vec<u8> = vec![];
    for len in 0..=a.level {
        for k in 0..256u64.pow(len as u32) {
            idx += 1;
            if idx % a.nshards != a.shard { continue; }
            buf.clear();
            let mut kk = k;
            for _ in 0..len { buf.push((kk % 256) as u8); kk /= 256; }
            out.line(&format!("O new {} = {}", hex(&buf), str_new_obs(&a.ty, &buf)));
        }
    }
}
fn rnd_str(a: &Args, out: &mut Out) {
    let cap = if a.ty == "svc" { 255 } else { 128 };
    let mut r = Rng(a.seed ^ 0x5C19 ^ a.shard.wrapping_mul(0x7654321) ^ cap as u64);
    out.line(&format!("C new {}", a.ty));
    for _ in 0..a.ncases * 4 {
        let s = rnd_string(&mut r, cap, 15);
        out.line(&format!("O new {} = {}", hex(&s), str_new_obs(&a.ty, &s)));
    }
}

fn reg_mut<const C: usize, T: SemanticString<C>>(ty: &str, base: &[u8], ops: &[Op], out: &mut Out) {
    out.line(&format!("C mut1 {} {}", ty, hex(base)));
    for op in ops {
        let mut v = T::new(base).unwrap();
        let r = apply::<C, T>(&mut v, op);
        out.line(&format!("O {} = {}/{}", op.show(), r, hex(v.as_bytes())));
    }
}

/// regression histories: the witnesses of the six defect classes that were repaired in /repo
/// (47ad8e2, 8cf1846, c6cc798, 19ab506, a263455, e2099f0); they must agree with model and spec now
fn regression(out: &mut Out) {
    for (ty, inputs) in [("fn", vec![vec![0u8], vec![0x80], vec![b'a', 0xff]]), ("b64", vec![vec![0u8]]), ("path", vec![vec![0x80u8]])] {
        out.line(&format!("C new {}", ty));
        for b in inputs {
            let o = match ty { "fn" => new_obs::<255, FileName>(&b), "b64" => new_obs::<255, Base64Url>(&b), _ => new_obs::<255, Path>(&b) };
            out.line(&format!("O new {} = {}", hex(&b), o));
        }
    }
    reg_mut::<255, FileName>("fn", b"a", &[Op::Push(128), Op::Push(0), Op::InsB(0, vec![0x80]), Op::PushB(vec![b'b', 0])], out);
    reg_mut::<2, RestrictedFileName<2>>("rfn2", b"a-", &[Op::RemR(0, 0), Op::RemR(1, 0), Op::RemR(2, 0), Op::StripP(vec![]), Op::StripS(vec![])], out);
    reg_mut::<2, RestrictedFileName<2>>("rfn2", b"ab", &[Op::RemR(0, 0), Op::StripP(vec![]), Op::StripS(vec![])], out);
    let a124 = vec![b'a'; 124];
    let a255 = vec![b'a'; 255];
    reg_mut::<255, FileName>("fn", &a124, &[Op::StripP(a124.clone()), Op::StripS(a124.clone())], out);
    reg_mut::<255, FileName>("fn", &a255, &[Op::StripP(a255.clone()), Op::StripS(a255.clone()), Op::RemR(0, 0), Op::StripP(vec![]), Op::StripS(vec![])], out);
    reg_mut::<255, Base64Url>("b64", &a124, &[Op::StripP(a124.clone()), Op::StripS(a124.clone())], out);
    let mut fp = a124.clone(); fp.extend_from_slice(b"/b");
    reg_mut::<255, FilePath>("fpath", &fp, &[Op::StripP(fp.clone()), Op::StripS(fp.clone()), Op::StripS(b"b".to_vec())], out);
    out.line("C fun -");
    for f in [&b"a"[..], b"a.s", b"a.", b"a..", b"a..s", b"a...s", b"ab.s", b"a.s.s"] { funs::extractf(b"a", b".s", b"/t", f, out); }
    funs::extractf(b"a", b"a", b"/tmp", b"a", out);
    funs::extractf(b"a", b"a", b"/tmp", b"aa", out);
    funs::addentry_line(b"a", &vec![b'b'; 254], out);
    funs::addentry_line(b"aa", &vec![b'b'; 253], out);
    funs::addentry_line(b"a", &vec![b'b'; 253], out);
    funs::frompf_line(&vec![b'a'; 200], &vec![b'b'; 54], out);
    funs::frompf_line(&vec![b'a'; 200], &vec![b'b'; 53], out);
    funs::frompf_line(&vec![b'a'; 200], &vec![b'b'; 55], out);
    let mut p = vec![b'a'; 200]; p[199] = b'/';
    funs::frompf_line(&p, &vec![b'b'; 55], out);
    funs::frompf_line(&p, &vec![b'b'; 54], out);
    funs::frompf_line(b"", &vec![b'b'; 255], out);
}

macro_rules! dispatch {
    ($f:ident, $a:expr, $out:expr) => {
        match $a.ty.as_str() {
            "fn" => $f::<255, FileName>($a, $out),
            "path" => $f::<255, Path>($a, $out),
            "fpath" => $f::<255, FilePath>($a, $out),
            "b64" => $f::<255, Base64Url>($a, $out),
            "user" => $f::<255, UserName>($a, $out),
            "group" => $f::<31, GroupName>($a, $out),
            "rfn2" => $f::<2, RestrictedFileName<2>>($a, $out),
            "rfn3" => $f::<3, RestrictedFileName<3>>($a, $out),
            "rfn5" => $f::<5, RestrictedFileName<5>>($a, $out),
            t => { eprintln!("unknown type {}", t); std::process::exit(2); }
        }
    };
}

fn main() {
    if std::env::var("VERIF_PANIC_VERBOSE").is_err() { std::panic::set_hook(Box::new(|_| {})); }
    iceoryx2_log::set_log_level(iceoryx2_log::LogLevel::Fatal);
    let a: Vec<String> = std::env::args().collect();
    if a.len() < 7 { eprintln!("usage: c19 <exh-new|exh-mut|rnd|fun|iso> <type|-> <level> <shard> <nshards> <seed> [ncases]"); std::process::exit(2); }
    let args = Args { mode: a[1].clone(), ty: a[2].clone(), level: a[3].parse().unwrap(), shard: a[4].parse().unwrap(), nshards: a[5].parse().unwrap(),
        seed: a[6].parse().unwrap(), ncases: a.get(7).map(|s| s.parse().unwrap()).unwrap_or(100) };
    let mut out = Out { w: std::io::BufWriter::with_capacity(1 << 20, std::io::stdout()) };
    let is_str = args.ty == "svc" || args.ty == "node";
    match args.mode.as_str() {
        "exh-new" => if is_str { exh_new_str(&args, &mut out) } else { dispatch!(exh_new, &args, &mut out) },
        "exh-mut" => dispatch!(exh_mut, &args, &mut out),
        "rnd" => if is_str { rnd_str(&args, &mut out) } else { dispatch!(rnd, &args, &mut out) },
        "fun" => funs::run(&args, &mut out),
        "iso" => iso::run(&args, &mut out),
        "reg" => regression(&mut out),
        m => { eprintln!("unknown mode {}", m); std::process::exit(2); }
    }
    let _ = out.w.flush();
}
