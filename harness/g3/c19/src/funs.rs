//! stateless functions: Path::{normalize, entries, is_absolute, add_path_entry},
//! FilePath::{file_name, path, from_path_and_file}, NamedConceptConfiguration::{path_for,
//! extract_name_from_file, extract_name_from_path} of the real static_storage::file::Configuration.
use crate::*;
use iceoryx2_cal::named_concept::NamedConceptConfiguration;
use iceoryx2_cal::static_storage::file::Configuration as FileCfg;

/// the connection-name functions of iceoryx2/src/service/naming_scheme.rs, sliced from the
/// working tree by build.rs (they are pub(crate))
mod naming {
    #![allow(dead_code)]
    use iceoryx2_bb_container::semantic_string::SemanticString;
    use iceoryx2_bb_system_types::file_name::FileName;
    include!(concat!(env!("OUT_DIR"), "/naming_slice.rs"));
}

fn conn_lines(s: u128, r: u128, out: &mut Out) {
    match guarded(|| naming::connection_name(s, r)) {
        None => out.line(&format!("O conn {} {} = P", s, r)),
        Some(n) => {
            out.line(&format!("O conn {} {} = {}", s, r, hex(n.as_bytes())));
            ex_lines(n.as_bytes(), out);
        }
    }
}
fn ex_lines(name: &[u8], out: &mut Out) {
    let Ok(f) = FileName::new(name) else { return };
    let show = |o: Option<Option<u128>>| match o { None => "P".to_string(), Some(None) => "n".to_string(), Some(Some(v)) => format!("s{}", v) };
    out.line(&format!("O exs {} = {}", hex(name), show(guarded(|| naming::extract_sender_port_id_from_connection(&f)))));
    out.line(&format!("O exr {} = {}", hex(name), show(guarded(|| naming::extract_receiver_port_id_from_connection(&f)))));
}

fn list_hex(v: &[FileName]) -> String {
    if v.is_empty() { return "[]".into(); }
    v.iter().map(|e| hex(e.as_bytes())).collect::<Vec<_>>().join(",")
}

fn path_lines(s: &[u8], out: &mut Out) {
    if let Ok(p) = Path::new(s) {
        let h = hex(s);
        match guarded(|| p.normalize()) { Some(n) => out.line(&format!("O norm {} = {}", h, hex(n.as_bytes()))), None => out.line(&format!("O norm {} = P", h)) }
        match guarded(|| p.entries()) { Some(e) => out.line(&format!("O entries {} = {}", h, list_hex(&e))), None => out.line(&format!("O entries {} = P", h)) }
        out.line(&format!("O isabs {} = {}", h, if p.is_absolute() { "b1" } else { "b0" }));
    }
    if let Ok(p) = FilePath::new(s) {
        let h = hex(s);
        match guarded(|| p.file_name()) { Some(n) => out.line(&format!("O fname {} = {}", h, hex(n.as_bytes()))), None => out.line(&format!("O fname {} = P", h)) }
        match guarded(|| p.path()) { Some(n) => out.line(&format!("O fpath {} = {}", h, hex(n.as_bytes()))), None => out.line(&format!("O fpath {} = P", h)) }
    }
}

pub fn addentry_line(p: &[u8], e: &[u8], out: &mut Out) {
    let (Ok(mut path), Ok(entry)) = (Path::new(p), Path::new(e)) else { return };
    let r = guarded(|| path.add_path_entry(&entry));
    let rs = match r { None => "P", Some(Ok(())) => "u", Some(Err(e)) => err_str(e) };
    out.line(&format!("O addentry {} {} = {}/{}", hex(p), hex(e), rs, hex(path.as_bytes())));
}

pub fn frompf_line(p: &[u8], f: &[u8], out: &mut Out) {
    let (Ok(path), Ok(file)) = (Path::new(p), FileName::new(f)) else { return };
    let rs = match guarded(|| FilePath::from_path_and_file(&path, &file)) {
        None => "P".to_string(), Some(Ok(v)) => format!("ok:{}", hex(v.as_bytes())), Some(Err(e)) => err_str(e).to_string() };
    out.line(&format!("O frompf {} {} = {}", hex(p), hex(f), rs));
}

pub fn mk_cfg(prefix: &[u8], suffix: &[u8], hint: &[u8]) -> Option<FileCfg> {
    let (Ok(p), Ok(s), Ok(h)) = (FileName::new(prefix), FileName::new(suffix), Path::new(hint)) else { return None };
    Some(FileCfg::default().prefix(&p).suffix(&s).path_hint(&h))
}

fn pathfor(prefix: &[u8], suffix: &[u8], hint: &[u8], name: &[u8], out: &mut Out) -> Option<FilePath> {
    let cfg = mk_cfg(prefix, suffix, hint)?;
    let n = FileName::new(name).ok()?;
    let r = guarded(|| cfg.path_for(&n));
    out.line(&format!("O pathfor {} {} {} {} = {}", hex(prefix), hex(suffix), hex(hint), hex(name), match &r { Some(v) => hex(v.as_bytes()), None => "P".into() }));
    r
}
pub fn extractf(prefix: &[u8], suffix: &[u8], hint: &[u8], file: &[u8], out: &mut Out) {
    let Some(cfg) = mk_cfg(prefix, suffix, hint) else { return };
    let Ok(f) = FileName::new(file) else { return };
    let r = guarded(|| cfg.extract_name_from_file(&f));
    out.line(&format!("O extractf {} {} {} {} = {}", hex(prefix), hex(suffix), hex(hint), hex(file),
        match r { None => "P".into(), Some(None) => "n".to_string(), Some(Some(v)) => format!("s:{}", hex(v.as_bytes())) }));
}
fn extractp(prefix: &[u8], suffix: &[u8], hint: &[u8], fp: &[u8], out: &mut Out) {
    let Some(cfg) = mk_cfg(prefix, suffix, hint) else { return };
    let Ok(f) = FilePath::new(fp) else { return };
    let r = guarded(|| cfg.extract_name_from_path(&f));
    out.line(&format!("O extractp {} {} {} {} = {}", hex(prefix), hex(suffix), hex(hint), hex(fp),
        match r { None => "P".into(), Some(None) => "n".to_string(), Some(Some(v)) => format!("s:{}", hex(v.as_bytes())) }));
}

fn rnd_name(r: &mut Rng, maxlen: usize) -> Vec<u8> {
    let n = 1 + r.below(maxlen as u64) as usize;
    let mut s = vec![];
    while s.len() < n { { let g: &[u8] = *r.pick(GOOD); s.extend_from_slice(g); } }
    s.truncate(n);
    s
}

pub fn run(a: &Args, out: &mut Out) {
    out.line("C fun -");
    let mut k: u64 = 0;
    let mut mine = || { k += 1; k % a.nshards == a.shard };
    let thorough = a.level >= 3;
    // ---- paths over a small alphabet
    let small = strings_over(b"/.a", if thorough { 8 } else { 6 });
    for s in &small { if mine() { path_lines(s, out); } }
    for s in strings_over(b"/.a\\ ", 4) { if mine() { path_lines(&s, out); } }
    let ents = strings_over(b"/.a", 2);
    for p in strings_over(b"/.a", 3) { for e in &ents { if mine() { addentry_line(&p, e, out); } } }
    let files: Vec<Vec<u8>> = strings_over(b".a", 3);
    for p in strings_over(b"/.a", 3) { for f in &files { if mine() { frompf_line(&p, f, out); } } }
    // capacity boundary of add_path_entry / from_path_and_file
    for pl in [0usize, 1, 2, 100, 200, 252, 253, 254, 255] {
        for sep in [false, true] {
            let mut p = vec![b'a'; pl]; if sep && pl > 0 { p[pl - 1] = b'/'; }
            for total in [252usize, 253, 254, 255, 256, 257] {
                if total < pl || total - pl > 255 { continue; }
                let f = vec![b'b'; total - pl];
                if mine() { frompf_line(&p, &f, out); addentry_line(&p, &f, out); }
            }
        }
    }
    // ---- connection names: boundary ids, all short names over a parser-relevant alphabet, random ids
    let ids: [u128; 14] = [0, 1, 9, 10, 11, 99, 100, u64::MAX as u128, u64::MAX as u128 + 1, 1u128 << 127, u128::MAX - 1, u128::MAX, 12345678901234567890, 340282366920938463463374607431768211455];
    for s in ids { for r in ids { if mine() { conn_lines(s, r, out); } } }
    for n in strings_over(b"01_+-9 a", if thorough { 6 } else { 5 }) { if mine() { ex_lines(&n, out); } }
    for n in [&b"340282366920938463463374607431768211455_340282366920938463463374607431768211455"[..], b"340282366920938463463374607431768211456_1", b"1_340282366920938463463374607431768211456",
              b"+340282366920938463463374607431768211455_+0", b"0000000000000000000000000000000000000000000000000000000000000001_1", b"99999999999999999999999999999999999999999_1", b"1__2", b"_", b"5", b"1_2_3", b"+_+"] {
        if mine() { ex_lines(n, out); }
    }
    {
        let mut rr = Rng(a.seed ^ 0xC0DE ^ a.shard);
        for _ in 0..a.ncases {
            let bits_s = rr.below(129) as u32; let bits_r = rr.below(129) as u32;
            let mk = |r: &mut Rng, bits: u32| -> u128 { let v = ((r.next() as u128) << 64) | r.next() as u128; if bits == 0 { 0 } else if bits >= 128 { v } else { v >> (128 - bits) } };
            let (s, r) = (mk(&mut rr, bits_s), mk(&mut rr, bits_r));
            conn_lines(s, r, out);
        }
    }
    // ---- configurations: small exhaustive extraction table (prefix-of-prefix, edge files)
    let prefixes = [&b"a"[..], b"b", b"ab", b"aa", b"ba", b"a."];
    let suffixes = [&b"a"[..], b"b", b".s", b"ab", b"."];
    let cand_files = strings_over(b"ab.s", 4);
    for p in prefixes { for s in suffixes { for f in &cand_files { if mine() { extractf(p, s, b"/tmp", f, out); } } } }
    // ---- random configurations, round trips and cross extraction
    let hints: [&[u8]; 12] = [b"", b"/", b"/tmp", b"/tmp/", b"a/b", b"/tmp//x/", b"./x", b"/tmp/./y/", b"/tmp/..", b"x\\y", b"//", b"/tmp/iceoryx2/services"];
    let mut r = Rng(a.seed ^ 0xF19 ^ a.shard.wrapping_mul(0x9999));
    for _ in 0..a.ncases {
        let p1 = rnd_name(&mut r, 6); let s1 = rnd_name(&mut r, 6);
        // second configuration: often a prefix extension / truncation of the first
        let p2 = match r.below(4) { 0 => { let mut v = p1.clone(); v.extend_from_slice(&rnd_name(&mut r, 3)); v } 1 => p1[..1 + r.below(p1.len() as u64) as usize].to_vec(), 2 => p1.clone(), _ => rnd_name(&mut r, 6) };
        let s2 = match r.below(3) { 0 => s1.clone(), 1 => { let mut v = rnd_name(&mut r, 2); v.extend_from_slice(&s1); v } _ => rnd_name(&mut r, 6) };
        let h1: Vec<u8> = match r.below(8) { 0 => { let mut v = vec![b'/']; v.extend(vec![b'd'; 200 + r.below(56) as usize]); v.truncate(255); v } _ => r.pick(&hints).to_vec() };
        let h2: Vec<u8> = if r.below(2) == 0 { h1.clone() } else { r.pick(&hints).to_vec() };
        for _ in 0..3 {
            let name = if r.below(6) == 0 { vec![b'n'; 1 + r.below(250) as usize] } else { rnd_name(&mut r, 8) };
            if let Some(fp) = pathfor(&p1, &s1, &h1, &name, out) {
                let fb = fp.as_bytes().to_vec();
                let file = guarded(|| fp.file_name()).map(|f| f.as_bytes().to_vec());
                if let Some(file) = file {
                    out.line(&format!("O fname {} = {}", hex(&fb), hex(&file)));
                    extractf(&p1, &s1, &h1, &file, out);
                    extractf(&p2, &s2, &h2, &file, out);
                }
                extractp(&p1, &s1, &h1, &fb, out);
                extractp(&p2, &s2, &h2, &fb, out);
                extractp(&p1, &s1, &h2, &fb, out);
            }
            if let Some(fp) = pathfor(&p2, &s2, &h2, &name, out) {
                let fb = fp.as_bytes().to_vec();
                extractp(&p1, &s1, &h1, &fb, out);
                if let Some(file) = guarded(|| fp.file_name()) { extractf(&p1, &s1, &h1, file.as_bytes(), out); }
            }
        }
        // edge files of configuration 1
        let mut e1 = p1.clone(); extractf(&p1, &s1, &h1, &e1, out);
        e1.extend_from_slice(&s1); extractf(&p1, &s1, &h1, &e1, out);
        let mut e2 = p1.clone(); e2.push(b'.'); extractf(&p1, &s1, &h1, &e2, out); e2.push(b'.'); extractf(&p1, &s1, &h1, &e2, out);
        e2.extend_from_slice(&s1); extractf(&p1, &s1, &h1, &e2, out);
        let rs = rnd_string(&mut r, 255, 10); path_lines(&rs, out);
        let rs2 = rnd_string(&mut r, 255, 10); addentry_line(&rs, &rs2, out); frompf_line(&rs, &rnd_name(&mut r, 12), out);
    }
}
