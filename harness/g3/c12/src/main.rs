//! G3 correspondence harness for C12 (blackboard, API-level uniqueness part): runs histories of
//! writer / write-handle / reader / read-handle operations against the REAL iceoryx2 blackboard
//! API and prints one canonical observation per operation for the OCaml driver (ocaml/c12).
//!
//! usage: c12 exh <maxlen> <shard> <nshards> <seed> [local|ipc|both]
//!        c12 rnd <count>  <shard> <nshards> <seed> [local|ipc|both]
//!        c12 one <history-string> [local|ipc|both] [max_readers]
//!
//! One blackboard service per history (unique name), key type u64, two entries:
//!   key 0 : u64 = 10   (value type tag 0)        key 1 : u32 = 11   (value type tag 1)
//! key 2 does not exist.  Factory 0 = the PortFactory returned by the creator (node A),
//! factory 1 = a PortFactory obtained by opening the same service from a second node (node B).
//!
//! ops (ids are creation indices of the successfully created objects of that class):
//!   cw f        writer_builder().create() on factory f      ok<i> | maxw
//!   dw i        drop Writer i                               ok | -
//!   we i k t    writer i .entry::<type t>(&k)               ok<h> | noentry | exists | -
//!   dh h        drop EntryHandleMut / EntryValueUninit h    ok | -
//!   uc h v      EntryHandleMut::update_with_copy(v)         ok | -
//!   lu h        EntryHandleMut::loan_uninit()               ok | -
//!   wl h v      EntryValueUninit::value_mut().write(v)      ok | -
//!   al h        EntryValueUninit::assume_init_and_update()  ok | -   (refused unless written)
//!   ul h v      EntryValueUninit::update_with_copy(v)       ok | -
//!   dl h        EntryValueUninit::discard()                 ok | -
//!   cr f        reader_builder().create() on factory f      ok<r> | maxr
//!   dr r        drop Reader r                               ok | -
//!   re r k t    reader r .entry::<type t>(&k)               ok<x> | noentry | -
//!   dx x        drop EntryHandle x                          ok | -
//!   g x         EntryHandle::get()                          v<value>g<generation> | -
//!   ud x        EntryHandle::is_up_to_date(last get of x)   t | f | -
//! `-` = the harness itself refused (no such live object / wrong handle state): nothing was called.
//! Every line ends with `| w=<n> r=<n>` = dynamic_config().number_of_writers()/number_of_readers().
//! A panic of the implementation is reported as `P` and ends the history.
extern crate iceoryx2_bb_loggers;

use std::io::Write as IoWrite;
use std::panic::{catch_unwind, AssertUnwindSafe};

use iceoryx2::port::reader::{BlackboardValue, EntryHandle, EntryHandleError, Reader, ReaderCreateError};
use iceoryx2::port::writer::{
    EntryHandleMut, EntryHandleMutError, EntryValueUninit, Writer, WriterCreateError,
};
use iceoryx2::prelude::*;
use iceoryx2::service::port_factory::blackboard::PortFactory;
use iceoryx2::service::port_factory::PortFactory as PortFactoryTrait;
use iceoryx2::service::Service;
use iceoryx2_bb_container::semantic_string::SemanticString;
use iceoryx2_bb_system_types::file_name::FileName;
use iceoryx2_bb_system_types::path::Path;

type K = u64;
const INIT0: u64 = 10;
const INIT1: u32 = 11;

pub struct Rng(pub u64);
impl Rng {
    pub fn next(&mut self) -> u64 {
        self.0 = self.0.wrapping_add(0x9E3779B97F4A7C15);
        let mut z = self.0;
        z = (z ^ (z >> 30)).wrapping_mul(0xBF58476D1CE4E5B9);
        z = (z ^ (z >> 27)).wrapping_mul(0x94D049BB133111EB);
        z ^ (z >> 31)
    }
    pub fn below(&mut self, n: u64) -> u64 {
        if n == 0 { 0 } else { self.next() % n }
    }
}

#[derive(Clone, Copy, Debug, PartialEq)]
enum Op {
    Cw(usize),
    Dw(usize),
    We(usize, u64, u8),
    Dh(usize),
    Uc(usize, u64),
    Lu(usize),
    Wl(usize, u64),
    Al(usize),
    Ul(usize, u64),
    Dl(usize),
    Cr(usize),
    Dr(usize),
    Re(usize, u64, u8),
    Dx(usize),
    G(usize),
    Ud(usize),
}

impl Op {
    fn text(&self) -> String {
        match *self {
            Op::Cw(f) => format!("cw {}", f),
            Op::Dw(i) => format!("dw {}", i),
            Op::We(i, k, t) => format!("we {} {} {}", i, k, t),
            Op::Dh(h) => format!("dh {}", h),
            Op::Uc(h, v) => format!("uc {} {}", h, v),
            Op::Lu(h) => format!("lu {}", h),
            Op::Wl(h, v) => format!("wl {} {}", h, v),
            Op::Al(h) => format!("al {}", h),
            Op::Ul(h, v) => format!("ul {} {}", h, v),
            Op::Dl(h) => format!("dl {}", h),
            Op::Cr(f) => format!("cr {}", f),
            Op::Dr(r) => format!("dr {}", r),
            Op::Re(r, k, t) => format!("re {} {} {}", r, k, t),
            Op::Dx(x) => format!("dx {}", x),
            Op::G(x) => format!("g {}", x),
            Op::Ud(x) => format!("ud {}", x),
        }
    }
    fn parse(tok: &str) -> Op {
        let v: Vec<&str> = tok.split(|c| c == '_' || c == ' ').filter(|s| !s.is_empty()).collect();
        let a = |k: usize| -> u64 { v[k].parse().expect("numeric op argument") };
        match v[0] {
            "cw" => Op::Cw(a(1) as usize),
            "dw" => Op::Dw(a(1) as usize),
            "we" => Op::We(a(1) as usize, a(2), a(3) as u8),
            "dh" => Op::Dh(a(1) as usize),
            "uc" => Op::Uc(a(1) as usize, a(2)),
            "lu" => Op::Lu(a(1) as usize),
            "wl" => Op::Wl(a(1) as usize, a(2)),
            "al" => Op::Al(a(1) as usize),
            "ul" => Op::Ul(a(1) as usize, a(2)),
            "dl" => Op::Dl(a(1) as usize),
            "cr" => Op::Cr(a(1) as usize),
            "dr" => Op::Dr(a(1) as usize),
            "re" => Op::Re(a(1) as usize, a(2), a(3) as u8),
            "dx" => Op::Dx(a(1) as usize),
            "g" => Op::G(a(1) as usize),
            "ud" => Op::Ud(a(1) as usize),
            o => panic!("unknown op {}", o),
        }
    }
}

fn hist_string(ops: &[Op]) -> String {
    ops.iter().map(|o| o.text().replace(' ', "_")).collect::<Vec<_>>().join(",")
}

/// a write handle in one of its two shapes; the bool of a loan = "value_mut().write() was called"
enum WH<S: Service> {
    I0(EntryHandleMut<S, K, u64>),
    I1(EntryHandleMut<S, K, u32>),
    L0(EntryValueUninit<S, K, u64>, bool),
    L1(EntryValueUninit<S, K, u32>, bool),
}

enum RH<S: Service> {
    R0(EntryHandle<S, K, u64>, Option<BlackboardValue<u64>>),
    R1(EntryHandle<S, K, u32>, Option<BlackboardValue<u32>>),
}

struct Env<S: Service> {
    fac: Vec<PortFactory<S, K>>,
    writers: Vec<Option<Writer<S, K>>>,
    wh: Vec<Option<WH<S>>>,
    readers: Vec<Option<Reader<S, K>>>,
    rh: Vec<Option<RH<S>>>,
}

fn gen_of<T: core::fmt::Debug + Copy>(v: &BlackboardValue<T>) -> u64 {
    let s = format!("{:?}", v);
    let key = "generation_counter: ";
    match s.find(key) {
        Some(i) => s[i + key.len()..].chars().take_while(|c| c.is_ascii_digit()).collect::<String>().parse().unwrap_or(u64::MAX),
        None => u64::MAX,
    }
}

/// what may be called next without the harness refusing: computed from the harness's own
/// bookkeeping of live objects (never from a prediction of the implementation's answers)
fn enabled<S: Service>(env: &Env<S>, vbase: u64, pos: usize, wide: bool) -> Vec<Op> {
    let mut v = vec![];
    let val = vbase + pos as u64;
    let entries: &[(u64, u8)] = &[(0, 0), (1, 1), (0, 1), (2, 0)];
    let (max_w, max_h, max_r, max_x) = if wide { (6, 8, 4, 5) } else { (3, 3, 2, 2) };
    if env.writers.len() < max_w {
        v.push(Op::Cw(0));
        v.push(Op::Cw(1));
    }
    for (i, w) in env.writers.iter().enumerate() {
        if w.is_some() {
            v.push(Op::Dw(i));
            if env.wh.len() < max_h {
                for (k, t) in entries { v.push(Op::We(i, *k, *t)); }
            }
        }
    }
    for (h, s) in env.wh.iter().enumerate() {
        match s {
            None => {}
            Some(WH::I0(_)) | Some(WH::I1(_)) => {
                v.push(Op::Dh(h));
                v.push(Op::Uc(h, val));
                v.push(Op::Lu(h));
            }
            Some(WH::L0(_, d)) | Some(WH::L1(_, d)) => {
                v.push(Op::Dh(h));
                v.push(Op::Wl(h, val));
                v.push(Op::Ul(h, val));
                v.push(Op::Dl(h));
                if *d { v.push(Op::Al(h)); }
            }
        }
    }
    if env.readers.len() < max_r {
        v.push(Op::Cr(1));
        if wide { v.push(Op::Cr(0)); }
    }
    for (r, x) in env.readers.iter().enumerate() {
        if x.is_some() {
            v.push(Op::Dr(r));
            if env.rh.len() < max_x {
                v.push(Op::Re(r, 0, 0));
                v.push(Op::Re(r, 1, 1));
                if wide { v.push(Op::Re(r, 0, 1)); v.push(Op::Re(r, 2, 0)); }
            }
        }
    }
    for (x, s) in env.rh.iter().enumerate() {
        if let Some(s) = s {
            v.push(Op::G(x));
            let has = match s { RH::R0(_, b) => b.is_some(), RH::R1(_, b) => b.is_some() };
            if has { v.push(Op::Ud(x)); }
            if wide { v.push(Op::Dx(x)); }
        }
    }
    v
}

fn exec<S: Service>(env: &mut Env<S>, op: Op) -> String {
    match op {
        Op::Cw(f) => match env.fac[f % env.fac.len()].writer_builder().create() {
            Ok(w) => { env.writers.push(Some(w)); format!("ok{}", env.writers.len() - 1) }
            Err(WriterCreateError::ExceedsMaxSupportedWriters) => "maxw".into(),
            Err(e) => format!("err:{:?}", e),
        },
        Op::Dw(i) => match env.writers.get_mut(i) {
            Some(s) if s.is_some() => { drop(s.take()); "ok".into() }
            _ => "-".into(),
        },
        Op::We(i, k, t) => match env.writers.get(i) {
            Some(Some(w)) => {
                let r = if t == 0 { w.entry::<u64>(&k).map(WH::I0) } else { w.entry::<u32>(&k).map(WH::I1) };
                match r {
                    Ok(h) => { env.wh.push(Some(h)); format!("ok{}", env.wh.len() - 1) }
                    Err(EntryHandleMutError::EntryDoesNotExist) => "noentry".into(),
                    Err(EntryHandleMutError::HandleAlreadyExists) => "exists".into(),
                }
            }
            _ => "-".into(),
        },
        Op::Dh(h) => match env.wh.get_mut(h) {
            Some(s) if s.is_some() => { drop(s.take()); "ok".into() }
            _ => "-".into(),
        },
        Op::Uc(h, v) => match env.wh.get(h) {
            Some(Some(WH::I0(e))) => { e.update_with_copy(v); "ok".into() }
            Some(Some(WH::I1(e))) => { e.update_with_copy(v as u32); "ok".into() }
            _ => "-".into(),
        },
        Op::Lu(h) => {
            let idle = matches!(env.wh.get(h), Some(Some(WH::I0(_))) | Some(Some(WH::I1(_))));
            if !idle { return "-".into(); }
            let n = match env.wh[h].take().unwrap() {
                WH::I0(e) => WH::L0(e.loan_uninit(), false),
                WH::I1(e) => WH::L1(e.loan_uninit(), false),
                o => o,
            };
            env.wh[h] = Some(n);
            "ok".into()
        }
        Op::Wl(h, v) => match env.wh.get_mut(h) {
            Some(Some(WH::L0(l, d))) => { l.value_mut().write(v); *d = true; "ok".into() }
            Some(Some(WH::L1(l, d))) => { l.value_mut().write(v as u32); *d = true; "ok".into() }
            _ => "-".into(),
        },
        Op::Al(h) => {
            // precondition of the unsafe fn: the value was initialised
            let ready = matches!(env.wh.get(h), Some(Some(WH::L0(_, true))) | Some(Some(WH::L1(_, true))));
            if !ready { return "-".into(); }
            let n = match env.wh[h].take().unwrap() {
                WH::L0(l, _) => WH::I0(unsafe { l.assume_init_and_update() }),
                WH::L1(l, _) => WH::I1(unsafe { l.assume_init_and_update() }),
                o => o,
            };
            env.wh[h] = Some(n);
            "ok".into()
        }
        Op::Ul(h, v) => {
            let loaned = matches!(env.wh.get(h), Some(Some(WH::L0(..))) | Some(Some(WH::L1(..))));
            if !loaned { return "-".into(); }
            let n = match env.wh[h].take().unwrap() {
                WH::L0(l, _) => WH::I0(l.update_with_copy(v)),
                WH::L1(l, _) => WH::I1(l.update_with_copy(v as u32)),
                o => o,
            };
            env.wh[h] = Some(n);
            "ok".into()
        }
        Op::Dl(h) => {
            let loaned = matches!(env.wh.get(h), Some(Some(WH::L0(..))) | Some(Some(WH::L1(..))));
            if !loaned { return "-".into(); }
            let n = match env.wh[h].take().unwrap() {
                WH::L0(l, _) => WH::I0(l.discard()),
                WH::L1(l, _) => WH::I1(l.discard()),
                o => o,
            };
            env.wh[h] = Some(n);
            "ok".into()
        }
        Op::Cr(f) => match env.fac[f % env.fac.len()].reader_builder().create() {
            Ok(r) => { env.readers.push(Some(r)); format!("ok{}", env.readers.len() - 1) }
            Err(ReaderCreateError::ExceedsMaxSupportedReaders) => "maxr".into(),
            Err(e) => format!("err:{:?}", e),
        },
        Op::Dr(r) => match env.readers.get_mut(r) {
            Some(s) if s.is_some() => { drop(s.take()); "ok".into() }
            _ => "-".into(),
        },
        Op::Re(r, k, t) => match env.readers.get(r) {
            Some(Some(rd)) => {
                let x = if t == 0 { rd.entry::<u64>(&k).map(|e| RH::R0(e, None)) } else { rd.entry::<u32>(&k).map(|e| RH::R1(e, None)) };
                match x {
                    Ok(e) => { env.rh.push(Some(e)); format!("ok{}", env.rh.len() - 1) }
                    Err(EntryHandleError::EntryDoesNotExist) => "noentry".into(),
                }
            }
            _ => "-".into(),
        },
        Op::Dx(x) => match env.rh.get_mut(x) {
            Some(s) if s.is_some() => { drop(s.take()); "ok".into() }
            _ => "-".into(),
        },
        Op::G(x) => match env.rh.get_mut(x) {
            Some(Some(RH::R0(e, last))) => { let b = e.get(); let s = format!("v{}g{}", *b, gen_of(&b)); *last = Some(b); s }
            Some(Some(RH::R1(e, last))) => { let b = e.get(); let s = format!("v{}g{}", *b, gen_of(&b)); *last = Some(b); s }
            _ => "-".into(),
        },
        Op::Ud(x) => match env.rh.get(x) {
            Some(Some(RH::R0(e, Some(b)))) => if e.is_up_to_date(b) { "t".into() } else { "f".into() },
            Some(Some(RH::R1(e, Some(b)))) => if e.is_up_to_date(b) { "t".into() } else { "f".into() },
            _ => "-".into(),
        },
    }
}

/// where the ops of one history come from
enum Source<'a> {
    Fixed(&'a [Op]),
    Random { rng: &'a mut Rng, len: usize },
}

struct Ctx<S: Service> {
    kind: &'static str,
    node_a: Node<S>,
    node_b: Node<S>,
    counter: u64,
    vbase: u64,
}

struct CaseResult {
    ops: Vec<Op>,
    lines: Vec<String>,
    next: Vec<Op>, // enabled after the last op
}

/// one history on a fresh service
fn run_case<S: Service>(ctx: &mut Ctx<S>, mr: usize, mut src: Source) -> CaseResult {
    ctx.counter += 1;
    let name: ServiceName = format!("c12/{}/{}/{}", ctx.kind, std::process::id(), ctx.counter).as_str().try_into().unwrap();
    let f0 = ctx.node_a.service_builder(&name).blackboard_creator::<K>()
        .add::<u64>(0, INIT0).add::<u32>(1, INIT1).max_readers(mr).create().expect("create service");
    let f1 = ctx.node_b.service_builder(&name).blackboard_opener::<K>().open().expect("open service");
    let mut env = Env::<S> { fac: vec![f0, f1], writers: vec![], wh: vec![], readers: vec![], rh: vec![] };
    let mut res = CaseResult { ops: vec![], lines: vec![], next: vec![] };
    let mut pos = 0usize;
    loop {
        let op = match &mut src {
            Source::Fixed(ops) => { if pos < ops.len() { ops[pos] } else { break } }
            Source::Random { rng, len } => {
                if pos >= *len { break; }
                let en = enabled(&env, ctx.vbase, pos, true);
                if en.is_empty() || rng.below(100) < 6 {
                    // a wild op: arbitrary ids, also of dead / not yet existing objects
                    let id = |rng: &mut Rng, n: usize| rng.below(n as u64 + 2) as usize;
                    let val = ctx.vbase + pos as u64;
                    match rng.below(14) {
                        0 => Op::Cw(rng.below(2) as usize),
                        1 => Op::Dw(id(rng, env.writers.len())),
                        2 => Op::We(id(rng, env.writers.len()), rng.below(3), rng.below(2) as u8),
                        3 => Op::Dh(id(rng, env.wh.len())),
                        4 => Op::Uc(id(rng, env.wh.len()), val),
                        5 => Op::Lu(id(rng, env.wh.len())),
                        6 => Op::Wl(id(rng, env.wh.len()), val),
                        7 => Op::Al(id(rng, env.wh.len())),
                        8 => Op::Ul(id(rng, env.wh.len()), val),
                        9 => Op::Dl(id(rng, env.wh.len())),
                        10 => Op::Cr(rng.below(2) as usize),
                        11 => Op::Re(id(rng, env.readers.len()), rng.below(3), rng.below(2) as u8),
                        12 => Op::G(id(rng, env.rh.len())),
                        _ => Op::Ud(id(rng, env.rh.len())),
                    }
                } else {
                    // creates and entry requests are favoured: the contention on the single writer
                    // slot and on the per-key producer flag is what the property is about
                    let hot: Vec<Op> = en.iter().cloned().filter(|o| matches!(o, Op::Cw(_) | Op::We(..))).collect();
                    if !hot.is_empty() && rng.below(100) < 12 { hot[rng.below(hot.len() as u64) as usize] }
                    else { en[rng.below(en.len() as u64) as usize] }
                }
            }
        };
        res.ops.push(op);
        let r = catch_unwind(AssertUnwindSafe(|| exec(&mut env, op)));
        let dc = env.fac[0].dynamic_config();
        let tail = format!("w={} r={}", dc.number_of_writers(), dc.number_of_readers());
        match r {
            Ok(obs) => res.lines.push(format!("O {} = {} | {}", op.text(), obs, tail)),
            Err(_) => { res.lines.push(format!("O {} = P | {}", op.text(), tail)); break; }
        }
        pos += 1;
    }
    res.next = enabled(&env, ctx.vbase, pos, false);
    // orderly teardown: handles, ports, factories (the service disappears with its last owner)
    let _ = catch_unwind(AssertUnwindSafe(move || {
        let Env { fac, writers, wh, readers, rh } = env;
        drop(wh); drop(rh); drop(writers); drop(readers); drop(fac);
    }));
    res
}

struct Out { w: std::io::BufWriter<std::io::Stdout> }
impl Out {
    fn case(&mut self, kind: &str, mr: usize, r: &CaseResult) {
        let _ = writeln!(self.w, "C {} mr={} ty=0,1 init={},{} hist={}", kind, mr, INIT0, INIT1, hist_string(&r.ops));
        for l in &r.lines { let _ = writeln!(self.w, "{}", l); }
    }
}

const SHARD_DEPTH: usize = 3;

struct Dfs { maxlen: usize, shard: u64, nshards: u64, split_idx: u64, mr: usize }

fn dfs<S: Service>(ctx: &mut Ctx<S>, d: &mut Dfs, prefix: &mut Vec<Op>, out: &mut Out) {
    let depth = prefix.len();
    if depth == SHARD_DEPTH {
        let mine = d.split_idx % d.nshards == d.shard;
        d.split_idx += 1;
        if !mine { return; }
    }
    let r = run_case(ctx, d.mr, Source::Fixed(prefix));
    // the shared top of the tree is executed by every shard (to learn what is enabled) but reported once
    if depth > 0 && (depth >= SHARD_DEPTH || d.shard == 0) { out.case(ctx.kind, d.mr, &r); }
    if depth < d.maxlen {
        for o in r.next {
            // the values written are a function of the position, so every write is distinguishable
            prefix.push(o);
            dfs(ctx, d, prefix, out);
            prefix.pop();
        }
    }
}

fn with_kind<S: Service>(kind: &'static str, config: &Config, seed: u64, f: &mut dyn FnMut(&mut Ctx<S>)) {
    let node_a = NodeBuilder::new().config(config).create::<S>().expect("node a");
    let node_b = NodeBuilder::new().config(config).create::<S>().expect("node b");
    let mut ctx = Ctx::<S> { kind, node_a, node_b, counter: 0, vbase: 100 + (seed % 7) * 100 };
    f(&mut ctx);
}

fn main() {
    if std::env::var("VERIF_PANIC_VERBOSE").is_err() {
        std::panic::set_hook(Box::new(|_| {}));
    }
    iceoryx2_log::set_log_level(iceoryx2_log::LogLevel::Fatal);
    let a: Vec<String> = std::env::args().collect();
    if a.len() < 3 {
        eprintln!("usage: c12 exh <maxlen> <shard> <nshards> <seed> [local|ipc|both] | rnd <count> <shard> <nshards> <seed> [kinds] | one <history> [kinds] [max_readers]");
        std::process::exit(2);
    }
    let pid = std::process::id();
    let root = format!("/dev/shm/verif-c12-{}", pid);
    std::fs::create_dir_all(&root).expect("private root");
    let prefix = format!("c12_{}_", pid);
    let mut config = Config::default();
    config.global.prefix = FileName::new(prefix.as_bytes()).unwrap();
    config.global.set_root_path(&Path::new(root.as_bytes()).unwrap());
    let mut out = Out { w: std::io::BufWriter::with_capacity(1 << 20, std::io::stdout()) };
    let mode = a[1].clone();
    let rc = catch_unwind(AssertUnwindSafe(|| {
        let kinds_arg = match mode.as_str() { "one" => a.get(3), _ => a.get(6) }.cloned().unwrap_or_else(|| "both".into());
        let kinds: Vec<&'static str> = match kinds_arg.as_str() {
            "local" => vec!["local"], "ipc" => vec!["ipc"], "both" => vec!["local", "ipc"],
            k => panic!("unknown service kind {}", k),
        };
        for kind in kinds {
            match mode.as_str() {
                "one" => {
                    let ops: Vec<Op> = a[2].split(|c| c == ',' || c == ' ').filter(|s| !s.is_empty()).map(Op::parse).collect();
                    let mr: usize = a.get(4).map(|s| s.parse().unwrap()).unwrap_or(1);
                    let mut job = |kind: &'static str, r: CaseResult| out.case(kind, mr, &r);
                    if kind == "local" {
                        with_kind::<local::Service>(kind, &config, 0, &mut |ctx| { let r = run_case(ctx, mr, Source::Fixed(&ops)); job(kind, r) });
                    } else {
                        with_kind::<ipc::Service>(kind, &config, 0, &mut |ctx| { let r = run_case(ctx, mr, Source::Fixed(&ops)); job(kind, r) });
                    }
                }
                "exh" => {
                    let maxlen: usize = a[2].parse().unwrap();
                    let shard: u64 = a[3].parse().unwrap();
                    let nshards: u64 = a[4].parse().unwrap();
                    let seed: u64 = a[5].parse().unwrap();
                    let mut d = Dfs { maxlen, shard, nshards, split_idx: 0, mr: 1 };
                    if kind == "local" {
                        with_kind::<local::Service>(kind, &config, seed, &mut |ctx| dfs(ctx, &mut d, &mut vec![], &mut out));
                    } else {
                        with_kind::<ipc::Service>(kind, &config, seed, &mut |ctx| dfs(ctx, &mut d, &mut vec![], &mut out));
                    }
                }
                "rnd" => {
                    let count: u64 = a[2].parse().unwrap();
                    let shard: u64 = a[3].parse().unwrap();
                    let nshards: u64 = a[4].parse().unwrap();
                    let seed: u64 = a[5].parse().unwrap();
                    let _ = nshards;
                    let mut rng = Rng(seed ^ shard.wrapping_mul(0xA24BAED4963EE407) ^ 0xC12 ^ if kind == "ipc" { 0x5555 } else { 0 });
                    let mut body = |ctx_run: &mut dyn FnMut(usize, &mut Rng, usize) -> CaseResult| {
                        for _ in 0..count {
                            let mr = 1 + rng.below(3) as usize;
                            let len = 8 + rng.below(33) as usize;
                            let r = ctx_run(mr, &mut rng, len);
                            out.case(kind, mr, &r);
                        }
                    };
                    if kind == "local" {
                        with_kind::<local::Service>(kind, &config, seed, &mut |ctx| body(&mut |mr, rng, len| run_case(ctx, mr, Source::Random { rng, len })));
                    } else {
                        with_kind::<ipc::Service>(kind, &config, seed, &mut |ctx| body(&mut |mr, rng, len| run_case(ctx, mr, Source::Random { rng, len })));
                    }
                }
                m => panic!("unknown mode {}", m),
            }
        }
    }));
    let _ = out.w.flush();
    let _ = std::fs::remove_dir_all(&root);
    if let Ok(rd) = std::fs::read_dir("/dev/shm") {
        for e in rd.flatten() {
            if e.file_name().to_string_lossy().starts_with(&prefix) {
                let _ = std::fs::remove_file(e.path());
            }
        }
    }
    if rc.is_err() {
        eprintln!("harness panicked");
        std::process::exit(3);
    }
}
