//! G3 correspondence harness for C11: runs request-response histories against the REAL
//! iceoryx2 Client / Server / PendingResponse / ActiveRequest / Response API and prints one
//! canonical observation per operation for ocaml/c11/driver.
//!
//! usage: c11 exh  <variant> <cfg> <setup> <prologue> <alphabet> <len>    <shard> <nshards> <seed>
//!        c11 rnd  <variant> <cfg> <setup> <prologue> <alphabet> <maxlen> <shard> <nshards> <seed> <ncases>
//!        c11 hist <variant> <cfg> <setup> <op> <op> ...      (ops as printed, '_' for blanks: q_0 pr_0)
//!        c11 churn <variant> <nclients>                      (probe: request of a vanished client, expired-connection buffer 2)
//!   variant  = ipc | local
//!   cfg      = ma.ml.rb.mb.mlr.ms.mc.ovq.ovr.faf.pre   e.g. 1.1.1.1.1.1.1.0.0.0.0
//!              ma  max_active_requests_per_client     ml  max_loaned_requests
//!              rb  max_response_buffer_size           mb  max_borrowed_responses_per_pending_response
//!              mlr server max_loaned_responses_per_request
//!              ms  max_servers   mc  max_clients      ovq/ovr safe overflow for requests/responses
//!              faf fire-and-forget requests           pre 0 = default preallocation, n>0 = override_request_preallocation(n)
//!   setup    = ports created before the history, in order: c0 c1 s0 s1 joined by '+', or '-'
//!   prologue = ops executed before the enumerated/random suffix (joined by '+', '_' for blanks) or '-'
//!
//! Objects are addressed by age: `pr k` is the k-th oldest LIVE pending response, `as a` the a-th
//! oldest live active request, `rx m` the m-th oldest held response; an op on a missing object
//! prints `-` and does nothing.  Request payload = harness request number (hid, one per loan
//! attempt); response payload = hid*10000 + server slot*1000 + sequence number of the send
//! attempt within its active request.  Both ports use BackpressureStrategy::DiscardData (the
//! history is sequential: a blocking send into a full buffer would never return).
extern crate iceoryx2_bb_loggers;

use std::cell::RefCell;
use std::io::Write;
use std::rc::Rc;
use std::panic::{catch_unwind, AssertUnwindSafe};

use iceoryx2::active_request::ActiveRequest;
use iceoryx2::pending_response::PendingResponse;
use iceoryx2::port::client::{Client, RequestSendError};
use iceoryx2::port::server::Server;
use iceoryx2::port::{BackpressureAction, LoanError, ReceiveError, SendError};
use iceoryx2::prelude::*;
use iceoryx2::request_mut::RequestMut;
use iceoryx2::response::Response;
use iceoryx2::response_mut::ResponseMut;
use iceoryx2::service::port_factory::request_response::PortFactory;
use iceoryx2::service::Service;
use iceoryx2_bb_container::semantic_string::SemanticString;
use iceoryx2_bb_system_types::file_name::FileName;
use iceoryx2_bb_system_types::path::Path;

type Cl<S> = Client<S, u64, (), u64, ()>;
type Sv<S> = Server<S, u64, (), u64, ()>;
type Pend<S> = PendingResponse<S, u64, (), u64, ()>;
type Act<S> = ActiveRequest<S, u64, (), u64, ()>;
type ReqM<S> = RequestMut<S, u64, (), u64, ()>;
type Resp<S> = Response<S, u64, ()>;
type RespM<S> = ResponseMut<S, u64, ()>;
type Fac<S> = PortFactory<S, u64, (), u64, ()>;

pub struct Rng(pub u64);
impl Rng {
    pub fn next(&mut self) -> u64 {
        self.0 = self.0.wrapping_add(0x9E3779B97F4A7C15);
        let mut z = self.0;
        z = (z ^ (z >> 30)).wrapping_mul(0xBF58476D1CE4E5B9);
        z = (z ^ (z >> 27)).wrapping_mul(0x94D049BB133111EB);
        z ^ (z >> 31)
    }
    pub fn below(&mut self, n: u64) -> u64 {
        if n == 0 { 0 } else { self.next() % n }
    }
}

pub struct Out {
    pub w: std::io::BufWriter<std::io::Stdout>,
}
impl Out {
    pub fn line(&mut self, s: &str) {
        let _ = self.w.write_all(s.as_bytes());
        let _ = self.w.write_all(b"\n");
    }
}

#[derive(Clone, Copy, Debug, PartialEq)]
pub enum Op {
    Cc(usize), Cd(usize), Sc(usize), Sd(usize),
    L(usize), S, Lx, Q(usize), Qd(usize), Qh(usize, usize),
    Pr(usize), Pd(usize), Ph(usize),
    Rx(usize),
    Sr(usize), Sh(usize),
    As(usize), Al(usize), Aw, Ax, Ad(usize),
}

impl Op {
    fn text(&self) -> String {
        match self {
            Op::Cc(i) => format!("cc {}", i), Op::Cd(i) => format!("cd {}", i),
            Op::Sc(i) => format!("sc {}", i), Op::Sd(i) => format!("sd {}", i),
            Op::L(i) => format!("l {}", i), Op::S => "s".into(), Op::Lx => "lx".into(),
            Op::Q(i) => format!("q {}", i), Op::Qd(i) => format!("qd {}", i), Op::Qh(i, j) => format!("qh {} {}", i, j),
            Op::Pr(k) => format!("pr {}", k), Op::Pd(k) => format!("pd {}", k), Op::Ph(k) => format!("ph {}", k),
            Op::Rx(m) => format!("rx {}", m),
            Op::Sr(j) => format!("sr {}", j), Op::Sh(j) => format!("sh {}", j),
            Op::As(a) => format!("as {}", a), Op::Al(a) => format!("al {}", a),
            Op::Aw => "aw".into(), Op::Ax => "ax".into(), Op::Ad(a) => format!("ad {}", a),
        }
    }
    fn parse(t: &str) -> Op {
        let v: Vec<&str> = t.split(|c| c == '_' || c == ' ').filter(|s| !s.is_empty()).collect();
        let a = |k: usize| -> usize { v.get(k).map(|x| x.parse().expect("numeric op argument")).unwrap_or(0) };
        match v[0] {
            "cc" => Op::Cc(a(1)), "cd" => Op::Cd(a(1)), "sc" => Op::Sc(a(1)), "sd" => Op::Sd(a(1)),
            "l" => Op::L(a(1)), "s" => Op::S, "lx" => Op::Lx, "q" => Op::Q(a(1)), "qd" => Op::Qd(a(1)), "qh" => Op::Qh(a(1), a(2)),
            "pr" => Op::Pr(a(1)), "pd" => Op::Pd(a(1)), "ph" => Op::Ph(a(1)),
            "rx" => Op::Rx(a(1)),
            "sr" => Op::Sr(a(1)), "sh" => Op::Sh(a(1)),
            "as" => Op::As(a(1)), "al" => Op::Al(a(1)), "aw" => Op::Aw, "ax" => Op::Ax, "ad" => Op::Ad(a(1)),
            o => panic!("unknown op {}", o),
        }
    }
}

fn parse_ops(s: &str) -> Vec<Op> {
    if s == "-" || s.is_empty() { return vec![]; }
    s.split('+').map(Op::parse).collect()
}

/// named alphabets
fn alphabet(name: &str) -> Vec<Op> {
    use Op::*;
    match name {
        // one client, one server: the request/response life cycle with every drop order
        "core" => vec![Q(0), Pr(0), Pr(1), Pd(0), Pd(1), Rx(0), Sr(0), As(0), As(1), Ad(0), Ad(1)],
        // loans on both sides and the limits
        "loan" => vec![L(0), S, Lx, Q(0), Pd(0), Sr(0), Al(0), Al(1), Aw, Ax, As(0), Ad(0), Pr(0), Rx(0)],
        // port life cycle: one client slot pair, one server slot pair
        "ports" => vec![Cc(0), Cd(0), Sc(0), Sd(0), Q(0), Pr(0), Pd(0), Sr(0), As(0), Ad(0), Rx(0)],
        // two clients, one server
        "c2" => vec![Q(0), Q(1), Pr(0), Pr(1), Pd(0), Sr(0), As(0), As(1), Ad(0), Cd(0), Cc(0), Rx(0)],
        // one client, two servers
        "s2" => vec![Q(0), Pr(0), Pd(0), Sr(0), Sr(1), As(0), As(1), Ad(0), Sd(0), Sc(0), Rx(0)],
        // channel reuse: send-and-drop cycles around a queued response
        "reuse" => vec![Q(0), Qd(0), Pr(0), Pd(0), Sr(0), As(0), As(1), Ad(0), Rx(0), Ph(0)],
        // disconnect hint around a stale ActiveRequest: used behind a prologue that keeps ActiveRequest(A) alive
        // across a full channel-id cycle so that request B owns A's channel
        "hint" => vec![Ph(0), Ad(0), Ad(1), Pd(0), As(0), As(1), Pr(0), Q(0), Sr(0), Rx(0)],
        // expired connection with several channels (behind a prologue with two answered requests)
        "sib" => vec![Ad(0), Sd(0), Pr(0), Pr(1), Rx(0), Pd(0), As(0), Sc(0)],
        // backpressure handler scripts: while the delivery to one server stalls, the handler lets a server poll
        "bph" => vec![Q(0), Qh(0, 0), Qh(0, 1), Pd(0), Sr(0), Sr(1), Ad(0), As(0), Pr(0), Rx(0)],
        // everything (random histories)
        "full" => vec![Cc(0), Cc(1), Cd(0), Cd(1), Sc(0), Sc(1), Sd(0), Sd(1), L(0), L(1), S, Lx, Q(0), Q(1), Qd(0), Qd(1), Qh(0, 0), Qh(0, 1), Qh(1, 0), Qh(1, 1),
                       Pr(0), Pr(1), Pr(2), Pd(0), Pd(1), Pd(2), Ph(0), Rx(0), Rx(1), Sr(0), Sr(1), Sh(0), Sh(1),
                       As(0), As(1), As(2), Al(0), Al(1), Aw, Ax, Ad(0), Ad(1), Ad(2)],
        o => panic!("unknown alphabet {}", o),
    }
}

#[derive(Clone, Debug)]
pub struct Cfg {
    ma: usize, ml: usize, rb: usize, mb: usize, mlr: usize, ms: usize, mc: usize,
    ovq: bool, ovr: bool, faf: bool, pre: usize,
}
impl Cfg {
    fn parse(s: &str) -> Cfg {
        let v: Vec<usize> = s.split('.').map(|x| x.parse().expect("cfg number")).collect();
        assert!(v.len() == 11, "cfg = ma.ml.rb.mb.mlr.ms.mc.ovq.ovr.faf.pre");
        Cfg { ma: v[0], ml: v[1], rb: v[2], mb: v[3], mlr: v[4], ms: v[5], mc: v[6], ovq: v[7] != 0, ovr: v[8] != 0, faf: v[9] != 0, pre: v[10] }
    }
    fn text(&self) -> String {
        format!("ma={} ml={} rb={} mb={} mlr={} ms={} mc={} ovq={} ovr={} faf={} pre={}",
            self.ma, self.ml, self.rb, self.mb, self.mlr, self.ms, self.mc, self.ovq as u8, self.ovr as u8, self.faf as u8, self.pre)
    }
}

fn loan_err(e: LoanError) -> &'static str {
    match e {
        LoanError::OutOfMemory => "oom",
        LoanError::ExceedsMaxLoans => "maxloans",
        LoanError::ExceedsMaxLoanSize => "maxsize",
        LoanError::InternalFailure => "internal",
    }
}
fn send_err(e: SendError) -> String {
    match e {
        SendError::LoanError(l) => format!("e:{}", loan_err(l)),
        SendError::ConnectionBrokenSinceSenderNoLongerExists => "e:nosender".into(),
        SendError::ConnectionCorrupted => "e:corrupted".into(),
        SendError::ConnectionError(_) => "e:conn".into(),
        SendError::UnableToDeliver => "e:undeliverable".into(),
        SendError::InternalError => "e:internal".into(),
    }
}
fn rsend_err(e: RequestSendError) -> String {
    match e {
        RequestSendError::ExceedsMaxActiveRequests => "e:maxactive".into(),
        RequestSendError::SendError(s) => send_err(s),
    }
}
fn recv_err(e: ReceiveError) -> String {
    match e {
        ReceiveError::ExceedsMaxBorrows => "e:maxborrows".into(),
        ReceiveError::ConnectionFailure(_) => "e:conn".into(),
    }
}

fn num_after(s: &str, key: &str) -> Option<u64> {
    let i = s.rfind(key)? + key.len();
    let digits: String = s[i..].chars().take_while(|c| c.is_ascii_digit()).collect();
    digits.parse().ok()
}

/// the script of the client's backpressure handler: at its next invocation server `script` polls
/// (has_requests, receive); `result` = what it saw
pub struct HState {
    script: Option<usize>,
    result: Option<String>,
}
struct SendWrap<T>(T);
unsafe impl<T> Send for SendWrap<T> {}

struct Case<S: Service> {
    clients: [Option<Cl<S>>; 2],
    servers: Rc<RefCell<[Option<Sv<S>>; 2]>>,
    loans: Vec<(u64, ReqM<S>)>,
    pendings: Vec<(u64, Pend<S>)>,
    actives: Rc<RefCell<Vec<(u64, usize, u64, Act<S>)>>>, // request hid (payload), server slot, next response seq
    hstate: Rc<RefCell<HState>>,
    resps: Vec<Resp<S>>,
    rloans: Vec<RespM<S>>,
    next_hid: u64,
}

impl<S: Service + 'static> Case<S> {
    fn new() -> Self {
        Case { clients: [None, None], servers: Rc::new(RefCell::new([None, None])), loans: vec![], pendings: vec![], actives: Rc::new(RefCell::new(vec![])), hstate: Rc::new(RefCell::new(HState { script: None, result: None })), resps: vec![], rloans: vec![], next_hid: 0 }
    }

    /// read-only digest: pending responses (connected, has_response), active requests (connected, hint)
    fn digest(&self) -> String {
        let p: Vec<String> = self.pendings.iter().map(|(h, p)| format!("{}:{}{}", h, p.is_connected() as u8, p.has_response() as u8)).collect();
        let a: Vec<String> = self.actives.borrow().iter().map(|(h, j, _, a)| format!("{}@{}:{}{}", h, j, a.is_connected() as u8, a.has_disconnect_hint() as u8)).collect();
        format!("P[{}] A[{}]", p.join(","), a.join(","))
    }

    fn create_client(&self, fac: &Fac<S>, cfg: &Cfg) -> Result<Cl<S>, String> {
        let pre = cfg.pre;
        let b = fac.client_builder().backpressure_strategy(BackpressureStrategy::DiscardData);
        let b = if pre > 0 { b.override_request_preallocation(move |_| pre) } else { b };
        // the handler runs whenever a delivery stalls (buffer full, no overflow, server attached); when a script is
        // armed the scripted server polls INSIDE the handler; the answer is always "discard for this server"
        let ctx = SendWrap((self.servers.clone(), self.actives.clone(), self.hstate.clone()));
        let b = b.set_backpressure_handler(move |_info| {
            let ctx = &ctx;
            let (servers, actives, hstate) = &ctx.0;
            let script = hstate.borrow_mut().script.take();
            if let Some(j) = script {
                let srv = servers.borrow();
                let res = match srv[j].as_ref() {
                    None => "x".to_string(),
                    Some(s) => {
                        let b = match s.has_requests() { Ok(b) => format!("b{}", b as u8), Err(_) => "e:conn".into() };
                        let r = match s.receive() {
                            Ok(None) => "n".to_string(),
                            Ok(Some(a)) => {
                                let hid = *a.payload();
                                let d = format!("{:?}", a);
                                let rid = num_after(&d, "request_id: ").unwrap_or(999);
                                let ch = num_after(&d, "channel_id: ").unwrap_or(999);
                                actives.borrow_mut().push((hid, j, 0, a));
                                format!("a{}:{}:{}", hid, rid, ch)
                            }
                            Err(e) => recv_err(e),
                        };
                        format!("{}~{}", b, r)
                    }
                };
                hstate.borrow_mut().result = Some(res);
            }
            BackpressureAction::DiscardData
        });
        b.create().map_err(|e| format!("e:{:?}", e))
    }

    fn create_server(&self, fac: &Fac<S>, cfg: &Cfg) -> Result<Sv<S>, String> {
        fac.server_builder()
            .backpressure_strategy(BackpressureStrategy::DiscardData)
            .max_loaned_responses_per_request(cfg.mlr)
            .create()
            .map_err(|e| format!("e:{:?}", e))
    }

    fn exec(&mut self, fac: &Fac<S>, cfg: &Cfg, op: Op) -> String {
        match op {
            Op::Cc(i) => {
                if self.clients[i].is_some() { return "-".into(); }
                match self.create_client(fac, cfg) { Ok(c) => { self.clients[i] = Some(c); "ok".into() } Err(e) => e }
            }
            Op::Cd(i) => match self.clients[i].take() { Some(c) => { drop(c); "ok".into() } None => "-".into() },
            Op::Sc(j) => {
                if self.servers.borrow()[j].is_some() { return "-".into(); }
                match self.create_server(fac, cfg) { Ok(s) => { self.servers.borrow_mut()[j] = Some(s); "ok".into() } Err(e) => e }
            }
            Op::Sd(j) => { let t = self.servers.borrow_mut()[j].take(); match t { Some(s) => { drop(s); "ok".into() } None => "-".into() } }
            Op::L(i) => {
                let Some(c) = self.clients[i].as_ref() else { return "-".into() };
                let hid = self.next_hid;
                self.next_hid += 1;
                match c.loan_uninit() {
                    Ok(r) => {
                        let r = r.write_payload(hid);
                        let ch = num_after(&format!("{:?}", r), "channel_id: ").unwrap_or(999);
                        self.loans.push((hid, r));
                        format!("ok{}:{}", hid, ch)
                    }
                    Err(e) => format!("e:{}", loan_err(e)),
                }
            }
            Op::S => {
                if self.loans.is_empty() { return "-".into(); }
                let (hid, r) = self.loans.remove(0);
                match r.send() {
                    Ok(p) => { let n = p.number_of_server_connections(); self.pendings.push((hid, p)); format!("ok{}", n) }
                    Err(e) => rsend_err(e),
                }
            }
            Op::Lx => { if self.loans.is_empty() { return "-".into(); } drop(self.loans.remove(0)); "ok".into() }
            Op::Q(i) | Op::Qd(i) => {
                let Some(c) = self.clients[i].as_ref() else { return "-".into() };
                let hid = self.next_hid;
                self.next_hid += 1;
                match c.send_copy(hid) {
                    Ok(p) => {
                        let n = p.number_of_server_connections();
                        if let Op::Qd(_) = op { drop(p); } else { self.pendings.push((hid, p)); }
                        format!("ok{}", n)
                    }
                    Err(e) => rsend_err(e),
                }
            }
            Op::Qh(i, j) => {
                let Some(c) = self.clients[i].as_ref() else { return "-".into() };
                let hid = self.next_hid;
                self.next_hid += 1;
                { let mut h = self.hstate.borrow_mut(); h.script = Some(j); h.result = None; }
                let r = c.send_copy(hid);
                let hres = { let mut h = self.hstate.borrow_mut(); h.script = None; h.result.take() };
                let hres = hres.unwrap_or_else(|| "-".to_string());
                match r {
                    Ok(p) => { let n = p.number_of_server_connections(); self.pendings.push((hid, p)); format!("ok{}~{}", n, hres) }
                    Err(e) => format!("{}~{}", rsend_err(e), hres),
                }
            }
            Op::Pr(k) => {
                let Some((_, p)) = self.pendings.get(k) else { return "-".into() };
                match p.receive() {
                    Ok(None) => "n".into(),
                    Ok(Some(r)) => {
                        let v = *r.payload();
                        self.resps.push(r);
                        format!("r{}.{}.{}", v / 10000, (v / 1000) % 10, v % 1000)
                    }
                    Err(e) => recv_err(e),
                }
            }
            Op::Pd(k) => { if k >= self.pendings.len() { return "-".into(); } drop(self.pendings.remove(k)); "ok".into() }
            Op::Ph(k) => {
                let Some((_, p)) = self.pendings.get(k) else { return "-".into() };
                p.set_disconnect_hint();
                "ok".into()
            }
            Op::Rx(m) => { if m >= self.resps.len() { return "-".into(); } drop(self.resps.remove(m)); "ok".into() }
            Op::Sr(j) => {
                let srv = self.servers.borrow();
                let Some(s) = srv[j].as_ref() else { return "-".into() };
                match s.receive() {
                    Ok(None) => "n".into(),
                    Ok(Some(a)) => {
                        let hid = *a.payload();
                        let d = format!("{:?}", a);
                        let rid = num_after(&d, "request_id: ").unwrap_or(999);
                        let ch = num_after(&d, "channel_id: ").unwrap_or(999);
                        self.actives.borrow_mut().push((hid, j, 0, a));
                        format!("a{}:{}:{}", hid, rid, ch)
                    }
                    Err(e) => recv_err(e),
                }
            }
            Op::Sh(j) => {
                let srv = self.servers.borrow();
                let Some(s) = srv[j].as_ref() else { return "-".into() };
                match s.has_requests() { Ok(b) => format!("b{}", b as u8), Err(_) => "e:conn".into() }
            }
            Op::As(a) => {
                let mut acts = self.actives.borrow_mut();
                let Some((hid, j, seq, act)) = acts.get_mut(a) else { return "-".into() };
                let v = *hid * 10000 + (*j as u64) * 1000 + *seq;
                *seq += 1;
                match act.send_copy(v) { Ok(()) => "ok".into(), Err(e) => send_err(e) }
            }
            Op::Al(a) => {
                let mut acts = self.actives.borrow_mut();
                let Some((hid, j, seq, act)) = acts.get_mut(a) else { return "-".into() };
                let v = *hid * 10000 + (*j as u64) * 1000 + *seq;
                *seq += 1;
                match act.loan_uninit() {
                    Ok(r) => { self.rloans.push(r.write_payload(v)); "ok".into() }
                    Err(e) => format!("e:{}", loan_err(e)),
                }
            }
            Op::Aw => {
                if self.rloans.is_empty() { return "-".into(); }
                match self.rloans.remove(0).send() { Ok(()) => "ok".into(), Err(e) => send_err(e) }
            }
            Op::Ax => { if self.rloans.is_empty() { return "-".into(); } drop(self.rloans.remove(0)); "ok".into() }
            Op::Ad(a) => { if a >= self.actives.borrow().len() { return "-".into(); } let x = self.actives.borrow_mut().remove(a); drop(x); "ok".into() }
        }
    }

    /// orderly end of a case; the order is fixed (it is not part of the compared history)
    fn teardown(&mut self) {
        self.resps.clear();
        self.rloans.clear();
        self.loans.clear();
        self.pendings.clear();
        self.actives.borrow_mut().clear();
        self.clients = [None, None];
        *self.servers.borrow_mut() = [None, None];
    }
}

fn run_case<S: Service + 'static>(fac: &Fac<S>, variant: &str, cfg: &Cfg, setup: &[Op], prologue: &[Op], ops: &[Op], out: &mut Out) -> bool {
    let mut case = Case::<S>::new();
    out.line(&format!("C {} {}", variant, cfg.text()));
    let mut alive = true;
    for (phase, list) in [("U", setup), ("O", prologue), ("O", ops)] {
        for op in list {
            if !alive { break; }
            let r = catch_unwind(AssertUnwindSafe(|| {
                let obs = case.exec(fac, cfg, *op);
                let d = case.digest();
                (obs, d)
            }));
            match r {
                Ok((obs, d)) => out.line(&format!("{} {} = {} | {}", phase, op.text(), obs, d)),
                Err(_) => { out.line(&format!("{} {} = P", phase, op.text())); alive = false; }
            }
        }
    }
    let r = catch_unwind(AssertUnwindSafe(|| case.teardown()));
    if r.is_err() {
        out.line("O teardown = P");
        // the objects of a panicked case may be in an undefined state: leak them
        std::mem::forget(case);
        return false;
    }
    alive
}

fn histories<F: FnMut(&[Op]) -> bool>(mode: &str, rest: &[String], mut f: F) {
    match mode {
        "hist" => {
            let ops: Vec<Op> = rest.iter().map(|t| Op::parse(t)).collect();
            f(&ops);
        }
        "exh" => {
            let alpha = alphabet(&rest[0]);
            let len: u32 = rest[1].parse().unwrap();
            let shard: u64 = rest[2].parse().unwrap();
            let nshards: u64 = rest[3].parse().unwrap();
            let total = (alpha.len() as u64).pow(len);
            let mut i = shard;
            let mut ops = vec![Op::S; len as usize];
            while i < total {
                let mut x = i;
                for k in 0..len as usize {
                    ops[k] = alpha[(x % alpha.len() as u64) as usize];
                    x /= alpha.len() as u64;
                }
                if !f(&ops) { break; }
                i += nshards;
            }
        }
        "rnd" => {
            let alpha = alphabet(&rest[0]);
            let maxlen: u64 = rest[1].parse().unwrap();
            let shard: u64 = rest[2].parse().unwrap();
            let seed: u64 = rest[4].parse().unwrap();
            let ncases: u64 = rest[5].parse().unwrap();
            let mut rng = Rng(seed ^ (shard.wrapping_mul(0xA24BAED4963EE407)) ^ 0xC11);
            let has = |o: &Op| alpha.contains(o);
            for _ in 0..ncases {
                let len = maxlen / 4 + rng.below(maxlen - maxlen / 4 + 1);
                let mut ops: Vec<Op> = vec![];
                while (ops.len() as u64) < len {
                    let r = rng.below(100);
                    if r < 22 {
                        // channel reuse: a response is still queued when its pending response is dropped,
                        // then new requests follow immediately
                        let c = rng.below(2) as usize;
                        let c = if has(&Op::Q(c)) { c } else { 0 };
                        let j = rng.below(2) as usize;
                        let j = if has(&Op::Sr(j)) { j } else { 0 };
                        ops.push(Op::Q(c)); ops.push(Op::Sr(j)); ops.push(Op::As(rng.below(2) as usize));
                        if rng.below(2) == 0 { ops.push(Op::As(0)); }
                        ops.push(Op::Pd(rng.below(2) as usize));
                        for _ in 0..rng.below(4) { ops.push(if has(&Op::Qd(c)) { Op::Qd(c) } else { Op::Q(c) }); }
                        ops.push(Op::Q(c));
                        if rng.below(2) == 0 { ops.push(Op::As(0)); }
                        ops.push(Op::Pr(rng.below(2) as usize));
                        ops.push(Op::Pr(rng.below(2) as usize));
                    } else if r < 30 {
                        // a stale ActiveRequest kept alive across a full cycle of the channel-id pool; the request that
                        // inherits its channel sets the disconnect hint; only then the stale ActiveRequest is dropped
                        let c = rng.below(2) as usize;
                        let c = if has(&Op::Q(c)) { c } else { 0 };
                        let j = rng.below(2) as usize;
                        let j = if has(&Op::Sr(j)) { j } else { 0 };
                        ops.push(Op::Q(c)); ops.push(Op::Sr(j)); ops.push(Op::Pd(0));
                        for _ in 0..(2 + rng.below(8)) { ops.push(if has(&Op::Qd(c)) { Op::Qd(c) } else { Op::Q(c) }); }
                        ops.push(Op::Q(c)); ops.push(Op::Sr(j));
                        ops.push(Op::Ph(rng.below(2) as usize));
                        if rng.below(2) == 0 { ops.push(Op::As(rng.below(2) as usize)); }
                        ops.push(Op::Ad(0));
                        ops.push(Op::Pr(0));
                    } else {
                        ops.push(alpha[rng.below(alpha.len() as u64) as usize]);
                    }
                }
                ops.truncate(len as usize);
                if !f(&ops) { break; }
            }
        }
        m => panic!("unknown mode {}", m),
    }
}

fn make_service<S: Service>(node: &Node<S>, cfg: &Cfg, tag: &str) -> Fac<S> {
    let name: ServiceName = format!("c11/{}/{}", std::process::id(), tag).as_str().try_into().unwrap();
    node.service_builder(&name)
        .request_response::<u64, u64>()
        .max_active_requests_per_client(cfg.ma)
        .max_loaned_requests(cfg.ml)
        .max_response_buffer_size(cfg.rb)
        .max_borrowed_responses_per_pending_response(cfg.mb)
        .max_servers(cfg.ms)
        .max_clients(cfg.mc)
        .max_nodes(2)
        .enable_safe_overflow_for_requests(cfg.ovq)
        .enable_safe_overflow_for_responses(cfg.ovr)
        .enable_fire_and_forget_requests(cfg.faf)
        .create()
        .expect("service")
}

fn run_all<S: Service + 'static>(a: &[String], config: &Config, out: &mut Out) {
    let mode = a[1].as_str();
    let variant = a[2].as_str();
    let cfg = Cfg::parse(&a[3]);
    let setup: Vec<Op> = if a[4] == "-" { vec![] } else {
        a[4].split('+').map(|t| match t { "c0" => Op::Cc(0), "c1" => Op::Cc(1), "s0" => Op::Sc(0), "s1" => Op::Sc(1), o => panic!("unknown setup token {}", o) }).collect()
    };
    let node = NodeBuilder::new().config(config).create::<S>().expect("node");
    let mut fac = make_service::<S>(&node, &cfg, "0");
    let (prologue, rest): (Vec<Op>, &[String]) = if mode == "hist" { (vec![], &a[5..]) } else { (parse_ops(&a[5]), &a[6..]) };
    let mut generation = 0u64;
    histories(mode, rest, |ops| {
        if !run_case::<S>(&fac, variant, &cfg, &setup, &prologue, ops, out) {
            // a panic may have left the service in an undefined state: continue on a fresh one
            generation += 1;
            let old = std::mem::replace(&mut fac, make_service::<S>(&node, &cfg, &generation.to_string()));
            std::mem::forget(old);
        }
        true
    });
}

/// probe: clients that vanish with an undelivered request, server with a small expired-connection buffer
fn churn<S: Service>(a: &[String], config: &Config, out: &mut Out) {
    let n: usize = a[3].parse().unwrap();
    let faf = a.get(4).map(|s| s == "1").unwrap_or(false);
    let mut config = config.clone();
    config.defaults.request_response.server_expired_connection_buffer = 2;
    let cfg = Cfg { ma: 1, ml: 1, rb: 1, mb: 1, mlr: 1, ms: 1, mc: 1, ovq: false, ovr: false, faf, pre: 0 };
    let node = NodeBuilder::new().config(&config).create::<S>().expect("node");
    let fac = make_service::<S>(&node, &cfg, "churn");
    let server = fac.server_builder().backpressure_strategy(BackpressureStrategy::DiscardData).create().expect("server");
    let mut log = vec![];
    for i in 0..n {
        let client = fac.client_builder().backpressure_strategy(BackpressureStrategy::DiscardData).create().expect("client");
        let _ = server.has_requests(); // the server attaches to the new client
        let p = client.send_copy(i as u64).expect("send");
        drop(p);
        drop(client);
        let r = catch_unwind(AssertUnwindSafe(|| match server.receive() {
            Ok(None) => "n".to_string(),
            Ok(Some(a)) => format!("a{}", *a.payload()),
            Err(e) => recv_err(e),
        }));
        match r {
            Ok(s) => log.push(s),
            Err(_) => { log.push("P".into()); break; }
        }
    }
    // now a client whose request IS held by the server (ActiveRequest alive) vanishes
    let held = catch_unwind(AssertUnwindSafe(|| {
        let client = fac.client_builder().backpressure_strategy(BackpressureStrategy::DiscardData).create().expect("client");
        let p = client.send_copy(999).expect("send");
        let a = server.receive().expect("receive").expect("request");
        drop(p);
        drop(client);
        let r = match server.receive() { Ok(None) => "n".to_string(), Ok(Some(_)) => "a".to_string(), Err(e) => recv_err(e) };
        drop(a);
        r
    }));
    let held = match held { Ok(s) => s, Err(_) => { log.push("P".into()); "P".to_string() } };
    out.line(&format!("PROBE churn clients={} faf={} receive={} then_held_request_client_vanishes={}", n, faf as u8, log.join(","), held));
    if log.last().map(|s| s == "P").unwrap_or(false) {
        std::mem::forget(server);
    }
}

fn main() {
    if std::env::var("VERIF_PANIC_VERBOSE").is_err() {
        std::panic::set_hook(Box::new(|_| {}));
    }
    iceoryx2_log::set_log_level(iceoryx2_log::LogLevel::Fatal);
    let a: Vec<String> = std::env::args().collect();
    if a.len() < 4 {
        eprintln!("usage: c11 exh|rnd|hist <variant> <cfg> <setup> ... | churn <variant> <n> [faf]");
        std::process::exit(2);
    }
    // private root and prefix: nothing is shared with other runs, everything is removed at the end
    let pid = std::process::id();
    let root = format!("/dev/shm/verif-c11-{}", pid);
    std::fs::create_dir_all(&root).expect("private root");
    let prefix = format!("c11_{}_", pid);
    let mut config = Config::default();
    config.global.prefix = FileName::new(prefix.as_bytes()).unwrap();
    config.global.set_root_path(&Path::new(root.as_bytes()).unwrap());
    // every port allocates a slot map of (expired-connection buffer + peers) connection records and initialises all of
    // them: with the default buffer of 128 that is the dominant (memory-bandwidth bound) cost of a history.  32 is far
    // more than two peer slots can accumulate here; the model assumes the buffer never overflows.
    config.defaults.request_response.client_expired_connection_buffer = 32;
    config.defaults.request_response.server_expired_connection_buffer = 32;
    let mut out = Out { w: std::io::BufWriter::with_capacity(1 << 20, std::io::stdout()) };
    let rc = catch_unwind(AssertUnwindSafe(|| match (a[1].as_str(), a[2].as_str()) {
        ("churn", "ipc") => churn::<ipc::Service>(&a, &config, &mut out),
        ("churn", "local") => churn::<local::Service>(&a, &config, &mut out),
        (_, "ipc") => run_all::<ipc::Service>(&a, &config, &mut out),
        (_, "local") => run_all::<local::Service>(&a, &config, &mut out),
        (_, v) => panic!("unknown variant {}", v),
    }));
    let _ = out.w.flush();
    let _ = std::fs::remove_dir_all(&root);
    if let Ok(rd) = std::fs::read_dir("/dev/shm") {
        for e in rd.flatten() {
            if e.file_name().to_string_lossy().starts_with(&prefix) {
                let _ = std::fs::remove_file(e.path());
            }
        }
    }
    if rc.is_err() {
        eprintln!("harness panicked");
        std::process::exit(3);
    }
}
