//! iceoryx2-bb-container: RelocatableVec, RelocatableQueue, RelocatableString, RelocatableSlotMap,
//! RelocatableFlatMap.  Observation lines are those of harness/g3/c16 (flavour "reloc") so that
//! /verif/ocaml/c16/driver replays them on the extracted Coq models.
use crate::common::*;
use crate::Subject;
use iceoryx2_bb_container::flatmap::{FlatMapError, RelocatableFlatMap};
use iceoryx2_bb_container::queue::RelocatableQueue;
use iceoryx2_bb_container::slotmap::{RelocatableSlotMap, SlotMapKey};
use iceoryx2_bb_container::string::{RelocatableString, String as IoxString, StringModificationError};
use iceoryx2_bb_container::vector::{RelocatableVec, Vector, VectorModificationError};
use iceoryx2_bb_elementary::CallbackProgression;

fn tn<T>() -> &'static str { core::any::type_name::<T>() }

// ------------------------------------------------------------------------------------------
pub struct VecS;
#[derive(Clone, Copy, Debug, PartialEq)]
pub enum VOp { Push, Pop, Insert(usize), Remove(usize), Clear, Truncate(usize), Resize(usize), Extend(usize), Len, Slice }
type V = RelocatableVec<El>;

fn vres(r: Result<(), VectorModificationError>) -> &'static str {
    match r { Ok(()) => "ok", Err(VectorModificationError::InsertWouldExceedCapacity) => "eCap", Err(VectorModificationError::OutOfBounds) => "eOob" }
}
fn vslice(v: &V) -> String {
    match guarded(|| v.as_slice().iter().map(|e| e.0).collect::<Vec<u64>>()) { Some(l) => format!("O slice = {}", fmt_list(&l)), None => "O slice = P".into() }
}

impl Subject for VecS {
    type Op = VOp;
    type Local = u64;
    const NAME: &'static str = "vec";
    const MODEL: bool = true;
    fn types() -> Vec<&'static str> { vec![tn::<V>()] }
    fn header(cap: usize) -> String { format!("C vec reloc el {}", cap) }
    fn alphabet(cap: usize) -> Vec<VOp> {
        vec![VOp::Push, VOp::Pop, VOp::Insert(0), VOp::Insert(1), VOp::Insert(3), VOp::Remove(0), VOp::Remove(1), VOp::Clear,
             VOp::Truncate(1), VOp::Resize(2), VOp::Resize(cap + 1), VOp::Extend(2)]
    }
    fn random_op(rng: &mut Rng, cap: usize, bias: u64) -> VOp {
        let r = rng.below(100);
        let k = rng.below(cap as u64 + 2) as usize;
        match bias {
            0 => if r < 35 { VOp::Push } else if r < 60 { VOp::Insert(k) } else if r < 70 { VOp::Extend(rng.below(4) as usize) } else if r < 80 { VOp::Remove(k) } else if r < 90 { VOp::Pop } else if r < 95 { VOp::Resize(k) } else { VOp::Len },
            1 => if r < 35 { VOp::Pop } else if r < 65 { VOp::Remove(k) } else if r < 75 { VOp::Truncate(k) } else if r < 85 { VOp::Push } else if r < 92 { VOp::Insert(k) } else if r < 96 { VOp::Clear } else { VOp::Slice },
            _ => if r < 25 { VOp::Insert(k) } else if r < 50 { VOp::Remove(k) } else if r < 60 { VOp::Resize(k) } else if r < 70 { VOp::Truncate(k) } else if r < 80 { VOp::Extend(rng.below(5) as usize) } else if r < 90 { VOp::Push } else { VOp::Pop },
        }
    }
    fn block_len(cap: usize) -> usize { block_len_for::<V>(cap) }
    unsafe fn build(block: *mut u8, len: usize, cap: usize) -> u64 { place::<V>(block, len, cap); 1 }
    unsafe fn apply(next: &mut u64, block: *mut u8, cap: usize, op: &VOp, out: &mut Vec<String>) -> bool {
        let v = &mut *(block as *mut V);
        let mut mutating = true;
        let line = match *op {
            VOp::Push => { let x = *next; *next += 1;
                match guarded(|| v.push(El(x))) { Some(r) => format!("O push {} = {}|{}", x, vres(r), fmt_list(&take_drops())), None => format!("O push {} = P", x) } }
            VOp::Pop => match guarded(|| v.pop().map(forget_val)) { Some(r) => format!("O pop = {}|{}", fmt_opt(r), fmt_list(&take_drops())), None => "O pop = P".into() },
            VOp::Insert(i) => { let x = *next; *next += 1;
                match guarded(|| v.insert(i, El(x))) { Some(r) => format!("O insert {} {} = {}|{}", i, x, vres(r), fmt_list(&take_drops())), None => format!("O insert {} {} = P", i, x) } }
            VOp::Remove(i) => match guarded(|| v.remove(i).map(forget_val)) { Some(r) => format!("O remove {} = {}|{}", i, fmt_opt(r), fmt_list(&take_drops())), None => format!("O remove {} = P", i) },
            VOp::Clear => match guarded(|| v.clear()) { Some(()) => format!("O clear = ok|{}", fmt_list(&take_drops())), None => "O clear = P".into() },
            VOp::Truncate(n) => match guarded(|| v.truncate(n)) { Some(()) => format!("O truncate {} = ok|{}", n, fmt_list(&take_drops())), None => format!("O truncate {} = P", n) },
            VOp::Resize(n) => { let x = *next; *next += 1;
                match guarded(|| v.resize(n, El(x))) { Some(r) => format!("O resize {} {} = {}|{}", n, x, vres(r), fmt_list(&take_drops())), None => format!("O resize {} {} = P", n, x) } }
            VOp::Extend(k) => {
                let src: Vec<El> = (0..k).map(|_| { let x = *next; *next += 1; El(x) }).collect();
                let ids: Vec<u64> = src.iter().map(|e| e.0).collect();
                let r = guarded(|| v.extend_from_slice(&src));
                let d = take_drops();
                for e in src { std::mem::forget(e); }
                let a = if ids.is_empty() { "-".to_string() } else { ids.iter().map(|x| x.to_string()).collect::<Vec<_>>().join(",") };
                match r { Some(r) => format!("O extend {} = {}|{}", a, vres(r), fmt_list(&d)), None => format!("O extend {} = P", a) } }
            VOp::Len => { mutating = false; format!("O len = u{}", v.len()) }
            VOp::Slice => { mutating = false; vslice(v) }
        };
        let panicked = line.ends_with("= P");
        out.push(line);
        if panicked { return false; }
        if mutating {
            let s = vslice(v);
            let p = s.ends_with("= P");
            out.push(s);
            if p { return false; }
        }
        if !(v.capacity() == cap && v.is_empty() == (v.len() == 0) && v.is_full() == (v.len() == cap) && v.iter().count() == v.len()) { out.push("O sidecheck = b0".into()); }
        true
    }
    unsafe fn finish(_l: u64, block: *mut u8, _cap: usize, out: &mut Vec<String>) {
        take_drops();
        match guarded(|| core::ptr::drop_in_place(block as *mut V)) { Some(()) => out.push(format!("O drop = ok|{}", fmt_list(&take_drops()))), None => out.push("O drop = P".into()) }
    }
}

// ------------------------------------------------------------------------------------------
#[derive(Clone, Copy, Debug, PartialEq)]
pub enum QOp { Push, PushO, Pop, Peek, Get(usize), Clear, Len }

fn qrandom(rng: &mut Rng, cap: usize, bias: u64, el: bool) -> QOp {
    let r = rng.below(100);
    let op = match bias {
        0 => if r < 55 { QOp::Push } else if r < 70 { QOp::PushO } else if r < 85 { QOp::Pop } else { QOp::Peek },
        1 => if r < 60 { QOp::Pop } else if r < 75 { QOp::Push } else if r < 85 { QOp::PushO } else { QOp::Len },
        _ => if r < 50 { QOp::PushO } else if r < 70 { QOp::Pop } else if r < 85 { QOp::Push } else { QOp::Peek },
    };
    if r >= 93 { if el { if r >= 98 { QOp::Clear } else { QOp::Len } } else { QOp::Get(rng.below(cap as u64 + 2) as usize) } } else { op }
}

pub struct QueueEl;
type QE = RelocatableQueue<El>;
impl Subject for QueueEl {
    type Op = QOp;
    type Local = u64;
    const NAME: &'static str = "queue";
    const MODEL: bool = true;
    fn types() -> Vec<&'static str> { vec![tn::<QE>()] }
    fn header(cap: usize) -> String { format!("C queue reloc el {}", cap) }
    fn alphabet(_cap: usize) -> Vec<QOp> { vec![QOp::Push, QOp::PushO, QOp::Pop, QOp::Peek, QOp::Len, QOp::Clear] }
    fn random_op(rng: &mut Rng, cap: usize, bias: u64) -> QOp { qrandom(rng, cap, bias, true) }
    fn block_len(cap: usize) -> usize { block_len_for::<QE>(cap) }
    unsafe fn build(block: *mut u8, len: usize, cap: usize) -> u64 { place::<QE>(block, len, cap); 1 }
    unsafe fn apply(next: &mut u64, block: *mut u8, cap: usize, op: &QOp, out: &mut Vec<String>) -> bool {
        let q = &mut *(block as *mut QE);
        let line = match *op {
            QOp::Push => { let v = *next; *next += 1;
                match guarded(|| q.push(El(v))) { Some(b) => { let d = take_drops(); if !b && d != vec![v] { format!("O push {} = ?rejected-not-dropped", v) } else { format!("O push {} = {}", v, fmt_bool(b)) } } None => format!("O push {} = P", v) } }
            QOp::PushO => { let v = *next; *next += 1;
                match guarded(|| q.push_with_overflow(El(v)).map(forget_val)) { Some(r) => format!("O pusho {} = {}", v, fmt_opt(r)), None => format!("O pusho {} = P", v) } }
            QOp::Pop => match guarded(|| q.pop().map(forget_val)) { Some(r) => format!("O pop = {}", fmt_opt(r)), None => "O pop = P".into() },
            QOp::Peek => match guarded(|| q.peek().map(|e| e.0)) { Some(r) => format!("O peek = {}", fmt_opt(r)), None => "O peek = P".into() },
            QOp::Len => format!("O len = u{}", q.len()),
            QOp::Clear => match guarded(|| q.clear()) { Some(()) => format!("O clear = {}", fmt_list(&take_drops())), None => "O clear = P".into() },
            QOp::Get(_) => unreachable!(),
        };
        let stray = take_drops();
        let panicked = line.ends_with("= P");
        out.push(line);
        if !stray.is_empty() { out.push(format!("O stray = {}", fmt_list(&stray))); }
        if panicked { return false; }
        if !(q.capacity() == cap && q.is_empty() == (q.len() == 0) && q.is_full() == (q.len() == cap)) { out.push("O sidecheck = b0".into()); }
        true
    }
    unsafe fn finish(_l: u64, block: *mut u8, _cap: usize, out: &mut Vec<String>) {
        take_drops();
        match guarded(|| core::ptr::drop_in_place(block as *mut QE)) { Some(()) => out.push(format!("O drop = {}", fmt_list(&take_drops()))), None => out.push("O drop = P".into()) }
    }
}

pub struct QueueU64;
type QU = RelocatableQueue<u64>;
impl Subject for QueueU64 {
    type Op = QOp;
    type Local = u64;
    const NAME: &'static str = "queueu";
    const MODEL: bool = true;
    fn types() -> Vec<&'static str> { vec![tn::<QU>()] }
    fn header(cap: usize) -> String { format!("C queue reloc u64 {}", cap) }
    fn alphabet(cap: usize) -> Vec<QOp> {
        let mut v = vec![QOp::Push, QOp::PushO, QOp::Pop, QOp::Peek, QOp::Len, QOp::Get(0), QOp::Get(1)];
        if cap >= 2 { v.push(QOp::Get(cap)); }
        v
    }
    fn random_op(rng: &mut Rng, cap: usize, bias: u64) -> QOp { qrandom(rng, cap, bias, false) }
    fn block_len(cap: usize) -> usize { block_len_for::<QU>(cap) }
    unsafe fn build(block: *mut u8, len: usize, cap: usize) -> u64 { place::<QU>(block, len, cap); 1 }
    unsafe fn apply(next: &mut u64, block: *mut u8, cap: usize, op: &QOp, out: &mut Vec<String>) -> bool {
        let q = &mut *(block as *mut QU);
        let line = match *op {
            QOp::Push => { let v = *next; *next += 1; match guarded(|| q.push(v)) { Some(b) => format!("O push {} = {}", v, fmt_bool(b)), None => format!("O push {} = P", v) } }
            QOp::PushO => { let v = *next; *next += 1; match guarded(|| q.push_with_overflow(v)) { Some(r) => format!("O pusho {} = {}", v, fmt_opt(r)), None => format!("O pusho {} = P", v) } }
            QOp::Pop => match guarded(|| q.pop()) { Some(r) => format!("O pop = {}", fmt_opt(r)), None => "O pop = P".into() },
            QOp::Peek => match guarded(|| q.peek().copied()) { Some(r) => format!("O peek = {}", fmt_opt(r)), None => "O peek = P".into() },
            QOp::Len => format!("O len = u{}", q.len()),
            QOp::Get(i) => match guarded(|| q.get(i)) { Some(r) => format!("O get {} = u{}", i, r), None => format!("O get {} = P", i) },
            QOp::Clear => unreachable!(),
        };
        let panicked = line.ends_with("= P");
        out.push(line);
        if panicked { return false; }
        if !(q.capacity() == cap && q.is_empty() == (q.len() == 0) && q.is_full() == (q.len() == cap)) { out.push("O sidecheck = b0".into()); }
        true
    }
    unsafe fn finish(_l: u64, block: *mut u8, _cap: usize, _out: &mut Vec<String>) {
        let _ = guarded(|| core::ptr::drop_in_place(block as *mut QU));
    }
}

// ------------------------------------------------------------------------------------------
pub struct StrS;
#[derive(Clone, Debug, PartialEq)]
pub enum SOp {
    Push(u8), PushBytes(Vec<u8>), Insert(usize, u8), InsertBytes(usize, Vec<u8>), Pop, Remove(usize), RemoveRange(usize, usize),
    Retain(Vec<u8>), Find(Vec<u8>), Rfind(Vec<u8>), StripPrefix(Vec<u8>), StripSuffix(Vec<u8>), Truncate(usize), Clear, Bytes, Len,
}
fn sres(r: Result<(), StringModificationError>) -> &'static str {
    match r { Ok(()) => "ok", Err(StringModificationError::InsertWouldExceedCapacity) => "eCap", Err(StringModificationError::InvalidCharacter) => "eChr" }
}
fn bl(b: &[u8]) -> String { if b.is_empty() { "-".into() } else { b.iter().map(|x| x.to_string()).collect::<Vec<_>>().join(",") } }
fn optu(o: Option<usize>) -> String { fmt_opt(o.map(|v| v as u64)) }
fn sbytes(s: &RelocatableString) -> String {
    match guarded(|| s.as_bytes().iter().map(|b| *b as u64).collect::<Vec<u64>>()) { Some(l) => format!("O bytes = {}", fmt_list(&l)), None => "O bytes = P".into() }
}
fn rnd_bytes(rng: &mut Rng, maxn: u64, ascii_bias: bool) -> Vec<u8> {
    let n = rng.below(maxn + 1);
    (0..n).map(|_| if ascii_bias && rng.below(10) < 8 { 97 + rng.below(3) as u8 } else { rng.below(256) as u8 }).collect()
}

impl Subject for StrS {
    type Op = SOp;
    type Local = ();
    const NAME: &'static str = "str";
    const MODEL: bool = true;
    fn types() -> Vec<&'static str> { vec![tn::<RelocatableString>()] }
    fn header(cap: usize) -> String { format!("C str reloc u8 {}", cap) }
    fn alphabet(_cap: usize) -> Vec<SOp> {
        vec![SOp::Push(97), SOp::Push(98), SOp::Push(0), SOp::PushBytes(vec![97, 98]), SOp::Insert(0, 98), SOp::InsertBytes(1, vec![98, 97]),
             SOp::Pop, SOp::Remove(0), SOp::Remove(1), SOp::RemoveRange(0, 2), SOp::Retain(vec![97]),
             SOp::Find(vec![98]), SOp::Rfind(vec![97]), SOp::StripPrefix(vec![97]), SOp::StripSuffix(vec![98]), SOp::Truncate(1), SOp::Clear]
    }
    fn random_op(rng: &mut Rng, cap: usize, bias: u64) -> SOp {
        let r = rng.below(100);
        let k = rng.below(cap as u64 + 2) as usize;
        let k2 = rng.below(4) as usize;
        let byte = if rng.below(10) < 7 { 97 + rng.below(3) as u8 } else { rng.below(256) as u8 };
        match bias {
            0 => if r < 35 { SOp::Push(byte) } else if r < 50 { SOp::PushBytes(rnd_bytes(rng, 3, true)) } else if r < 65 { SOp::Insert(k, byte) }
                 else if r < 75 { SOp::InsertBytes(k, rnd_bytes(rng, 3, true)) } else if r < 80 { SOp::Pop } else if r < 85 { SOp::Find(rnd_bytes(rng, 2, true)) }
                 else if r < 90 { SOp::Rfind(rnd_bytes(rng, 2, true)) } else if r < 95 { SOp::Remove(k) } else { SOp::Len },
            1 => if r < 25 { SOp::Pop } else if r < 45 { SOp::Remove(k) } else if r < 60 { SOp::RemoveRange(k, k2) } else if r < 68 { SOp::Truncate(k) }
                 else if r < 76 { SOp::StripPrefix(rnd_bytes(rng, 2, true)) } else if r < 84 { SOp::StripSuffix(rnd_bytes(rng, 2, true)) }
                 else if r < 90 { SOp::Retain(rnd_bytes(rng, 2, true)) } else if r < 93 { SOp::Clear } else { SOp::Push(byte) },
            _ => if r < 20 { SOp::Push(byte) } else if r < 35 { SOp::Insert(k, byte) } else if r < 45 { SOp::Find(rnd_bytes(rng, 3, true)) }
                 else if r < 55 { SOp::Rfind(rnd_bytes(rng, 3, true)) } else if r < 65 { SOp::RemoveRange(k, k2) } else if r < 72 { SOp::StripPrefix(rnd_bytes(rng, 2, true)) }
                 else if r < 79 { SOp::StripSuffix(rnd_bytes(rng, 2, true)) } else if r < 86 { SOp::Retain(rnd_bytes(rng, 2, false)) }
                 else if r < 92 { SOp::PushBytes(rnd_bytes(rng, 4, false)) } else if r < 96 { SOp::Bytes } else { SOp::Truncate(k) },
        }
    }
    fn block_len(cap: usize) -> usize { block_len_for::<RelocatableString>(cap) }
    unsafe fn build(block: *mut u8, len: usize, cap: usize) { place::<RelocatableString>(block, len, cap); }
    unsafe fn apply(_l: &mut (), block: *mut u8, cap: usize, op: &SOp, out: &mut Vec<String>) -> bool {
        let s = &mut *(block as *mut RelocatableString);
        let mut mutating = true;
        let line = match op {
            SOp::Push(b) => match guarded(|| s.push(*b)) { Some(r) => format!("O push {} = {}", b, sres(r)), None => format!("O push {} = P", b) },
            SOp::PushBytes(l) => match guarded(|| s.push_bytes(l)) { Some(r) => format!("O pushb {} = {}", bl(l), sres(r)), None => format!("O pushb {} = P", bl(l)) },
            SOp::Insert(i, b) => match guarded(|| s.insert(*i, *b)) { Some(r) => format!("O insert {} {} = {}", i, b, sres(r)), None => format!("O insert {} {} = P", i, b) },
            SOp::InsertBytes(i, l) => match guarded(|| s.insert_bytes(*i, l)) { Some(r) => format!("O insertb {} {} = {}", i, bl(l), sres(r)), None => format!("O insertb {} {} = P", i, bl(l)) },
            SOp::Pop => match guarded(|| s.pop()) { Some(r) => format!("O pop = {}", fmt_opt(r.map(|b| b as u64))), None => "O pop = P".into() },
            SOp::Remove(i) => match guarded(|| s.remove(*i)) { Some(r) => format!("O remove {} = {}", i, fmt_opt(r.map(|b| b as u64))), None => format!("O remove {} = P", i) },
            SOp::RemoveRange(i, n) => match guarded(|| s.remove_range(*i, *n)) { Some(r) => format!("O remover {} {} = {}", i, n, fmt_bool(r)), None => format!("O remover {} {} = P", i, n) },
            SOp::Retain(l) => match guarded(|| s.retain(|c| l.contains(&c))) { Some(()) => format!("O retain {} = ok", bl(l)), None => format!("O retain {} = P", bl(l)) },
            SOp::Find(l) => { mutating = false; match guarded(|| s.find(l)) { Some(r) => format!("O find {} = {}", bl(l), optu(r)), None => format!("O find {} = P", bl(l)) } }
            SOp::Rfind(l) => { mutating = false; match guarded(|| s.rfind(l)) { Some(r) => format!("O rfind {} = {}", bl(l), optu(r)), None => format!("O rfind {} = P", bl(l)) } }
            SOp::StripPrefix(l) => match guarded(|| s.strip_prefix(l)) { Some(r) => format!("O stripp {} = {}", bl(l), fmt_bool(r)), None => format!("O stripp {} = P", bl(l)) },
            SOp::StripSuffix(l) => match guarded(|| s.strip_suffix(l)) { Some(r) => format!("O strips {} = {}", bl(l), fmt_bool(r)), None => format!("O strips {} = P", bl(l)) },
            SOp::Truncate(n) => match guarded(|| s.truncate(*n)) { Some(()) => format!("O truncate {} = ok", n), None => format!("O truncate {} = P", n) },
            SOp::Clear => match guarded(|| s.clear()) { Some(()) => "O clear = ok".into(), None => "O clear = P".into() },
            SOp::Bytes => { mutating = false; sbytes(s) }
            SOp::Len => { mutating = false; format!("O len = u{}", s.len()) }
        };
        let panicked = line.ends_with("= P");
        out.push(line);
        if panicked { return false; }
        if mutating {
            let l = sbytes(s);
            let p = l.ends_with("= P");
            out.push(l);
            if p { return false; }
        }
        if !(s.capacity() == cap && s.is_empty() == (s.len() == 0) && s.is_full() == (s.len() == cap) && s.as_bytes().len() == s.len()) { out.push("O sidecheck = b0".into()); }
        true
    }
    unsafe fn finish(_l: (), _block: *mut u8, _cap: usize, _out: &mut Vec<String>) {}
}

// ------------------------------------------------------------------------------------------
pub struct SlotMapS;
#[derive(Clone, Copy, Debug, PartialEq)]
pub enum MOp { Insert, InsertAt(usize), Remove(usize), Get(usize), Contains(usize), NextFree, Iter, Len }
type M = RelocatableSlotMap<El>;
unsafe fn miter(m: &M) -> String {
    match guarded(|| { let mut l = Vec::new(); for (k, v) in m.iter() { l.push(k.value() as u64); l.push(v.0); } l }) {
        Some(l) => format!("O iter = {}", fmt_list(&l)), None => "O iter = P".into() }
}
impl Subject for SlotMapS {
    type Op = MOp;
    type Local = u64;
    const NAME: &'static str = "slotmap";
    const MODEL: bool = true;
    fn types() -> Vec<&'static str> { vec![tn::<M>()] }
    fn header(cap: usize) -> String { format!("C slotmap reloc el {}", cap) }
    // keys stay in range for get/contains (out of range panics: C16's candidate slotmap:get-contains-oob-panic)
    fn alphabet(cap: usize) -> Vec<MOp> {
        vec![MOp::Insert, MOp::InsertAt(0), MOp::InsertAt(1 % cap.max(1)), MOp::InsertAt(cap), MOp::Remove(0), MOp::Remove(cap - 1), MOp::Remove(cap),
             MOp::Get(0), MOp::Get(cap - 1), MOp::Contains(cap - 1), MOp::NextFree]
    }
    fn random_op(rng: &mut Rng, cap: usize, bias: u64) -> MOp {
        let r = rng.below(1000);
        let k = rng.below(cap as u64) as usize;
        if r < 20 { MOp::InsertAt(cap + rng.below(2) as usize) } else if r < 40 { MOp::Remove(cap + rng.below(2) as usize) } else {
            let r = rng.below(100);
            match bias {
                0 => if r < 40 { MOp::Insert } else if r < 60 { MOp::InsertAt(k) } else if r < 75 { MOp::Remove(k) } else if r < 85 { MOp::Get(k) } else if r < 92 { MOp::NextFree } else { MOp::Contains(k) },
                1 => if r < 50 { MOp::Remove(k) } else if r < 65 { MOp::Insert } else if r < 75 { MOp::InsertAt(k) } else if r < 85 { MOp::Contains(k) } else if r < 95 { MOp::Get(k) } else { MOp::Iter },
                _ => if r < 30 { MOp::InsertAt(k) } else if r < 55 { MOp::Remove(k) } else if r < 80 { MOp::Insert } else if r < 90 { MOp::NextFree } else { MOp::Len },
            }
        }
    }
    fn block_len(cap: usize) -> usize { block_len_for::<M>(cap) + 256 }
    unsafe fn build(block: *mut u8, len: usize, cap: usize) -> u64 { place::<M>(block, len, cap); 1 }
    unsafe fn apply(next: &mut u64, block: *mut u8, cap: usize, op: &MOp, out: &mut Vec<String>) -> bool {
        let m = &mut *(block as *mut M);
        let mut mutating = true;
        let line = match *op {
            MOp::Insert => { let x = *next; *next += 1;
                match guarded(|| m.insert(El(x)).map(|k| k.value() as u64)) { Some(r) => format!("O insert {} = {}|{}", x, fmt_opt(r), fmt_list(&take_drops())), None => format!("O insert {} = P", x) } }
            MOp::InsertAt(k) => { let x = *next; *next += 1;
                match guarded(|| m.insert_at(SlotMapKey::new(k), El(x))) { Some(r) => format!("O insertat {} {} = {}|{}", k, x, fmt_bool(r), fmt_list(&take_drops())), None => format!("O insertat {} {} = P", k, x) } }
            MOp::Remove(k) => match guarded(|| m.remove(SlotMapKey::new(k)).map(forget_val)) { Some(r) => format!("O remove {} = {}|{}", k, fmt_opt(r), fmt_list(&take_drops())), None => format!("O remove {} = P", k) },
            MOp::Get(k) => { mutating = false;
                match guarded(|| m.get(SlotMapKey::new(k)).map(|e| e.0)) {
                    Some(r) => { let gm = guarded(|| m.get_mut(SlotMapKey::new(k)).is_some()); if gm != Some(r.is_some()) { format!("O get {} = ?get_mut-differs", k) } else { format!("O get {} = {}", k, fmt_opt(r)) } }
                    None => format!("O get {} = P", k) } }
            MOp::Contains(k) => { mutating = false; match guarded(|| m.contains(SlotMapKey::new(k))) { Some(r) => format!("O contains {} = {}", k, fmt_bool(r)), None => format!("O contains {} = P", k) } }
            MOp::NextFree => { mutating = false; match guarded(|| m.next_free_key().map(|k| k.value() as u64)) { Some(r) => format!("O nextfree = {}", fmt_opt(r)), None => "O nextfree = P".into() } }
            MOp::Iter => { mutating = false; miter(m) }
            MOp::Len => { mutating = false; format!("O len = u{}", m.len()) }
        };
        let panicked = line.ends_with("= P");
        out.push(line);
        if panicked { return false; }
        if mutating {
            let l = miter(m);
            let p = l.ends_with("= P");
            out.push(l);
            if p { return false; }
            out.push(format!("O len = u{}", m.len()));
        }
        if !(m.capacity() == cap && m.is_empty() == (m.len() == 0) && m.is_full() == (m.len() == cap)) { out.push("O sidecheck = b0".into()); }
        true
    }
    unsafe fn finish(_l: u64, block: *mut u8, _cap: usize, out: &mut Vec<String>) {
        take_drops();
        match guarded(|| core::ptr::drop_in_place(block as *mut M)) { Some(()) => out.push(format!("O drop = ok|{}", fmt_list(&take_drops()))), None => out.push("O drop = P".into()) }
    }
}

// ------------------------------------------------------------------------------------------
pub struct FlatMapS;
#[derive(Clone, Copy, Debug, PartialEq)]
pub enum FOp { Insert(u64), Get(u64), GetRef(u64), Remove(u64), Contains(u64), Keys, Len }
type F = RelocatableFlatMap<KEl, El>;
fn fres(r: Result<(), FlatMapError>) -> &'static str {
    match r { Ok(()) => "ok", Err(FlatMapError::KeyAlreadyExists) => "eDup", Err(FlatMapError::IsFull) => "eFull" }
}
fn probe<R>(k: u64, f: impl FnOnce(&KEl) -> R) -> R { let key = KEl(k); let r = f(&key); std::mem::forget(key); r }
unsafe fn fkeys(m: &F) -> String {
    match guarded(|| { let mut l = Vec::new(); m.list_keys(|k| { l.push(k.0); CallbackProgression::Continue }); l }) { Some(l) => format!("O keys = {}", fmt_list(&l)), None => "O keys = P".into() }
}
impl Subject for FlatMapS {
    type Op = FOp;
    type Local = u64;
    const NAME: &'static str = "flatmap";
    const MODEL: bool = true;
    fn types() -> Vec<&'static str> { vec![tn::<F>()] }
    fn header(cap: usize) -> String { format!("C flatmap reloc el {}", cap) }
    fn alphabet(_cap: usize) -> Vec<FOp> {
        vec![FOp::Insert(0), FOp::Insert(1), FOp::Insert(2), FOp::Insert(5), FOp::Remove(0), FOp::Remove(1), FOp::Remove(2), FOp::Get(1), FOp::GetRef(2), FOp::Contains(0)]
    }
    fn random_op(rng: &mut Rng, cap: usize, bias: u64) -> FOp {
        let r = rng.below(100);
        let k = rng.below(cap as u64 + 3);
        match bias {
            0 => if r < 55 { FOp::Insert(k) } else if r < 70 { FOp::Remove(k) } else if r < 80 { FOp::Get(k) } else if r < 90 { FOp::Contains(k) } else { FOp::GetRef(k) },
            1 => if r < 55 { FOp::Remove(k) } else if r < 75 { FOp::Insert(k) } else if r < 85 { FOp::GetRef(k) } else if r < 95 { FOp::Contains(k) } else { FOp::Keys },
            _ => if r < 35 { FOp::Insert(k) } else if r < 70 { FOp::Remove(k) } else if r < 85 { FOp::Get(k) } else if r < 95 { FOp::Len } else { FOp::Keys },
        }
    }
    fn block_len(cap: usize) -> usize { block_len_for::<F>(cap) + 256 }
    unsafe fn build(block: *mut u8, len: usize, cap: usize) -> u64 { place::<F>(block, len, cap); 1 }
    unsafe fn apply(next: &mut u64, block: *mut u8, cap: usize, op: &FOp, out: &mut Vec<String>) -> bool {
        let m = &mut *(block as *mut F);
        let mut mutating = true;
        let line = match *op {
            FOp::Insert(k) => { let x = *next; *next += 1;
                match guarded(|| m.insert(KEl(k), El(x))) { Some(r) => format!("O insert {} {} = {}|{}", k, x, fres(r), fmt_list(&take_drops())), None => format!("O insert {} {} = P", k, x) } }
            FOp::Get(k) => { mutating = false; match guarded(|| probe(k, |key| m.get(key)).map(forget_val)) { Some(r) => format!("O get {} = {}|{}", k, fmt_opt(r), fmt_list(&take_drops())), None => format!("O get {} = P", k) } }
            FOp::GetRef(k) => { mutating = false;
                match guarded(|| probe(k, |key| m.get_ref(key).map(|e| e.0))) {
                    Some(r) => { let gm = guarded(|| probe(k, |key| m.get_mut_ref(key).is_some())); if gm != Some(r.is_some()) { format!("O getref {} = ?get_mut_ref-differs", k) } else { format!("O getref {} = {}|{}", k, fmt_opt(r), fmt_list(&take_drops())) } }
                    None => format!("O getref {} = P", k) } }
            FOp::Remove(k) => match guarded(|| probe(k, |key| m.remove(key)).map(forget_val)) { Some(r) => format!("O remove {} = {}|{}", k, fmt_opt(r), fmt_list(&take_drops())), None => format!("O remove {} = P", k) },
            FOp::Contains(k) => { mutating = false; match guarded(|| probe(k, |key| m.contains(key))) { Some(r) => format!("O contains {} = {}", k, fmt_bool(r)), None => format!("O contains {} = P", k) } }
            FOp::Keys => { mutating = false; fkeys(m) }
            FOp::Len => { mutating = false; format!("O len = u{}", m.len()) }
        };
        let panicked = line.ends_with("= P");
        out.push(line);
        if panicked { return false; }
        if mutating {
            let l = fkeys(m);
            let p = l.ends_with("= P");
            out.push(l);
            if p { return false; }
            out.push(format!("O len = u{}", m.len()));
        }
        if !(m.is_empty() == (m.len() == 0) && m.is_full() == (m.len() == cap)) { out.push("O sidecheck = b0".into()); }
        true
    }
    unsafe fn finish(_l: u64, block: *mut u8, _cap: usize, out: &mut Vec<String>) {
        take_drops();
        match guarded(|| core::ptr::drop_in_place(block as *mut F)) { Some(()) => out.push(format!("O drop = ok|{}", fmt_list(&take_drops()))), None => out.push("O drop = P".into()) }
    }
}
