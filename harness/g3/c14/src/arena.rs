//! The relocation arena: K regions of anonymous page-aligned memory, exactly one of them
//! accessible at any time; `relocate` memcpy's the block into the next region at a different
//! offset, poisons the old block and makes the old region inaccessible.  Plus the SIGSEGV/SIGBUS
//! handler that reports the history being executed (async-signal-safe: write(2) and _exit only).
use core::sync::atomic::{AtomicI32, AtomicU64, AtomicUsize, Ordering};

/// number of regions in the reserve; a region is used once per cycle
const K: usize = 1024;
pub const POISON: u8 = 0xAA;

pub struct Arena {
    base: *mut u8,
    rlen: usize,
    cur: usize,
    off: usize,
    pub blen: usize,
    align: usize,
    step: usize,
    pub nreloc: u64,
    /// regions that are PROT_NONE now
    closed: Vec<bool>,
}

fn page_round(n: usize) -> usize { (n + 4095) & !4095 }

impl Arena {
    /// One reservation of K regions.  Invariant: the regions already used in the current cycle
    /// (every place the block has been before) are PROT_NONE; the current region and the not yet
    /// used ones are accessible and hold only poison.  So every relocation costs ONE mprotect
    /// (this VM needs ~0.2 ms per call).  When the reserve is used up everything is made
    /// accessible again with one call; the regions still hold the poison written when they were left.
    pub fn new(max_blen: usize, align: usize) -> Arena {
        assert!(align.is_power_of_two() && align <= 4096);
        let rlen = page_round(max_blen + 8 * align + 3 * 64 + 4096);
        let p = unsafe { libc::mmap(core::ptr::null_mut(), rlen * K, libc::PROT_READ | libc::PROT_WRITE, libc::MAP_PRIVATE | libc::MAP_ANONYMOUS | libc::MAP_NORESERVE, -1, 0) };
        assert!(p != libc::MAP_FAILED, "mmap failed");
        // no transparent huge pages: changing the protection of a few small pages inside a huge page splits it every time
        unsafe { libc::madvise(p, rlen * K, libc::MADV_NOHUGEPAGE); }
        Arena { base: p as *mut u8, rlen, cur: 0, off: 0, blen: max_blen, align, step: 0, nreloc: 0, closed: vec![false; K] }
    }
    pub fn set_blen(&mut self, blen: usize) { assert!(blen + 8 * self.align + 3 * 64 <= self.rlen); self.blen = blen; }
    fn region(&self, i: usize) -> *mut u8 { unsafe { self.base.add(i * self.rlen) } }
    pub fn block(&self) -> *mut u8 { unsafe { self.region(self.cur).add(self.off) } }
    /// a fresh (poisoned) block for a new history, in the region where the last one ended
    pub fn start(&mut self) -> *mut u8 {
        unsafe { core::ptr::write_bytes(self.region(self.cur), POISON, self.rlen); }
        self.off = 0; self.step = 0;
        self.block()
    }
    /// byte copy to the next region at an offset that differs modulo 64 (for alignment classes
    /// up to 32) and always in absolute address; old block poisoned, old region PROT_NONE
    pub fn relocate(&mut self) -> *mut u8 {
        let old = self.block();
        let ni = (self.cur + 1) % K;
        if self.closed[ni] {
            // the reserve is used up: everything accessible again with one call
            let rc = unsafe { libc::mprotect(self.base as *mut _, self.rlen * K, libc::PROT_READ | libc::PROT_WRITE) };
            assert!(rc == 0, "mprotect(recycle) failed: errno {}", std::io::Error::last_os_error());
            for c in self.closed.iter_mut() { *c = false; }
        }
        self.step += 1;
        let period = if self.align <= 32 { 64 / self.align } else { 4 };
        let noff = self.align * (self.step % period.max(2)) + (if self.align <= 64 { 64 * ((self.step / 4) % 3) } else { 0 });
        unsafe {
            let nr = self.region(ni);
            core::ptr::write_bytes(nr, POISON, self.rlen);
            let new = nr.add(noff);
            core::ptr::copy_nonoverlapping(old, new, self.blen);
            core::ptr::write_bytes(old, POISON, self.blen);
            let rc = libc::mprotect(self.region(self.cur) as *mut _, self.rlen, libc::PROT_NONE);
            assert!(rc == 0, "mprotect(NONE) failed: {}", std::io::Error::last_os_error());
        }
        self.closed[self.cur] = true;
        self.cur = ni; self.off = noff; self.nreloc += 1;
        NRELOC.fetch_add(1, Ordering::Relaxed);
        self.block()
    }
}

impl Drop for Arena {
    fn drop(&mut self) { unsafe { libc::munmap(self.base as *mut _, self.rlen * K); } }
}

// ---- fault reporting ------------------------------------------------------------------
static REPORT_FD: AtomicI32 = AtomicI32::new(2);
static CUR_OP: AtomicU64 = AtomicU64::new(0);
static NRELOC: AtomicU64 = AtomicU64::new(0);
static CASE_LEN: AtomicUsize = AtomicUsize::new(0);
static mut CASE_BUF: [u8; 16384] = [0; 16384];

pub fn set_case(desc: &str) {
    let b = desc.as_bytes();
    let n = b.len().min(16384);
    CASE_LEN.store(0, Ordering::SeqCst);
    unsafe { core::ptr::copy_nonoverlapping(b.as_ptr(), core::ptr::addr_of_mut!(CASE_BUF) as *mut u8, n); }
    CASE_LEN.store(n, Ordering::SeqCst);
    NRELOC.store(0, Ordering::Relaxed);
}
pub fn set_op(k: u64) { CUR_OP.store(k, Ordering::Relaxed); }

fn put(fd: i32, b: &[u8]) { unsafe { libc::write(fd, b.as_ptr() as *const _, b.len()); } }
fn put_num(fd: i32, mut v: u64, hex: bool) {
    let mut buf = [0u8; 24];
    let mut i = buf.len();
    let base = if hex { 16 } else { 10 };
    if v == 0 { i -= 1; buf[i] = b'0'; }
    while v > 0 { i -= 1; let d = (v % base) as u8; buf[i] = if d < 10 { b'0' + d } else { b'a' + d - 10 }; v /= base; }
    put(fd, &buf[i..]);
}

extern "C" fn on_fault(sig: i32, info: *mut libc::siginfo_t, _ctx: *mut libc::c_void) {
    let fd = REPORT_FD.load(Ordering::Relaxed);
    put(fd, b"FAULT ");
    let n = CASE_LEN.load(Ordering::SeqCst);
    unsafe { put(fd, core::slice::from_raw_parts(core::ptr::addr_of!(CASE_BUF) as *const u8, n)); }
    put(fd, b" signal="); put_num(fd, sig as u64, false);
    put(fd, b" at_op="); put_num(fd, CUR_OP.load(Ordering::Relaxed), false);
    put(fd, b" relocations_so_far="); put_num(fd, NRELOC.load(Ordering::Relaxed), false);
    put(fd, b" addr=0x"); put_num(fd, unsafe { (*info).si_addr() } as u64, true);
    put(fd, b"\n");
    unsafe { libc::_exit(70) };
}

pub fn install_fault_handler(report_fd: i32) {
    REPORT_FD.store(report_fd, Ordering::Relaxed);
    unsafe {
        let mut sa: libc::sigaction = core::mem::zeroed();
        sa.sa_sigaction = on_fault as *const () as usize;
        sa.sa_flags = libc::SA_SIGINFO | libc::SA_NODEFER;
        libc::sigemptyset(&mut sa.sa_mask);
        libc::sigaction(libc::SIGSEGV, &sa, core::ptr::null_mut());
        libc::sigaction(libc::SIGBUS, &sa, core::ptr::null_mut());
    }
}
