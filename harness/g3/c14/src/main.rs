//! G3 metamorphic relocation harness for C14 (shared-memory data structures are position
//! independent).
//!
//! Every relocatable structure is built -- header AND payload -- inside one harness-owned block
//! of page-aligned anonymous memory.  A history is executed twice: once without moving the
//! block (baseline) and once with the block memcpy'd to a fresh region at a different address
//! (different offset modulo 64, same alignment class) at the chosen prefix points; the old
//! region is poisoned (0xAA) and mprotect(PROT_NONE)ed.  The two observation streams must be
//! equal; for the structures that have a Coq model the relocated stream is also printed on
//! stdout in the line format of /verif/ocaml/c16/driver (the extracted model replays it).
//! A stray absolute address faults (SIGSEGV handler reports the history, the parent process
//! continues with the next case) or diverges.
//!
//! usage: c14 exh <subject> <maxlen> <shard> <nshards> <seed> <ncases> <report-file>
//!        c14 rnd <subject> <maxops> <shard> <nshards> <seed> <ncases> <report-file>
//!        c14 one <subject> <case-id> [plan]      (replay; case-id as printed in the report; plan = default|every|none|<bitmask 0/1 per prefix point>)
//!        c14 types                                                       (type names relocated)
extern crate iceoryx2_bb_loggers;

mod arena;
mod calsubj;
mod common;
mod containers;
mod lockfree;
mod selftest;

use arena::Arena;
use common::*;

pub trait Subject {
    type Op: Clone + core::fmt::Debug;
    /// process-local state of the harness (ids, handles): never inside the block
    type Local;
    const NAME: &'static str;
    /// lines are understood by /verif/ocaml/c16/driver
    const MODEL: bool;
    /// largest alignment of anything inside the block (the block keeps this alignment class)
    const ALIGN: usize = 16;
    fn types() -> Vec<&'static str>;
    fn header(cap: usize) -> String;
    fn caps_exh() -> Vec<usize> { vec![1, 2, 3] }
    fn caps_rnd() -> Vec<usize> { vec![1, 2, 3, 4, 5, 7, 16, 33] }
    fn alphabet(cap: usize) -> Vec<Self::Op>;
    fn random_op(rng: &mut Rng, cap: usize, bias: u64) -> Self::Op;
    fn block_len(cap: usize) -> usize;
    /// new_uninit + init inside the block
    unsafe fn build(block: *mut u8, len: usize, cap: usize) -> Self::Local;
    /// one API call on the structure that lives at `block` NOW; false = the case ended (panic)
    unsafe fn apply(l: &mut Self::Local, block: *mut u8, cap: usize, op: &Self::Op, out: &mut Vec<String>) -> bool;
    /// container drop
    unsafe fn finish(l: Self::Local, block: *mut u8, cap: usize, out: &mut Vec<String>);
}

#[derive(Clone, Debug, PartialEq)]
pub enum Plan { None, Every, Mask(Vec<bool>) }
impl Plan {
    fn at(&self, point: usize) -> bool {
        match self { Plan::None => false, Plan::Every => true, Plan::Mask(m) => m.get(point).copied().unwrap_or(false) }
    }
    fn show(&self) -> String {
        match self { Plan::None => "none".into(), Plan::Every => "every".into(),
            Plan::Mask(m) => m.iter().map(|b| if *b { '1' } else { '0' }).collect() }
    }
    fn parse(s: &str) -> Plan {
        match s { "none" => Plan::None, "every" => Plan::Every, m => Plan::Mask(m.chars().map(|c| c == '1').collect()) }
    }
}

/// one execution of a history; prefix point k = after k operations (0 = right after init)
pub fn run_history<S: Subject>(ar: &mut Arena, cap: usize, ops: &[S::Op], plan: &Plan) -> Vec<String> {
    let mut out = Vec::with_capacity(ops.len() * 2 + 2);
    let mut block = ar.start();
    take_drops();
    arena::set_op(0);
    let mut l = unsafe { S::build(block, ar.blen, cap) };
    if plan.at(0) { block = ar.relocate(); }
    let mut alive = true;
    for (i, op) in ops.iter().enumerate() {
        arena::set_op(i as u64 + 1);
        if !unsafe { S::apply(&mut l, block, cap, op, &mut out) } { alive = false; break; }
        if plan.at(i + 1) { block = ar.relocate(); }
    }
    arena::set_op(ops.len() as u64 + 1);
    if alive { unsafe { S::finish(l, block, cap, &mut out) } } else { core::mem::forget(l); }
    take_drops();
    out
}

pub struct Stats { cases: u64, ops: u64, relocations: u64, diverged: u64, panicked_cases: u64 }

pub struct Sink { report: i32, emit: bool, buf: Vec<u8> }
impl Sink {
    fn rep(&self, s: &str) { let line = format!("{}\n", s); unsafe { libc::write(self.report, line.as_ptr() as *const _, line.len()); } }
    fn case_out(&mut self, header: &str, lines: &[String]) {
        if !self.emit { return; }
        self.buf.extend_from_slice(header.as_bytes()); self.buf.push(b'\n');
        for l in lines { self.buf.extend_from_slice(l.as_bytes()); self.buf.push(b'\n'); }
        if self.buf.len() > 1 << 16 { self.flush(); }
    }
    fn flush(&mut self) {
        let mut off = 0;
        while off < self.buf.len() {
            let n = unsafe { libc::write(1, self.buf[off..].as_ptr() as *const _, self.buf.len() - off) };
            if n <= 0 { break; }
            off += n as usize;
        }
        self.buf.clear();
    }
}

/// baseline vs relocated; returns false on divergence
fn check_case<S: Subject>(ar: &mut Arena, cap: usize, ops: &[S::Op], plan: &Plan, id: &str, sink: &mut Sink, st: &mut Stats) {
    let desc = format!("subject={} cap={} id={} plan={} ops={:?}", S::NAME, cap, id, plan.show(), ops);
    arena::set_case(&format!("{} phase=base", desc));
    let base = run_history::<S>(ar, cap, ops, &Plan::None);
    arena::set_case(&format!("{} phase=reloc", desc));
    let r0 = ar.nreloc;
    let rel = run_history::<S>(ar, cap, ops, plan);
    st.relocations += ar.nreloc - r0;
    st.cases += 1;
    st.ops += ops.len() as u64;
    if rel.iter().any(|l| l.ends_with("= P")) { st.panicked_cases += 1; }
    if base != rel {
        st.diverged += 1;
        let k = base.iter().zip(rel.iter()).position(|(a, b)| a != b).unwrap_or(base.len().min(rel.len()));
        sink.rep(&format!("DIVERGE {} line={} base=[{}] reloc=[{}]", desc, k,
            base.get(k).map(|s| s.as_str()).unwrap_or("<end>"), rel.get(k).map(|s| s.as_str()).unwrap_or("<end>")));
    }
    sink.case_out(&S::header(cap), &rel);
}

fn exh_ops<S: Subject>(cap: usize, len: usize, code: u64) -> Vec<S::Op> {
    let alpha = S::alphabet(cap);
    let mut c = code;
    let mut ops = Vec::with_capacity(len);
    for _ in 0..len { ops.push(alpha[(c % alpha.len() as u64) as usize].clone()); c /= alpha.len() as u64; }
    ops
}

fn rnd_case<S: Subject>(seed: u64, maxops: usize, n: u64) -> (usize, Vec<S::Op>, Plan) {
    let mut rng = Rng(seed ^ n.wrapping_mul(0x2545F4914F6CDD1D) ^ 0xC14);
    let caps = S::caps_rnd();
    let cap = caps[rng.below(caps.len() as u64) as usize];
    let len = 1 + rng.below(maxops as u64) as usize;
    let mut ops = Vec::with_capacity(len);
    let mut bias = rng.below(3);
    for i in 0..len {
        if i % 19 == 0 { bias = rng.below(3); }
        ops.push(S::random_op(&mut rng, cap, bias));
    }
    // half of the random cases relocate at every prefix point, the others at a random subset
    let plan = if n % 2 == 0 { Plan::Every } else {
        let dens = 1 + rng.below(4);
        Plan::Mask((0..=len).map(|_| rng.below(4) < dens).collect())
    };
    (cap, ops, plan)
}

fn campaign<S: Subject>(a: &Args, sink: &mut Sink, from: u64, progress: *mut u64) -> Stats {
    let mut st = Stats { cases: 0, ops: 0, relocations: 0, diverged: 0, panicked_cases: 0 };
    let maxcap = S::caps_rnd().into_iter().chain(S::caps_exh()).max().unwrap();
    let mut ar = Arena::new(S::block_len(maxcap), S::ALIGN);
    let mut idx = 0u64;
    if a.mode == "exh" {
        for cap in S::caps_exh() {
            ar.set_blen(S::block_len(cap));
            let na = S::alphabet(cap).len() as u64;
            for len in 0..=a.maxlen {
                let total = na.pow(len as u32);
                for code in 0..total {
                    idx += 1;
                    if idx % a.nshards != a.shard || idx < from { continue; }
                    unsafe { core::ptr::write_volatile(progress, idx) };
                    let ops = exh_ops::<S>(cap, len, code);
                    check_case::<S>(&mut ar, cap, &ops, &Plan::Every, &format!("exh:{}:{}:{}", cap, len, code), sink, &mut st);
                }
            }
        }
    } else {
        for n in 0..a.ncases {
            idx += 1;
            if n % a.nshards != a.shard || idx < from { continue; }
            unsafe { core::ptr::write_volatile(progress, idx) };
            let (cap, ops, plan) = rnd_case::<S>(a.seed, a.maxlen, n);
            ar.set_blen(S::block_len(cap));
            check_case::<S>(&mut ar, cap, &ops, &plan, &format!("rnd:{}:{}:{}", a.seed, a.maxlen, n), sink, &mut st);
        }
    }
    st
}

/// the campaign runs in a child process; when a child dies on a fault (the handler has already
/// written the FAULT line with the history) a new child continues behind the faulting case
fn supervised<S: Subject>(a: &Args) -> i32 {
    let progress = unsafe { libc::mmap(core::ptr::null_mut(), 4096, libc::PROT_READ | libc::PROT_WRITE, libc::MAP_SHARED | libc::MAP_ANONYMOUS, -1, 0) } as *mut u64;
    let path = std::ffi::CString::new(a.report.clone()).unwrap();
    let fd = unsafe { libc::open(path.as_ptr(), libc::O_WRONLY | libc::O_CREAT | libc::O_APPEND, 0o644) };
    if fd < 0 { eprintln!("cannot open report file {}", a.report); return 2; }
    let mut from = 0u64;
    let mut faults = 0u64;
    loop {
        let pid = unsafe { libc::fork() };
        if pid == 0 {
            arena::install_fault_handler(fd);
            let mut sink = Sink { report: fd, emit: S::MODEL, buf: Vec::with_capacity(1 << 17) };
            let st = campaign::<S>(a, &mut sink, from, progress);
            sink.flush();
            sink.rep(&format!("STATS subject={} mode={} cases={} ops={} relocations={} diverged={} panicked_cases={} types={}",
                S::NAME, a.mode, st.cases, st.ops, st.relocations, st.diverged, st.panicked_cases, S::types().join(",")));
            unsafe { libc::_exit(0) };
        }
        let mut status = 0i32;
        unsafe { libc::waitpid(pid, &mut status, 0) };
        let code = if libc::WIFEXITED(status) { libc::WEXITSTATUS(status) } else { 128 + libc::WTERMSIG(status) };
        if code == 0 { break; }
        faults += 1;
        let at = unsafe { core::ptr::read_volatile(progress) };
        let line = format!("CHILD-DIED subject={} code={} at_case_index={}\n", S::NAME, code, at);
        unsafe { libc::write(fd, line.as_ptr() as *const _, line.len()); }
        if faults > 50 { let l = b"GIVING-UP too many faults\n"; unsafe { libc::write(fd, l.as_ptr() as *const _, l.len()); } return 3; }
        from = at + 1;
    }
    let line = format!("DONE subject={} faults={}\n", S::NAME, faults);
    unsafe { libc::write(fd, line.as_ptr() as *const _, line.len()); }
    0
}

fn one<S: Subject>(id: &str, plan: &str) -> i32 {
    arena::install_fault_handler(2);
    // id = exh:<cap>:<len>:<code>  |  rnd:<seed>:<maxops>:<n>
    let f: Vec<&str> = id.split(':').collect();
    let (cap, ops, dplan) = if f[0] == "exh" {
        let cap: usize = f[1].parse().unwrap();
        (cap, exh_ops::<S>(cap, f[2].parse().unwrap(), f[3].parse().unwrap()), Plan::Every)
    } else {
        rnd_case::<S>(f[1].parse().unwrap(), f[2].parse().unwrap(), f[3].parse().unwrap())
    };
    let plan = if plan == "default" { dplan } else { Plan::parse(plan) };
    let mut ar = Arena::new(S::block_len(cap), S::ALIGN);
    println!("# {} cap={} plan={} ops={:?}", S::NAME, cap, plan.show(), ops);
    arena::set_case(&format!("subject={} cap={} id={} plan=none ops={:?} phase=base", S::NAME, cap, id, ops));
    let base = run_history::<S>(&mut ar, cap, &ops, &Plan::None);
    for l in &base { println!("base  {}", l); }
    arena::set_case(&format!("subject={} cap={} id={} plan={} ops={:?} phase=reloc", S::NAME, cap, id, plan.show(), ops));
    let rel = run_history::<S>(&mut ar, cap, &ops, &plan);
    for l in &rel { println!("reloc {}", l); }
    if base == rel { println!("# equal ({} relocations)", ar.nreloc); 0 } else { println!("# DIVERGED"); 1 }
}

pub struct Args { pub mode: String, pub maxlen: usize, pub shard: u64, pub nshards: u64, pub seed: u64, pub ncases: u64, pub report: String }

macro_rules! subjects {
    ($m:ident, $name:expr, $($args:expr),*) => {
        match $name {
            "vec" => $m::<containers::VecS>($($args),*),
            "queue" => $m::<containers::QueueEl>($($args),*),
            "queueu" => $m::<containers::QueueU64>($($args),*),
            "str" => $m::<containers::StrS>($($args),*),
            "slotmap" => $m::<containers::SlotMapS>($($args),*),
            "flatmap" => $m::<containers::FlatMapS>($($args),*),
            "indexq" => $m::<lockfree::IndexQ>($($args),*),
            "oflowq" => $m::<lockfree::OverflowQ>($($args),*),
            "uis" => $m::<lockfree::Uis>($($args),*),
            "ruis" => $m::<lockfree::Ruis>($($args),*),
            "bitset" => $m::<lockfree::BitSetS>($($args),*),
            "container" => $m::<lockfree::ContainerS>($($args),*),
            "usedchunks" => $m::<calsubj::UsedChunks>($($args),*),
            "calpool" => $m::<calsubj::CalPool>($($args),*),
            "calbump" => $m::<calsubj::CalBump>($($args),*),
            "calpoolgrow" => $m::<calsubj::CalPoolGrowBack>($($args),*),
            "calbumpgrow" => $m::<calsubj::CalBumpGrowBack>($($args),*),
            "selftest-fault" => $m::<selftest::AbsFault>($($args),*),
            "selftest-diverge" => $m::<selftest::AbsDiverge>($($args),*),
            s => { eprintln!("unknown subject {}", s); 2 }
        }
    };
}

pub const SUBJECTS: [&str; 17] = ["vec", "queue", "queueu", "str", "slotmap", "flatmap", "indexq", "oflowq", "uis", "ruis", "bitset",
    "container", "usedchunks", "calpool", "calbump", "calpoolgrow", "calbumpgrow"];

fn types_of<S: Subject>() -> i32 { for t in S::types() { println!("TYPE {} {}", S::NAME, t); } 0 }

fn main() {
    if std::env::var("VERIF_PANIC_VERBOSE").is_err() { std::panic::set_hook(Box::new(|_| {})); }
    iceoryx2_log::set_log_level(iceoryx2_log::LogLevel::Fatal);
    let a: Vec<String> = std::env::args().collect();
    if a.len() >= 2 && a[1] == "types" {
        for s in SUBJECTS { subjects!(types_of, s, ); }
        return;
    }
    if a.len() >= 4 && a[1] == "one" {
        let plan = a.get(4).map(|s| s.as_str()).unwrap_or("default");
        let rc = subjects!(one, a[2].as_str(), a[3].as_str(), plan);
        std::process::exit(rc);
    }
    if a.len() < 9 { eprintln!("usage: c14 exh|rnd <subject> <maxlen> <shard> <nshards> <seed> <ncases> <report-file> | c14 one <subject> <case-id> [plan] | c14 types"); std::process::exit(2); }
    let args = Args { mode: a[1].clone(), maxlen: a[3].parse().unwrap(), shard: a[4].parse().unwrap(), nshards: a[5].parse().unwrap(),
        seed: a[6].parse().unwrap(), ncases: a[7].parse().unwrap(), report: a[8].clone() };
    let rc = subjects!(supervised, a[2].as_str(), &args);
    std::process::exit(rc);
}
