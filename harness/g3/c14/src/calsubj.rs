//! iceoryx2-cal: UsedChunkList (relocatable) and the shared-memory allocators PoolAllocator /
//! BumpAllocator (ShmAllocator trait), observed through PointerOffset values only.  Header,
//! management memory and the managed payload all live inside the one block that is relocated;
//! after a relocation the allocator header still holds the addresses of the ORIGINAL mapping
//! (exactly what a second process sees), which is fine as long as they are used arithmetically.
//! No sequential extracted model: baseline == relocated only.
use crate::common::*;
use crate::Subject;
use core::alloc::Layout;
use core::ptr::NonNull;
use iceoryx2_bb_elementary::bump_allocator::BumpAllocator;
use iceoryx2_bb_elementary_traits::allocator::{Allocate, ContentPlacement, Deallocate, Grow};
use iceoryx2_cal::shm_allocator::{bump_allocator, pool_allocator, PointerOffset, ShmAllocator};
use iceoryx2_cal::zero_copy_connection::used_chunk_list::RelocatableUsedChunkList;

fn tn<T>() -> &'static str { core::any::type_name::<T>() }
fn lay(s: usize, a: usize) -> Layout { Layout::from_size_align(s, a).unwrap() }

// ------------------------------------------------------------------------------------------
pub struct UsedChunks;
#[derive(Clone, Copy, Debug, PartialEq)]
pub enum KOp { Insert(usize), Remove(usize), RemoveAll }
impl Subject for UsedChunks {
    type Op = KOp;
    type Local = ();
    const NAME: &'static str = "usedchunks";
    const MODEL: bool = false;
    fn types() -> Vec<&'static str> { vec![tn::<RelocatableUsedChunkList>()] }
    fn header(cap: usize) -> String { format!("C usedchunks reloc idx {}", cap) }
    fn alphabet(cap: usize) -> Vec<KOp> { vec![KOp::Insert(0), KOp::Insert(cap - 1), KOp::Remove(0), KOp::Remove(cap - 1), KOp::RemoveAll] }
    fn random_op(rng: &mut Rng, cap: usize, bias: u64) -> KOp {
        let r = rng.below(100);
        let k = rng.below(cap as u64) as usize;
        match bias { 0 => if r < 75 { KOp::Insert(k) } else if r < 97 { KOp::Remove(k) } else { KOp::RemoveAll },
                     1 => if r < 65 { KOp::Remove(k) } else if r < 95 { KOp::Insert(k) } else { KOp::RemoveAll },
                     _ => if r < 50 { KOp::Insert(k) } else if r < 92 { KOp::Remove(k) } else { KOp::RemoveAll } }
    }
    fn block_len(cap: usize) -> usize { block_len_for::<RelocatableUsedChunkList>(cap) }
    unsafe fn build(block: *mut u8, len: usize, cap: usize) { place::<RelocatableUsedChunkList>(block, len, cap); }
    unsafe fn apply(_l: &mut (), block: *mut u8, cap: usize, op: &KOp, out: &mut Vec<String>) -> bool {
        let s = &*(block as *const RelocatableUsedChunkList);
        let line = match *op {
            KOp::Insert(i) => match guarded(|| s.insert(i)) { Some(b) => format!("O insert {} = {}", i, fmt_bool(b)), None => format!("O insert {} = P", i) },
            KOp::Remove(i) => match guarded(|| s.remove(i)) { Some(b) => format!("O remove {} = {}", i, fmt_bool(b)), None => format!("O remove {} = P", i) },
            KOp::RemoveAll => { let mut l = Vec::new(); match guarded(|| s.remove_all(|i| l.push(i as u64))) { Some(()) => format!("O removeall = {}", fmt_list(&l)), None => "O removeall = P".into() } }
        };
        let panicked = line.ends_with("= P");
        out.push(line);
        if panicked { return false; }
        if s.capacity() != cap { out.push("O sidecheck = b0".into()); }
        true
    }
    unsafe fn finish(_l: (), _block: *mut u8, _cap: usize, _out: &mut Vec<String>) {}
}

// ------------------------------------------------------------------------------------------
// block layout of the allocator subjects:  [ header | management memory | managed payload ]
const BUCKET: usize = 32;
const MGMT_OFF: usize = 256;      // header sizes are far below
const MGMT_LEN: usize = 1024;
const PAYLOAD_OFF: usize = MGMT_OFF + MGMT_LEN;

#[derive(Clone, Copy, Debug, PartialEq)]
pub enum AOp { Alloc(usize, usize), Dealloc(usize), GrowFront(usize), GrowBack(usize), Info }
pub struct ALocal { live: Vec<(u64, usize)>, stamp: u8 }

fn aerr<E: core::fmt::Debug>(e: E) -> String { format!("e{:?}", e) }

/// fill the chunk at `off` (relative to the allocator's start inside the CURRENT block) with a stamp
unsafe fn stamp(block: *mut u8, rel_start: usize, off: usize, size: usize, v: u8) {
    core::ptr::write_bytes(block.add(PAYLOAD_OFF + rel_start + off), v, size);
}
unsafe fn readback(block: *mut u8, rel_start: usize, off: usize, size: usize) -> String {
    let s = core::slice::from_raw_parts(block.add(PAYLOAD_OFF + rel_start + off), size);
    let first = s.first().copied().unwrap_or(0);
    if s.iter().all(|b| *b == first) { format!("{}x{}", first, size) } else { format!("mixed:{:?}", &s[..size.min(8)]) }
}

fn arandom(rng: &mut Rng, cap: usize, bias: u64, growback: bool) -> AOp {
    let r = rng.below(100);
    let k = rng.below(cap as u64 + 1) as usize;
    let size = [1usize, 8, 16, 24, BUCKET, BUCKET + 1][rng.below(6) as usize];
    let al = [1usize, 2, 4, 8, 16][rng.below(5) as usize];
    let g = if growback && r % 2 == 0 { AOp::GrowBack(k) } else { AOp::GrowFront(k) };
    match bias { 0 => if r < 65 { AOp::Alloc(size, al) } else if r < 85 { AOp::Dealloc(k) } else if r < 95 { g } else { AOp::Info },
                 1 => if r < 55 { AOp::Dealloc(k) } else if r < 85 { AOp::Alloc(size, al) } else if r < 95 { g } else { AOp::Info },
                 _ => if r < 45 { AOp::Alloc(size, al) } else if r < 75 { AOp::Dealloc(k) } else { g } }
}

macro_rules! alloc_apply {
    ($l:expr, $block:expr, $op:expr, $out:expr, $hdr:expr, $a:expr, $rel:expr, $is_bump:expr) => {{
        let line = match *$op {
            AOp::Alloc(s, al) => match guarded(|| $a.allocate(lay(s, al))) {
                Some(Ok(p)) => { $l.stamp = $l.stamp.wrapping_add(1); stamp($block, $rel, p.offset(), s, $l.stamp); $l.live.push((p.as_value(), s));
                    format!("O alloc {} {} = ok:{}:seg{}", s, al, p.offset(), p.segment_id().value()) }
                Some(Err(e)) => format!("O alloc {} {} = {}", s, al, aerr(e)), None => format!("O alloc {} {} = P", s, al) },
            AOp::Dealloc(k) => if $l.live.is_empty() { "O dealloc = skip".into() } else {
                let (v, s) = if $is_bump { let x = *$l.live.last().unwrap(); $l.live.clear(); x } else { $l.live.remove(k % $l.live.len()) };
                let rb = readback($block, $rel, PointerOffset::from_value(v).offset(), s);
                match guarded(|| $a.deallocate(PointerOffset::from_value(v), lay(s, 1))) { Some(()) => format!("O dealloc {} = ok content={}", PointerOffset::from_value(v).offset(), rb), None => "O dealloc = P".into() } },
            AOp::GrowFront(k) | AOp::GrowBack(k) => if $l.live.is_empty() { "O grow = skip".into() } else {
                let back = matches!(*$op, AOp::GrowBack(_));
                let pos = k % $l.live.len();
                let (v, s) = $l.live[pos];
                let ns = (s + 8).min(BUCKET);
                match guarded(|| $a.grow(PointerOffset::from_value(v), lay(s, 1), lay(ns, 1), if back { ContentPlacement::Back } else { ContentPlacement::Front })) {
                    Some(Ok(p)) => { $l.live[pos] = (p.as_value(), ns);
                        let keep = if back { readback($block, $rel, p.offset() + (ns - s), s) } else { readback($block, $rel, p.offset(), s) };
                        format!("O grow{} {} {}->{} = ok:{} kept={}", if back { "back" } else { "front" }, PointerOffset::from_value(v).offset(), s, ns, p.offset(), keep) }
                    Some(Err(e)) => format!("O grow {} {}->{} = {}", PointerOffset::from_value(v).offset(), s, ns, aerr(e)),
                    None => "O grow = P".into() } },
            AOp::Info => format!("O info = relstart:{} maxalign:{}", $hdr.relative_start_address(), $hdr.max_alignment()),
        };
        let panicked = line.ends_with("= P");
        $out.push(line);
        !panicked
    }};
}

unsafe fn pool_build(block: *mut u8, len: usize, cap: usize) -> ALocal {
    assert!(core::mem::size_of::<pool_allocator::PoolAllocator>() <= MGMT_OFF && PAYLOAD_OFF + cap * BUCKET <= len);
    let cfg = pool_allocator::Config { bucket_layout: lay(BUCKET, 8) };
    let mem = NonNull::slice_from_raw_parts(NonNull::new(block.add(PAYLOAD_OFF)).unwrap(), cap * BUCKET);
    let h = block as *mut pool_allocator::PoolAllocator;
    h.write(pool_allocator::PoolAllocator::new_uninit(4096, mem, &cfg));
    let bump = BumpAllocator::new(NonNull::new(block.add(MGMT_OFF)).unwrap(), MGMT_LEN);
    (*h).init(&bump).expect("pool allocator init");
    ALocal { live: Vec::new(), stamp: 0 }
}
unsafe fn pool_apply(l: &mut ALocal, block: *mut u8, op: &AOp, out: &mut Vec<String>) -> bool {
    let h = &*(block as *const pool_allocator::PoolAllocator);
    let a = h.assume_init();
    let rel = h.relative_start_address();
    alloc_apply!(l, block, op, out, h, a, rel, false)
}

pub struct CalPool;
impl Subject for CalPool {
    type Op = AOp;
    type Local = ALocal;
    const NAME: &'static str = "calpool";
    const MODEL: bool = false;
    fn types() -> Vec<&'static str> { vec![tn::<pool_allocator::PoolAllocator>(), tn::<iceoryx2_bb_memory::pool_allocator::PoolAllocator>()] }
    fn header(cap: usize) -> String { format!("C calpool reloc buckets {}", cap) }
    fn alphabet(_cap: usize) -> Vec<AOp> { vec![AOp::Alloc(8, 8), AOp::Alloc(BUCKET, 1), AOp::Alloc(BUCKET + 1, 1), AOp::Dealloc(0), AOp::Dealloc(1), AOp::GrowFront(0), AOp::Info] }
    fn random_op(rng: &mut Rng, cap: usize, bias: u64) -> AOp { arandom(rng, cap, bias, false) }
    fn block_len(cap: usize) -> usize { PAYLOAD_OFF + cap * BUCKET + 64 }
    unsafe fn build(block: *mut u8, len: usize, cap: usize) -> ALocal { pool_build(block, len, cap) }
    unsafe fn apply(l: &mut ALocal, block: *mut u8, _cap: usize, op: &AOp, out: &mut Vec<String>) -> bool { pool_apply(l, block, op, out) }
    unsafe fn finish(_l: ALocal, _block: *mut u8, _cap: usize, _out: &mut Vec<String>) {}
}
/// the same with grow(.., ContentPlacement::Back) in the alphabet (reported separately)
pub struct CalPoolGrowBack;
impl Subject for CalPoolGrowBack {
    type Op = AOp;
    type Local = ALocal;
    const NAME: &'static str = "calpoolgrow";
    const MODEL: bool = false;
    fn types() -> Vec<&'static str> { CalPool::types() }
    fn header(cap: usize) -> String { format!("C calpoolgrow reloc buckets {}", cap) }
    fn alphabet(_cap: usize) -> Vec<AOp> { vec![AOp::Alloc(8, 8), AOp::Dealloc(0), AOp::GrowBack(0), AOp::GrowFront(0)] }
    fn random_op(rng: &mut Rng, cap: usize, bias: u64) -> AOp { arandom(rng, cap, bias, true) }
    fn block_len(cap: usize) -> usize { CalPool::block_len(cap) }
    unsafe fn build(block: *mut u8, len: usize, cap: usize) -> ALocal { pool_build(block, len, cap) }
    unsafe fn apply(l: &mut ALocal, block: *mut u8, _cap: usize, op: &AOp, out: &mut Vec<String>) -> bool { pool_apply(l, block, op, out) }
    unsafe fn finish(_l: ALocal, _block: *mut u8, _cap: usize, _out: &mut Vec<String>) {}
}

unsafe fn bump_build(block: *mut u8, len: usize, cap: usize) -> ALocal {
    assert!(core::mem::size_of::<bump_allocator::BumpAllocator>() <= MGMT_OFF && PAYLOAD_OFF + cap * BUCKET <= len);
    let mem = NonNull::slice_from_raw_parts(NonNull::new(block.add(PAYLOAD_OFF)).unwrap(), cap * BUCKET);
    let h = block as *mut bump_allocator::BumpAllocator;
    h.write(bump_allocator::BumpAllocator::new_uninit(4096, mem, &bump_allocator::Config::default()));
    let bump = BumpAllocator::new(NonNull::new(block.add(MGMT_OFF)).unwrap(), MGMT_LEN);
    (*h).init(&bump).expect("bump allocator init");
    ALocal { live: Vec::new(), stamp: 0 }
}
unsafe fn bump_apply(l: &mut ALocal, block: *mut u8, op: &AOp, out: &mut Vec<String>) -> bool {
    let h = &*(block as *const bump_allocator::BumpAllocator);
    let a = h.assume_init();
    let rel = h.relative_start_address();
    alloc_apply!(l, block, op, out, h, a, rel, true)
}

pub struct CalBump;
impl Subject for CalBump {
    type Op = AOp;
    type Local = ALocal;
    const NAME: &'static str = "calbump";
    const MODEL: bool = false;
    fn types() -> Vec<&'static str> { vec![tn::<bump_allocator::BumpAllocator>(), tn::<BumpAllocator>()] }
    fn header(cap: usize) -> String { format!("C calbump reloc chunks {}", cap) }
    fn alphabet(_cap: usize) -> Vec<AOp> { vec![AOp::Alloc(8, 8), AOp::Alloc(3, 1), AOp::Alloc(BUCKET, 4), AOp::Alloc(5, 2), AOp::Dealloc(0), AOp::Info] }
    fn random_op(rng: &mut Rng, cap: usize, bias: u64) -> AOp { match arandom(rng, cap, bias, false) { AOp::GrowFront(_) => AOp::Info, o => o } }
    fn block_len(cap: usize) -> usize { PAYLOAD_OFF + cap * BUCKET + 64 }
    unsafe fn build(block: *mut u8, len: usize, cap: usize) -> ALocal { bump_build(block, len, cap) }
    unsafe fn apply(l: &mut ALocal, block: *mut u8, _cap: usize, op: &AOp, out: &mut Vec<String>) -> bool { bump_apply(l, block, op, out) }
    unsafe fn finish(_l: ALocal, _block: *mut u8, _cap: usize, _out: &mut Vec<String>) {}
}
pub struct CalBumpGrowBack;
impl Subject for CalBumpGrowBack {
    type Op = AOp;
    type Local = ALocal;
    const NAME: &'static str = "calbumpgrow";
    const MODEL: bool = false;
    fn types() -> Vec<&'static str> { CalBump::types() }
    fn header(cap: usize) -> String { format!("C calbumpgrow reloc chunks {}", cap) }
    fn alphabet(_cap: usize) -> Vec<AOp> { vec![AOp::Alloc(8, 8), AOp::Dealloc(0), AOp::GrowBack(0), AOp::GrowBack(1), AOp::GrowFront(0), AOp::GrowFront(1)] }
    fn random_op(rng: &mut Rng, cap: usize, bias: u64) -> AOp { arandom(rng, cap, bias, true) }
    fn block_len(cap: usize) -> usize { CalBump::block_len(cap) }
    unsafe fn build(block: *mut u8, len: usize, cap: usize) -> ALocal { bump_build(block, len, cap) }
    unsafe fn apply(l: &mut ALocal, block: *mut u8, _cap: usize, op: &AOp, out: &mut Vec<String>) -> bool { bump_apply(l, block, op, out) }
    unsafe fn finish(_l: ALocal, _block: *mut u8, _cap: usize, _out: &mut Vec<String>) {}
}
