//! Shared helpers: drop-logging element, SplitMix64, canonical formatting, panic guard, and
//! placing a RelocatableContainer (header + payload) inside a block.
use core::ptr::NonNull;
use iceoryx2_bb_elementary::bump_allocator::BumpAllocator;
use iceoryx2_bb_elementary_traits::relocatable_container::RelocatableContainer;
use std::cell::RefCell;
use std::panic::{catch_unwind, AssertUnwindSafe};

thread_local! { pub static DROPS: RefCell<Vec<u64>> = RefCell::new(Vec::new()); }

#[derive(Debug)]
pub struct El(pub u64);
impl Clone for El { fn clone(&self) -> Self { El(self.0) } }
impl Drop for El { fn drop(&mut self) { DROPS.with(|d| d.borrow_mut().push(self.0)); } }
pub fn take_drops() -> Vec<u64> { DROPS.with(|d| std::mem::take(&mut *d.borrow_mut())) }
pub fn forget_val(e: El) -> u64 { let v = e.0; std::mem::forget(e); v }

pub const KTAG: u64 = 1_000_000;
#[derive(Debug)]
pub struct KEl(pub u64);
impl PartialEq for KEl { fn eq(&self, o: &Self) -> bool { self.0 == o.0 } }
impl Eq for KEl {}
impl Drop for KEl { fn drop(&mut self) { DROPS.with(|d| d.borrow_mut().push(KTAG + self.0)); } }

pub struct Rng(pub u64);
impl Rng {
    pub fn next(&mut self) -> u64 {
        self.0 = self.0.wrapping_add(0x9E3779B97F4A7C15);
        let mut z = self.0;
        z = (z ^ (z >> 30)).wrapping_mul(0xBF58476D1CE4E5B9);
        z = (z ^ (z >> 27)).wrapping_mul(0x94D049BB133111EB);
        z ^ (z >> 31)
    }
    pub fn below(&mut self, n: u64) -> u64 { if n == 0 { 0 } else { self.next() % n } }
}

pub fn fmt_opt(o: Option<u64>) -> String { match o { None => "n".into(), Some(v) => format!("s{}", v) } }
pub fn fmt_list(l: &[u64]) -> String {
    let mut s = String::from("l");
    for (i, v) in l.iter().enumerate() { if i > 0 { s.push(','); } s.push_str(&v.to_string()); }
    s
}
pub fn fmt_bool(b: bool) -> &'static str { if b { "b1" } else { "b0" } }
pub fn guarded<R>(f: impl FnOnce() -> R) -> Option<R> { catch_unwind(AssertUnwindSafe(f)).ok() }

pub fn align_up(v: usize, a: usize) -> usize { (v + a - 1) / a * a }

/// size of a block that holds the header H and everything `init` allocates, plus slack
pub fn block_len_for<H: RelocatableContainer>(cap: usize) -> usize {
    align_up(align_up(core::mem::size_of::<H>(), 16) + H::memory_size(cap) + 64, 16)
}

/// header at block+0; payload allocated by a (process-local, short-lived) bump allocator over
/// the rest of the SAME block
pub unsafe fn place<H: RelocatableContainer>(block: *mut u8, len: usize, cap: usize) -> *mut H {
    assert!(block as usize % core::mem::align_of::<H>() == 0);
    let h = block as *mut H;
    h.write(H::new_uninit(cap));
    let off = align_up(core::mem::size_of::<H>(), 16);
    let alloc = BumpAllocator::new(NonNull::new(block.add(off)).unwrap(), len - off);
    (*h).init(&alloc).expect("init inside the block");
    h
}
