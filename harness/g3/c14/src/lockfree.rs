//! iceoryx2-bb-lock-free: relocatable index queues (sequential behaviour, replayed on the C16 queue
//! model by the driver), UniqueIndexSet, RobustUniqueIndexSet, relocatable BitSet, mpmc Container.
//! The index sets, the bit set and the container have no sequential extracted model: for them
//! only baseline == relocated is checked.
use crate::common::*;
use crate::Subject;
use iceoryx2_bb_lock_free::mpmc::bit_set::RelocatableBitSet;
use iceoryx2_bb_lock_free::mpmc::container::{Container, ContainerHandle, ContainerState};
use iceoryx2_bb_lock_free::mpmc::robust_unique_index_set::{OwnerId, RobustUniqueIndexSet};
use iceoryx2_bb_lock_free::mpmc::unique_index_set::UniqueIndexSet;
use iceoryx2_bb_lock_free::mpmc::unique_index_set_enums::{ReleaseMode, ReleaseState, UniqueIndexSetAcquireFailure};
use iceoryx2_bb_lock_free::spsc::index_queue::RelocatableIndexQueue;
use iceoryx2_bb_lock_free::spsc::safely_overflowing_index_queue::RelocatableSafelyOverflowingIndexQueue;
use iceoryx2_bb_elementary::CallbackProgression;

fn tn<T>() -> &'static str { core::any::type_name::<T>() }
fn rs(s: ReleaseState) -> &'static str { match s { ReleaseState::Locked => "locked", ReleaseState::Unlocked => "unlocked" } }
fn af(e: UniqueIndexSetAcquireFailure) -> &'static str { match e { UniqueIndexSetAcquireFailure::OutOfIndices => "eOut", UniqueIndexSetAcquireFailure::IsLocked => "eLocked" } }
fn mode(lock: bool) -> ReleaseMode { if lock { ReleaseMode::LockIfLastIndex } else { ReleaseMode::Default } }

// ------------------------------------------------------------------------------------------
#[derive(Clone, Copy, Debug, PartialEq)]
pub enum IOp { Push, Pop, Len, Acquire }

pub struct IndexQ;
type IQ = RelocatableIndexQueue;
impl Subject for IndexQ {
    type Op = IOp;
    type Local = u64;
    const NAME: &'static str = "indexq";
    const MODEL: bool = true;
    fn types() -> Vec<&'static str> { vec![tn::<IQ>()] }
    fn header(cap: usize) -> String { format!("C queue reloc-indexq u64 {}", cap) }
    fn alphabet(_cap: usize) -> Vec<IOp> { vec![IOp::Push, IOp::Pop, IOp::Len, IOp::Acquire] }
    fn random_op(rng: &mut Rng, _cap: usize, bias: u64) -> IOp {
        let r = rng.below(100);
        match bias { 0 => if r < 65 { IOp::Push } else if r < 90 { IOp::Pop } else if r < 96 { IOp::Len } else { IOp::Acquire },
                     1 => if r < 65 { IOp::Pop } else if r < 90 { IOp::Push } else if r < 96 { IOp::Len } else { IOp::Acquire },
                     _ => if r < 48 { IOp::Push } else if r < 96 { IOp::Pop } else { IOp::Len } }
    }
    fn block_len(cap: usize) -> usize { block_len_for::<IQ>(cap) }
    unsafe fn build(block: *mut u8, len: usize, cap: usize) -> u64 { place::<IQ>(block, len, cap); 1 }
    unsafe fn apply(next: &mut u64, block: *mut u8, cap: usize, op: &IOp, out: &mut Vec<String>) -> bool {
        let q = &*(block as *const IQ);
        let line = match *op {
            IOp::Push => { let v = *next; *next += 1; match guarded(|| q.push(v)) { Some(b) => format!("O push {} = {}", v, fmt_bool(b)), None => format!("O push {} = P", v) } }
            IOp::Pop => match guarded(|| q.pop()) { Some(r) => format!("O pop = {}", fmt_opt(r)), None => "O pop = P".into() },
            IOp::Len => format!("O len = u{}", q.len()),
            // the producer / consumer tokens are flags inside the block; the handles are process local and short lived.
            // observed through the queue model as a length query: acquiring and releasing both must not disturb the content
            IOp::Acquire => { let ok = { let p = q.acquire_producer(); let c = q.acquire_consumer(); let again = q.acquire_producer().is_none(); p.is_some() && c.is_some() && again };
                if ok { format!("O len = u{}", q.len()) } else { "O len = ?acquire-failed".into() } }
        };
        let panicked = line.ends_with("= P");
        out.push(line);
        if panicked { return false; }
        if !(q.capacity() == cap && q.is_empty() == (q.len() == 0) && q.is_full() == (q.len() == cap)) { out.push("O sidecheck = b0".into()); }
        true
    }
    unsafe fn finish(_l: u64, _block: *mut u8, _cap: usize, _out: &mut Vec<String>) {}
}

pub struct OverflowQ;
type OQ = RelocatableSafelyOverflowingIndexQueue;
impl Subject for OverflowQ {
    type Op = IOp;
    type Local = u64;
    const NAME: &'static str = "oflowq";
    const MODEL: bool = true;
    fn types() -> Vec<&'static str> { vec![tn::<OQ>()] }
    fn header(cap: usize) -> String { format!("C queue reloc-oflowq u64 {}", cap) }
    fn alphabet(_cap: usize) -> Vec<IOp> { vec![IOp::Push, IOp::Pop, IOp::Len, IOp::Acquire] }
    fn random_op(rng: &mut Rng, cap: usize, bias: u64) -> IOp { IndexQ::random_op(rng, cap, bias) }
    fn block_len(cap: usize) -> usize { block_len_for::<OQ>(cap) }
    unsafe fn build(block: *mut u8, len: usize, cap: usize) -> u64 { place::<OQ>(block, len, cap); 1 }
    unsafe fn apply(next: &mut u64, block: *mut u8, cap: usize, op: &IOp, out: &mut Vec<String>) -> bool {
        let q = &*(block as *const OQ);
        let line = match *op {
            IOp::Push => { let v = *next; *next += 1; match guarded(|| q.push(v)) { Some(r) => format!("O pusho {} = {}", v, fmt_opt(r)), None => format!("O pusho {} = P", v) } }
            IOp::Pop => match guarded(|| q.pop()) { Some(r) => format!("O pop = {}", fmt_opt(r)), None => "O pop = P".into() },
            IOp::Len => format!("O len = u{}", q.len()),
            IOp::Acquire => { let ok = { let p = q.acquire_producer(); let c = q.acquire_consumer(); let again = q.acquire_consumer().is_none(); p.is_some() && c.is_some() && again };
                if ok { format!("O len = u{}", q.len()) } else { "O len = ?acquire-failed".into() } }
        };
        let panicked = line.ends_with("= P");
        out.push(line);
        if panicked { return false; }
        if !(q.capacity() == cap && q.is_empty() == (q.len() == 0) && q.is_full() == (q.len() == cap)) { out.push("O sidecheck = b0".into()); }
        true
    }
    unsafe fn finish(_l: u64, _block: *mut u8, _cap: usize, _out: &mut Vec<String>) {}
}

// ------------------------------------------------------------------------------------------
pub struct Uis;
#[derive(Clone, Copy, Debug, PartialEq)]
pub enum UOp { Acquire, Release(usize, bool), Borrowed }
impl Subject for Uis {
    type Op = UOp;
    type Local = Vec<u32>;
    const NAME: &'static str = "uis";
    const MODEL: bool = false;
    fn types() -> Vec<&'static str> { vec![tn::<UniqueIndexSet>()] }
    fn header(cap: usize) -> String { format!("C uis reloc idx {}", cap) }
    fn alphabet(_cap: usize) -> Vec<UOp> { vec![UOp::Acquire, UOp::Release(0, false), UOp::Release(1, false), UOp::Release(0, true), UOp::Borrowed] }
    fn random_op(rng: &mut Rng, cap: usize, bias: u64) -> UOp {
        let r = rng.below(100);
        let k = rng.below(cap as u64 + 1) as usize;
        match bias { 0 => if r < 70 { UOp::Acquire } else if r < 92 { UOp::Release(k, false) } else { UOp::Borrowed },
                     1 => if r < 65 { UOp::Release(k, false) } else if r < 92 { UOp::Acquire } else if r < 95 { UOp::Release(k, true) } else { UOp::Borrowed },
                     _ => if r < 50 { UOp::Acquire } else if r < 97 { UOp::Release(k, false) } else { UOp::Release(k, true) } }
    }
    fn block_len(cap: usize) -> usize { block_len_for::<UniqueIndexSet>(cap) }
    unsafe fn build(block: *mut u8, len: usize, cap: usize) -> Vec<u32> { place::<UniqueIndexSet>(block, len, cap); Vec::new() }
    unsafe fn apply(held: &mut Vec<u32>, block: *mut u8, cap: usize, op: &UOp, out: &mut Vec<String>) -> bool {
        let s = &*(block as *const UniqueIndexSet);
        let line = match *op {
            UOp::Acquire => match guarded(|| s.acquire_raw_index()) {
                Some(Ok(i)) => { let dup = held.contains(&i) || i as usize >= cap; held.push(i); if dup { format!("O acquire = ?duplicate-or-out-of-range:{}", i) } else { format!("O acquire = s{}", i) } }
                Some(Err(e)) => format!("O acquire = {}", af(e)), None => "O acquire = P".into() },
            UOp::Release(k, lock) => if held.is_empty() { "O release = skip".into() } else {
                let i = held.remove(k % held.len());
                match guarded(|| s.release_raw_index(i, mode(lock))) { Some(st) => format!("O release {} {} = {}", i, lock as u8, rs(st)), None => format!("O release {} = P", i) } },
            UOp::Borrowed => format!("O borrowed = u{} locked={}", s.borrowed_indices(), s.is_locked() as u8),
        };
        let panicked = line.ends_with("= P");
        out.push(line);
        if panicked { return false; }
        if !(s.capacity() as usize == cap && (s.is_locked() || s.borrowed_indices() == held.len())) { out.push("O sidecheck = b0".into()); }
        true
    }
    unsafe fn finish(_l: Vec<u32>, _block: *mut u8, _cap: usize, _out: &mut Vec<String>) {}
}

// ------------------------------------------------------------------------------------------
pub struct Ruis;
#[derive(Clone, Copy, Debug, PartialEq)]
pub enum ROp { Acquire(u64), Release(usize, bool, bool), Recover(u64, bool), Borrowed }
impl Subject for Ruis {
    type Op = ROp;
    type Local = Vec<(usize, u64)>;
    const NAME: &'static str = "ruis";
    const MODEL: bool = false;
    fn types() -> Vec<&'static str> { vec![tn::<RobustUniqueIndexSet>()] }
    fn header(cap: usize) -> String { format!("C ruis reloc idx {}", cap) }
    fn alphabet(_cap: usize) -> Vec<ROp> {
        vec![ROp::Acquire(1), ROp::Acquire(2), ROp::Release(0, false, false), ROp::Release(1, false, false), ROp::Release(0, true, false),
             ROp::Release(0, false, true), ROp::Recover(1, false), ROp::Recover(2, true), ROp::Borrowed]
    }
    fn random_op(rng: &mut Rng, cap: usize, bias: u64) -> ROp {
        let r = rng.below(100);
        let k = rng.below(cap as u64 + 1) as usize;
        let o = 1 + rng.below(3);
        match bias { 0 => if r < 70 { ROp::Acquire(o) } else if r < 90 { ROp::Release(k, false, false) } else if r < 95 { ROp::Borrowed } else { ROp::Recover(o, false) },
                     1 => if r < 60 { ROp::Release(k, false, false) } else if r < 85 { ROp::Acquire(o) } else if r < 90 { ROp::Release(k, false, true) } else if r < 96 { ROp::Recover(o, false) } else { ROp::Release(k, true, false) },
                     _ => if r < 45 { ROp::Acquire(o) } else if r < 85 { ROp::Release(k, false, false) } else if r < 97 { ROp::Recover(o, false) } else { ROp::Recover(o, true) } }
    }
    fn block_len(cap: usize) -> usize { block_len_for::<RobustUniqueIndexSet>(cap) }
    unsafe fn build(block: *mut u8, len: usize, cap: usize) -> Self::Local { place::<RobustUniqueIndexSet>(block, len, cap); Vec::new() }
    unsafe fn apply(held: &mut Self::Local, block: *mut u8, cap: usize, op: &ROp, out: &mut Vec<String>) -> bool {
        let s = &*(block as *const RobustUniqueIndexSet);
        let line = match *op {
            ROp::Acquire(o) => match guarded(|| s.acquire(OwnerId::new(o).unwrap())) {
                Some(Ok(i)) => { let dup = held.iter().any(|h| h.0 == i) || i >= cap; held.push((i, o)); if dup { format!("O acquire {} = ?duplicate-or-out-of-range:{}", o, i) } else { format!("O acquire {} = s{}", o, i) } }
                Some(Err(e)) => format!("O acquire {} = {}", o, af(e)), None => format!("O acquire {} = P", o) },
            ROp::Release(k, lock, wrong_owner) => if held.is_empty() { "O release = skip".into() } else {
                let pos = k % held.len();
                let (i, o) = held[pos];
                let who = if wrong_owner { o + 10 } else { o };
                match guarded(|| s.release(i, OwnerId::new(who).unwrap(), mode(lock))) {
                    Some(Ok(st)) => { held.remove(pos); format!("O release {} {} {} = {}", i, who, lock as u8, rs(st)) }
                    Some(Err(_)) => format!("O release {} {} {} = eNotOwner", i, who, lock as u8),
                    None => format!("O release {} = P", i) } },
            ROp::Recover(dead, lock) => {
                let mut got = Vec::new();
                match guarded(|| s.recover(mode(lock), |owner, _idx| owner == OwnerId::new(dead).unwrap(), |_owner, idx| got.push(idx as u64))) {
                    Some(st) => { held.retain(|h| h.1 != dead || !got.contains(&(h.0 as u64))); format!("O recover {} {} = {}:{}", dead, lock as u8, rs(st), fmt_list(&got)) }
                    None => format!("O recover {} = P", dead) } }
            ROp::Borrowed => format!("O borrowed = u{} locked={}", s.borrowed_indices(), s.is_locked() as u8),
        };
        let panicked = line.ends_with("= P");
        out.push(line);
        if panicked { return false; }
        if !(s.capacity() == cap && (s.is_locked() || s.borrowed_indices() == held.len())) { out.push("O sidecheck = b0".into()); }
        true
    }
    unsafe fn finish(_l: Self::Local, _block: *mut u8, _cap: usize, _out: &mut Vec<String>) {}
}

// ------------------------------------------------------------------------------------------
pub struct BitSetS;
#[derive(Clone, Copy, Debug, PartialEq)]
pub enum BOp { Set(usize), ResetNext, ResetAll }
impl Subject for BitSetS {
    type Op = BOp;
    type Local = ();
    const NAME: &'static str = "bitset";
    const MODEL: bool = false;
    fn types() -> Vec<&'static str> { vec![tn::<RelocatableBitSet>()] }
    fn header(cap: usize) -> String { format!("C bitset reloc bit {}", cap) }
    fn caps_exh() -> Vec<usize> { vec![1, 2, 3, 9] }
    fn alphabet(cap: usize) -> Vec<BOp> { vec![BOp::Set(0), BOp::Set(1 % cap), BOp::Set(cap - 1), BOp::ResetNext, BOp::ResetAll] }
    fn random_op(rng: &mut Rng, cap: usize, bias: u64) -> BOp {
        let r = rng.below(100);
        let k = rng.below(cap as u64) as usize;
        match bias { 0 => if r < 75 { BOp::Set(k) } else if r < 97 { BOp::ResetNext } else { BOp::ResetAll },
                     1 => if r < 60 { BOp::ResetNext } else if r < 95 { BOp::Set(k) } else { BOp::ResetAll },
                     _ => if r < 50 { BOp::Set(k) } else if r < 90 { BOp::ResetNext } else { BOp::ResetAll } }
    }
    fn block_len(cap: usize) -> usize { block_len_for::<RelocatableBitSet>(cap) }
    unsafe fn build(block: *mut u8, len: usize, cap: usize) { place::<RelocatableBitSet>(block, len, cap); }
    unsafe fn apply(_l: &mut (), block: *mut u8, cap: usize, op: &BOp, out: &mut Vec<String>) -> bool {
        let s = &*(block as *const RelocatableBitSet);
        let line = match *op {
            BOp::Set(i) => match guarded(|| s.set(i)) { Some(b) => format!("O set {} = {}", i, fmt_bool(b)), None => format!("O set {} = P", i) },
            BOp::ResetNext => match guarded(|| s.reset_next()) { Some(r) => format!("O resetnext = {}", fmt_opt(r.map(|v| v as u64))), None => "O resetnext = P".into() },
            BOp::ResetAll => { let mut l = Vec::new(); match guarded(|| s.reset_all(|i| l.push(i as u64))) { Some(()) => format!("O resetall = {}", fmt_list(&l)), None => "O resetall = P".into() } }
        };
        let panicked = line.ends_with("= P");
        out.push(line);
        if panicked { return false; }
        if s.capacity() != cap { out.push("O sidecheck = b0".into()); }
        true
    }
    unsafe fn finish(_l: (), _block: *mut u8, _cap: usize, _out: &mut Vec<String>) {}
}

// ------------------------------------------------------------------------------------------
pub struct ContainerS;
#[derive(Clone, Copy, Debug, PartialEq)]
pub enum COp { Add(u64), Remove(usize, bool), State, Update, Recover(u64, bool), Len }
pub struct CLocal { next: u64, handles: Vec<ContainerHandle>, state: Option<ContainerState<u64>> }
type CT = Container<u64>;
fn listing(st: &ContainerState<u64>) -> String {
    let mut l = Vec::new();
    st.for_each(|i, v| { l.push(i as u64); l.push(*v); CallbackProgression::Continue });
    fmt_list(&l)
}
impl Subject for ContainerS {
    type Op = COp;
    type Local = CLocal;
    const NAME: &'static str = "container";
    const MODEL: bool = false;
    fn types() -> Vec<&'static str> { vec![tn::<CT>()] }
    fn header(cap: usize) -> String { format!("C container reloc u64 {}", cap) }
    fn alphabet(_cap: usize) -> Vec<COp> {
        vec![COp::Add(1), COp::Add(2), COp::Remove(0, false), COp::Remove(1, false), COp::Remove(0, true), COp::State, COp::Update, COp::Recover(1, false), COp::Len]
    }
    fn random_op(rng: &mut Rng, cap: usize, bias: u64) -> COp {
        let r = rng.below(100);
        let k = rng.below(cap as u64 + 1) as usize;
        let o = 1 + rng.below(3);
        match bias { 0 => if r < 60 { COp::Add(o) } else if r < 80 { COp::Remove(k, false) } else if r < 92 { COp::Update } else { COp::Len },
                     1 => if r < 55 { COp::Remove(k, false) } else if r < 80 { COp::Add(o) } else if r < 90 { COp::Update } else if r < 95 { COp::Recover(o, false) } else if r < 98 { COp::State } else { COp::Remove(k, true) },
                     _ => if r < 40 { COp::Add(o) } else if r < 75 { COp::Remove(k, false) } else if r < 90 { COp::Update } else if r < 98 { COp::Recover(o, false) } else { COp::Recover(o, true) } }
    }
    fn block_len(cap: usize) -> usize { block_len_for::<CT>(cap) + 64 }
    unsafe fn build(block: *mut u8, len: usize, cap: usize) -> CLocal { place::<CT>(block, len, cap); CLocal { next: 100, handles: Vec::new(), state: None } }
    unsafe fn apply(l: &mut CLocal, block: *mut u8, cap: usize, op: &COp, out: &mut Vec<String>) -> bool {
        let c = &*(block as *const CT);
        let line = match *op {
            COp::Add(o) => { let v = l.next; l.next += 1;
                match guarded(|| c.add(v, OwnerId::new(o).unwrap())) {
                    // the returned pointer is observed as an offset from the CURRENT block base and read back
                    Some(Ok((p, h))) => { let off = p as usize - block as usize; let rd = *p; l.handles.push(h); format!("O add {} {} = s{}@{} read={}", v, o, h.index(), off, rd) }
                    Some(Err(e)) => format!("O add {} {} = {:?}", v, o, e), None => format!("O add {} = P", v) } }
            COp::Remove(k, lock) => if l.handles.is_empty() { "O remove = skip".into() } else {
                let h = l.handles.remove(k % l.handles.len());
                match guarded(|| c.remove(h, mode(lock))) { Some(Ok(st)) => format!("O remove {} {} = {}", h.index(), lock as u8, rs(st)), Some(Err(e)) => format!("O remove {} = {:?}", h.index(), e), None => format!("O remove {} = P", h.index()) } },
            COp::State => match guarded(|| c.get_state()) { Some(st) => { let s = listing(&st); l.state = Some(st); format!("O state = {}", s) } None => "O state = P".into() },
            COp::Update => { if l.state.is_none() { l.state = Some(c.get_state()); }
                let st = l.state.as_mut().unwrap();
                match guarded(|| c.update_state(st)) { Some(ch) => format!("O update = {}:{}", fmt_bool(ch), listing(st)), None => "O update = P".into() } }
            COp::Recover(dead, lock) => match guarded(|| c.recover(OwnerId::new(dead).unwrap(), |_v| true, mode(lock))) {
                Some(st) => { let alive = c.get_state(); l.handles.retain(|h| alive.get(h.index()).is_some()); format!("O recover {} {} = {}:{}", dead, lock as u8, rs(st), listing(&alive)) }
                None => format!("O recover {} = P", dead) },
            COp::Len => format!("O len = u{} locked={}", c.len(), c.is_locked() as u8),
        };
        let panicked = line.ends_with("= P");
        out.push(line);
        if panicked { return false; }
        if !(c.capacity() == cap && (c.is_locked() || c.len() == l.handles.len())) { out.push(format!("O sidecheck = b0 len={} handles={}", c.len(), l.handles.len())); }
        true
    }
    unsafe fn finish(_l: CLocal, _block: *mut u8, _cap: usize, _out: &mut Vec<String>) {}
}
