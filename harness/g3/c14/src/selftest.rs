//! Self-test of the harness (no iceoryx2 code): two deliberately position-DEPENDENT structures.
//! `AbsFault` keeps an absolute pointer to its payload in the header (what OwningPointer would
//! do): after a relocation the next access must fault on the poisoned, inaccessible old block.
//! `AbsDiverge` stores its own address as an integer and compares it with where it is now:
//! the observation must differ from the unrelocated run.  ./check C14 runs both on every run
//! and fails if the relocation machinery has lost its power to detect them.
use crate::common::*;
use crate::Subject;

#[repr(C)]
struct AbsHdr { data: *mut u64, len: u64, cap: u64, self_addr: usize }

#[derive(Clone, Copy, Debug, PartialEq)]
pub enum TOp { Push, Read(usize), Where }

unsafe fn t_build(block: *mut u8, cap: usize) {
    let h = block as *mut AbsHdr;
    h.write(AbsHdr { data: block.add(64) as *mut u64, len: 0, cap: cap as u64, self_addr: block as usize });
}

pub struct AbsFault;
impl Subject for AbsFault {
    type Op = TOp;
    type Local = u64;
    const NAME: &'static str = "selftest-fault";
    const MODEL: bool = false;
    fn types() -> Vec<&'static str> { vec![] }
    fn header(cap: usize) -> String { format!("C selftest-fault abs u64 {}", cap) }
    fn caps_exh() -> Vec<usize> { vec![2] }
    fn caps_rnd() -> Vec<usize> { vec![2] }
    fn alphabet(_cap: usize) -> Vec<TOp> { vec![TOp::Push, TOp::Read(0)] }
    fn random_op(rng: &mut Rng, _cap: usize, _bias: u64) -> TOp { if rng.below(2) == 0 { TOp::Push } else { TOp::Read(0) } }
    fn block_len(cap: usize) -> usize { 64 + 8 * cap + 64 }
    unsafe fn build(block: *mut u8, _len: usize, cap: usize) -> u64 { t_build(block, cap); 1 }
    unsafe fn apply(next: &mut u64, block: *mut u8, _cap: usize, op: &TOp, out: &mut Vec<String>) -> bool {
        let h = &mut *(block as *mut AbsHdr);
        match *op {
            TOp::Push => { if h.len < h.cap { core::ptr::write_volatile(h.data.add(h.len as usize), *next); h.len += 1; out.push(format!("O push {} = b1", *next)); } else { out.push(format!("O push {} = b0", *next)); } *next += 1; }
            TOp::Read(i) => { if (i as u64) < h.len { out.push(format!("O read {} = u{}", i, core::ptr::read_volatile(h.data.add(i)))); } else { out.push(format!("O read {} = n", i)); } }
            TOp::Where => out.push("O where = -".into()),
        }
        true
    }
    unsafe fn finish(_l: u64, _block: *mut u8, _cap: usize, _out: &mut Vec<String>) {}
}

pub struct AbsDiverge;
impl Subject for AbsDiverge {
    type Op = TOp;
    type Local = u64;
    const NAME: &'static str = "selftest-diverge";
    const MODEL: bool = false;
    fn types() -> Vec<&'static str> { vec![] }
    fn header(cap: usize) -> String { format!("C selftest-diverge abs u64 {}", cap) }
    fn caps_exh() -> Vec<usize> { vec![2] }
    fn caps_rnd() -> Vec<usize> { vec![2] }
    fn alphabet(_cap: usize) -> Vec<TOp> { vec![TOp::Where] }
    fn random_op(_rng: &mut Rng, _cap: usize, _bias: u64) -> TOp { TOp::Where }
    fn block_len(cap: usize) -> usize { 64 + 8 * cap + 64 }
    unsafe fn build(block: *mut u8, _len: usize, cap: usize) -> u64 { t_build(block, cap); 1 }
    unsafe fn apply(_next: &mut u64, block: *mut u8, _cap: usize, _op: &TOp, out: &mut Vec<String>) -> bool {
        let h = &*(block as *const AbsHdr);
        out.push(format!("O where = {}", fmt_bool(h.self_addr == block as usize)));
        true
    }
    unsafe fn finish(_l: u64, _block: *mut u8, _cap: usize, _out: &mut Vec<String>) {}
}
