//! G3 correspondence harness for C06: executes create / open / open_or_create / drop histories
//! on ONE service name through the public iceoryx2 API (1..3 nodes of one process, ipc or local
//! service type) and prints one canonical observation per operation for ocaml/c06/driver.
//!
//! usage: c06 hist   <svc> <pat> <nnodes> <len> <shard> <nshards>
//!        c06 matrix <svc> <pat> <defmode> <shard> <nshards> <seed> <nrandom>
//!        c06 one    <svc> <pat> <defmode> <nnodes> <op> <op> ...   (ops: create_0_<req> open_1_<req> ooc_2_<req> drop_0)
//!   svc     = ipc | local        pat = ps | ev | rr | bb        defmode = lib | small1 | small2
//! output:
//!   C <svc> pat=<p> nodes=<n> def=<defaults of the QoS fields in verify order>
//!   O create|open|ooc <node> <req> T=<type details asked for> = ok <digest of static_config()> | err <error> | ex=<does_exist> li=<services listed> ls=<static>,<dynamic>,<tags>
//!   O drop <k> = ok | none | ex=.. ls=..            (k-th live handle in creation order)
//!   O end = ok | ex=.. ls=..                        (after dropping whatever is still held)
extern crate iceoryx2_bb_loggers;

use std::io::Write;
use std::panic::{catch_unwind, AssertUnwindSafe};

use iceoryx2::prelude::*;
use iceoryx2::service::Service;
use iceoryx2_bb_container::semantic_string::SemanticString;
use iceoryx2_bb_system_types::file_name::FileName;
use iceoryx2_bb_system_types::path::Path;

mod svc;
use svc::*;

pub struct Rng(pub u64);
impl Rng {
    pub fn next(&mut self) -> u64 {
        self.0 = self.0.wrapping_add(0x9E3779B97F4A7C15);
        let mut z = self.0;
        z = (z ^ (z >> 30)).wrapping_mul(0xBF58476D1CE4E5B9);
        z = (z ^ (z >> 27)).wrapping_mul(0x94D049BB133111EB);
        z ^ (z >> 31)
    }
    pub fn below(&mut self, n: u64) -> u64 {
        if n == 0 { 0 } else { self.next() % n }
    }
}

#[derive(Clone, Debug)]
enum Op {
    Svc(Kind, usize, Req),
    Drop(usize),
}

struct Env {
    root: String,
    prefix: String,
    is_ipc: bool,
}

impl Env {
    fn remove_leftovers(&self) {
        if let Ok(rd) = std::fs::read_dir("/dev/shm") {
            for e in rd.flatten() {
                let n = e.file_name().to_string_lossy().to_string();
                if n.starts_with(&self.prefix) && n.ends_with(".dynamic") {
                    let _ = std::fs::remove_file(e.path());
                }
            }
        }
        let _ = std::fs::remove_dir_all(format!("{}/services", self.root));
    }

    /// (static configs, dynamic configs, service tags) present right now
    /// `full` = also count the dynamic config segments: that means reading /dev/shm, which every other test on the machine
    /// fills as well, so it is done only where a left-over would show (failed operations, drops, end of the history)
    fn listing(&self, full: bool) -> String {
        if !self.is_ipc {
            return "-".into();
        }
        let mut st = 0;
        let mut tg = 0;
        let mut dy = 0;
        fn walk(p: &std::path::Path, st: &mut u32, tg: &mut u32) {
            if let Ok(rd) = std::fs::read_dir(p) {
                for e in rd.flatten() {
                    let path = e.path();
                    if path.is_dir() {
                        walk(&path, st, tg);
                    } else {
                        let n = e.file_name().to_string_lossy().to_string();
                        if n.ends_with(".service") { *st += 1; }
                        if n.ends_with(".service_tag") { *tg += 1; }
                    }
                }
            }
        }
        walk(std::path::Path::new(&self.root), &mut st, &mut tg);
        if !full {
            return format!("{},-,{}", st, tg);
        }
        if let Ok(rd) = std::fs::read_dir("/dev/shm") {
            for e in rd.flatten() {
                let n = e.file_name().to_string_lossy().to_string();
                if n.starts_with(&self.prefix) && n.ends_with(".dynamic") { dy += 1; }
            }
        }
        format!("{},{},{}", st, dy, tg)
    }
}

struct Runner<'a, S: Service + 'static> {
    env: &'a Env,
    config: &'a Config,
    nodes: &'a [Node<S>],
    pat: Pat,
    svc_text: &'a str,
    name_ctr: u64,
    out: std::io::BufWriter<std::io::Stdout>,
    cases: u64,
}

impl<'a, S: Service + 'static> Runner<'a, S> {
    fn line(&mut self, s: &str) {
        let _ = self.out.write_all(s.as_bytes());
        let _ = self.out.write_all(b"\n");
    }

    fn name(&self) -> ServiceName {
        ServiceName::new(&format!("c06/{}/{}", std::process::id(), self.name_ctr)).expect("service name")
    }

    fn run_case(&mut self, nnodes: usize, ops: &[Op]) {
        let name = self.name();
        self.cases += 1;
        let h = format!("C {} pat={} nodes={} def={}", self.svc_text, self.pat.text(), nnodes, defaults_text(self.config, self.pat));
        self.line(&h);
        let mut handles: Vec<Handle> = vec![];
        let mut dirty = self.cases % 32 == 1;      // every 32nd history is scanned in any case
        for op in ops {
            let (head, obs) = match op {
                Op::Svc(kind, node, req) => {
                    let head = format!("{} {} {} T={}", kind.text(), node, req.text(self.pat), req_types_text(self.pat, req));
                    let nd = &self.nodes[*node];
                    let r = catch_unwind(AssertUnwindSafe(|| run_op::<S>(nd, &name, self.pat, *kind, req)));
                    let obs = match r {
                        Ok(Ok(hd)) => { let o = format!("ok {}", hd.digest); handles.push(hd); o }
                        Ok(Err(e)) => format!("err {}", e),
                        Err(_) => "panic".to_string(),
                    };
                    (head, obs)
                }
                Op::Drop(k) => {
                    let head = format!("drop {}", k);
                    let obs = if *k < handles.len() {
                        let hd = handles.remove(*k);
                        match catch_unwind(AssertUnwindSafe(move || drop(hd))) { Ok(_) => "ok".to_string(), Err(_) => "panic".to_string() }
                    } else { "none".to_string() };
                    (head, obs)
                }
            };
            // a failed or panicking create / open_or_create is where a left-over would come from
            let suspicious = obs == "panic" || (obs.starts_with("err c:") && !obs.contains("AlreadyExists"));
            if suspicious { dirty = true; }
            // Service::list is costly: taken where leftovers would show (after every failed or panicking operation, and at the end)
            let li = if obs.starts_with("ok") || obs == "none" { String::new() } else { format!(" li={}", list_count::<S>(self.config)) };
            let l = format!("O {} = {} | ex={}{} ls={}", head, obs, exists::<S>(&name, self.config, self.pat), li, self.env.listing(suspicious));
            self.line(&l);
        }
        while !handles.is_empty() {
            let hd = handles.remove(0);
            let _ = catch_unwind(AssertUnwindSafe(move || drop(hd)));
        }
        let ex = exists::<S>(&name, self.config, self.pat);
        let ls = self.env.listing(dirty);
        let l = format!("O end = ok | ex={} li={} ls={}", ex, list_count::<S>(self.config), ls);
        self.line(&l);
        if ex != 0 || (self.env.is_ipc && ls != "0,0,0" && ls != "0,-,0") {
            // something was left behind (it has been reported in the `end` line): do not let it
            // pollute the next history
            self.name_ctr += 1;
            self.env.remove_leftovers();
        }
    }
}

fn hist_settings(pat: Pat) -> [Req; 2] {
    let mut a = Req::unset(pat);
    let mut b = Req::unset(pat);
    let (f, mn) = match pat {
        Pat::Ps => (0, 6),
        Pat::Ev => (0, 3),
        Pat::Rr => (3, 9),
        Pat::Bb => (0, 1),
    };
    a.vals[f] = Some(1);
    a.vals[mn] = Some(2);
    b.vals[f] = Some(2);
    b.vals[mn] = Some(1);
    [a, b]
}

fn alphabet(pat: Pat, nnodes: usize) -> Vec<Op> {
    let mut v = vec![];
    let st = hist_settings(pat);
    for n in 0..nnodes {
        for k in [Kind::Create, Kind::Open, Kind::Ooc] {
            if pat == Pat::Bb && k == Kind::Ooc { continue; }
            for s in st.iter() {
                v.push(Op::Svc(k, n, s.clone()));
            }
        }
    }
    for k in 0..3 {
        v.push(Op::Drop(k));
    }
    v
}

/// nodes appear in order of first use; a drop never names a handle that cannot exist yet
fn canonical(ops: &[Op], nnodes: usize) -> bool {
    let mut next_node = 0;
    let mut made = 0;
    for o in ops {
        match o {
            Op::Svc(_, n, _) => {
                if *n > next_node { return false; }
                if *n == next_node { next_node += 1; }
                made += 1;
            }
            Op::Drop(k) => {
                if *k >= made { return false; }
            }
        }
    }
    // every history of the n-node run uses at most n nodes; shorter node sets are other runs
    let _ = nnodes;
    true
}

fn run_hist<S: Service + 'static>(r: &mut Runner<S>, nnodes: usize, len: usize, shard: u64, nshards: u64) {
    let alpha = alphabet(r.pat, nnodes);
    let a = alpha.len();
    let total = (a as u64).pow(len as u32);
    let mut idx = vec![0usize; len];
    let mut count = 0u64;
    for i in 0..total {
        let mut x = i;
        for j in (0..len).rev() {
            idx[j] = (x % a as u64) as usize;
            x /= a as u64;
        }
        let ops: Vec<Op> = idx.iter().map(|k| alpha[*k].clone()).collect();
        if !canonical(&ops, nnodes) { continue; }
        count += 1;
        if count % nshards != shard { continue; }
        r.run_case(nnodes, &ops);
    }
}

fn num_domain(kind: char) -> Vec<Option<u64>> {
    match kind {
        'b' => vec![None, Some(0), Some(1)],
        _ => vec![None, Some(0), Some(1), Some(2)],
    }
}

fn matrix_case(c: &Req, o: &Req, pat: Pat) -> Vec<Op> {
    let mut v = vec![Op::Svc(Kind::Create, 0, c.clone()), Op::Svc(Kind::Open, 1, o.clone())];
    if pat != Pat::Bb {
        v.push(Op::Svc(Kind::Ooc, 2, o.clone()));
    }
    v.push(Op::Drop(0));
    v.push(Op::Drop(0));
    v.push(Op::Drop(0));
    if pat != Pat::Bb {
        v.push(Op::Svc(Kind::Ooc, 0, o.clone()));
    } else {
        v.push(Op::Svc(Kind::Create, 0, o.clone()));
    }
    v.push(Op::Svc(Kind::Open, 1, c.clone()));
    v
}

fn type_codes(pat: Pat) -> Vec<(u8, u8)> {
    match pat {
        Pat::Ps => vec![(0, 0), (1, 0), (2, 0), (3, 0), (4, 0)],
        Pat::Bb => vec![(0, 0), (1, 0), (2, 0)],
        Pat::Ev => vec![(0, 0)],
        Pat::Rr => vec![(0, 0), (1, 0), (3, 0), (4, 0), (0, 2), (1, 2), (3, 2), (4, 2)],
    }
}

fn run_matrix<S: Service + 'static>(r: &mut Runner<S>, shard: u64, nshards: u64, seed: u64, nrandom: u64) {
    let pat = r.pat;
    let kinds: Vec<char> = pat.kinds().chars().collect();
    let nf = pat.nfields();
    let mut cases: Vec<Vec<Op>> = vec![];
    let base_types: Vec<u8> = if pat == Pat::Ps || pat == Pat::Rr { vec![0, 4] } else { vec![0] };
    // (a) one field: creator value x opener requirement
    for &ty in &base_types {
        for f in 0..nf {
            for cv in num_domain(kinds[f]) {
                for ov in num_domain(kinds[f]) {
                    let mut c = Req::unset(pat);
                    let mut o = Req::unset(pat);
                    c.ty = ty;
                    o.ty = ty;
                    c.vals[f] = cv;
                    o.vals[f] = ov;
                    cases.push(matrix_case(&c, &o, pat));
                }
            }
        }
    }
    // (b) two fields: which failing requirement is reported
    for f in 0..nf {
        for g in (f + 1)..nf {
            let dom = |k: char| -> Vec<Option<u64>> { if k == 'b' { vec![None, Some(0), Some(1)] } else { vec![None, Some(1), Some(2)] } };
            for fv in dom(kinds[f]) {
                for gv in dom(kinds[g]) {
                    let mut c = Req::unset(pat);
                    let mut o = Req::unset(pat);
                    c.vals[f] = Some(1);
                    c.vals[g] = Some(1);
                    o.vals[f] = fv;
                    o.vals[g] = gv;
                    cases.push(matrix_case(&c, &o, pat));
                }
            }
        }
    }
    // (c) payload / key types and alignments
    for (ca, cb) in type_codes(pat) {
        for (oa, ob) in type_codes(pat) {
            let mut c = Req::unset(pat);
            let mut o = Req::unset(pat);
            c.ty = ca; c.ty2 = cb; o.ty = oa; o.ty2 = ob;
            cases.push(matrix_case(&c, &o, pat));
            // a failing QoS requirement together with a type mismatch: the type is reported
            let mut o2 = o.clone();
            let mut c2 = c.clone();
            c2.vals[nf - 1] = Some(1);
            o2.vals[nf - 1] = Some(2);
            cases.push(matrix_case(&c2, &o2, pat));
        }
    }
    // (d) attributes
    let defs: Vec<Vec<(u8, u8)>> = vec![vec![], vec![(1, 1)], vec![(1, 1), (2, 2)], vec![(1, 2), (1, 1)]];
    let reqs: Vec<Vec<(u8, u8)>> = vec![vec![], vec![(1, 1)], vec![(1, 2)], vec![(2, 2)], vec![(1, 1), (2, 1)]];
    let rks: Vec<Vec<u8>> = vec![vec![], vec![1], vec![2], vec![3]];
    for d in &defs {
        for q in &reqs {
            for k in &rks {
                let mut c = Req::unset(pat);
                let mut o = Req::unset(pat);
                c.define = d.clone();
                o.require = q.clone();
                o.require_keys = k.clone();
                // incompatible attribute AND failing QoS field: attributes are checked first
                let f0 = kinds.iter().position(|c| *c == 'n').unwrap();
                c.vals[f0] = Some(1);
                o.vals[f0] = Some(if k.len() == 1 && k[0] == 3 { 2 } else { 1 });
                cases.push(matrix_case(&c, &o, pat));
            }
        }
    }
    // (e) creation-time validity
    if pat == Pat::Ps {
        for &ty in &base_types {
            for so in [None, Some(0), Some(1)] {
                for bsz in num_domain('n') {
                    for hs in num_domain('n') {
                        let mut c = Req::unset(pat);
                        c.ty = ty;
                        c.vals[5] = so;
                        c.vals[2] = bsz;
                        c.vals[3] = hs;
                        let mut o = Req::unset(pat);
                        o.ty = ty;
                        cases.push(matrix_case(&c, &o, pat));
                        // ... also when the service already exists (which error wins?)
                        cases.push(vec![Op::Svc(Kind::Create, 0, o.clone()), Op::Svc(Kind::Create, 1, c.clone()), Op::Svc(Kind::Ooc, 1, c.clone())]);
                    }
                }
            }
        }
    }
    if pat == Pat::Bb {
        let mut c = Req::unset(pat);
        c.no_entries = true;
        let o = Req::unset(pat);
        cases.push(matrix_case(&c, &o, pat));
        cases.push(vec![Op::Svc(Kind::Create, 0, o.clone()), Op::Svc(Kind::Create, 1, c.clone())]);
    }
    // (g) a create that fails AFTER the static config was written must leave nothing behind
    {
        let mut bad = Req::unset(pat);
        let mut good = Req::unset(pat);
        good.vals[kinds.iter().position(|c| *c == 'n').unwrap()] = Some(2);
        let plain = Req::unset(pat);
        let fails = match pat { Pat::Ps => { bad.ty = 5; true } Pat::Bb => { bad.dup_key = true; true } _ => false };
        if fails {
            let mut v = vec![Op::Svc(Kind::Create, 0, bad.clone()), Op::Svc(Kind::Open, 1, plain.clone()), Op::Svc(Kind::Open, 1, bad.clone())];
            if pat != Pat::Bb { v.push(Op::Svc(Kind::Ooc, 2, bad.clone())); } else { v.push(Op::Svc(Kind::Create, 2, bad.clone())); }
            v.push(Op::Svc(Kind::Create, 0, good.clone()));
            v.push(Op::Svc(Kind::Open, 1, plain.clone()));
            v.push(Op::Svc(Kind::Open, 2, good.clone()));
            v.push(Op::Drop(0)); v.push(Op::Drop(0)); v.push(Op::Drop(0));
            v.push(Op::Svc(Kind::Open, 1, plain.clone()));
            cases.push(v);
            // ... and while the service exists the failing create reports AlreadyExists and changes nothing
            cases.push(vec![Op::Svc(Kind::Create, 0, plain.clone()), Op::Svc(Kind::Create, 1, bad.clone()), Op::Svc(Kind::Open, 1, plain.clone()), Op::Drop(0), Op::Drop(0), Op::Svc(Kind::Create, 1, bad.clone()), Op::Svc(Kind::Create, 1, good.clone())]);
        }
    }
    // (f) random full settings
    let mut rng = Rng(seed ^ (pat as u64).wrapping_mul(0x1234567));
    let tcs = type_codes(pat);
    for _ in 0..nrandom {
        let mut c = Req::unset(pat);
        let mut o = Req::unset(pat);
        for f in 0..nf {
            let d = num_domain(kinds[f]);
            c.vals[f] = d[rng.below(d.len() as u64) as usize];
            o.vals[f] = d[rng.below(d.len() as u64) as usize];
        }
        let (a, b) = tcs[rng.below(tcs.len() as u64) as usize];
        c.ty = a; c.ty2 = b;
        if rng.below(4) == 0 {
            let (a2, b2) = tcs[rng.below(tcs.len() as u64) as usize];
            o.ty = a2; o.ty2 = b2;
        } else {
            o.ty = a; o.ty2 = b;
        }
        cases.push(matrix_case(&c, &o, pat));
    }
    for (i, c) in cases.iter().enumerate() {
        if (i as u64) % nshards != shard { continue; }
        r.run_case(3, c);
    }
}

fn parse_op(pat: Pat, t: &str) -> Op {
    let mut it = t.splitn(3, '_');
    let k = it.next().unwrap();
    match k {
        "drop" => Op::Drop(it.next().unwrap().parse().unwrap()),
        _ => {
            let kind = match k { "create" => Kind::Create, "open" => Kind::Open, "ooc" => Kind::Ooc, o => panic!("op {}", o) };
            let node: usize = it.next().unwrap().parse().unwrap();
            let req = Req::parse(pat, it.next().unwrap_or("-"));
            Op::Svc(kind, node, req)
        }
    }
}

fn go<S: Service + 'static>(env: &Env, config: &Config, args: &[String]) {
    let pat = Pat::parse(&args[2]);
    let nodes: Vec<Node<S>> = (0..3).map(|_| NodeBuilder::new().config(config).create::<S>().expect("node")).collect();
    let mut r = Runner::<S> { env, config, nodes: &nodes, pat, svc_text: &args[1], name_ctr: 0,
        out: std::io::BufWriter::with_capacity(1 << 16, std::io::stdout()), cases: 0 };
    let num = |i: usize| -> u64 { args[i].parse().expect("number") };
    match args[0].as_str() {
        "hist" => run_hist(&mut r, num(3) as usize, num(4) as usize, num(5), num(6)),
        "matrix" => run_matrix(&mut r, num(4), num(5), num(6), num(7)),
        "one" => {
            let ops: Vec<Op> = args[5..].iter().map(|t| parse_op(pat, t)).collect();
            r.run_case(num(4) as usize, &ops);
        }
        o => panic!("mode {}", o),
    }
    let _ = r.out.flush();
    drop(r);
    drop(nodes);
}

fn main() {
    iceoryx2_log::set_log_level(iceoryx2_log::LogLevel::Fatal);
    std::panic::set_hook(Box::new(|_| {}));
    let args: Vec<String> = std::env::args().skip(1).collect();
    if args.len() < 4 {
        eprintln!("usage: see source header");
        std::process::exit(2);
    }
    let pid = std::process::id();
    let base = std::env::var("VERIF_C06_ROOT").unwrap_or_else(|_| format!("/var/tmp/verif-c06-{}", pid));
    let root = format!("{}/g3-{}", base, pid);
    std::fs::create_dir_all(&root).expect("private root");
    let prefix = format!("c06g3_{}_", pid);
    let mut config = Config::default();
    config.global.prefix = FileName::new(prefix.as_bytes()).unwrap();
    config.global.set_root_path(&Path::new(root.as_bytes()).unwrap());
    config.global.creation_timeout = core::time::Duration::from_millis(40);
    let defmode = match args[0].as_str() { "hist" => "lib", _ => args[3].as_str() };
    match defmode {
        "lib" => (),
        "small1" => set_small_defaults(&mut config, 1),
        "small2" => set_small_defaults(&mut config, 2),
        o => panic!("defmode {}", o),
    }
    let env = Env { root: root.clone(), prefix: prefix.clone(), is_ipc: args[1] == "ipc" };
    let res = catch_unwind(AssertUnwindSafe(|| match args[1].as_str() {
        "ipc" => go::<ipc::Service>(&env, &config, &args),
        "local" => go::<local::Service>(&env, &config, &args),
        o => panic!("service type {}", o),
    }));
    // clean up: private root, and whatever carries our prefix in /dev/shm
    let _ = std::fs::remove_dir_all(&root);
    let _ = std::fs::remove_dir(&base);
    if let Ok(rd) = std::fs::read_dir("/dev/shm") {
        for e in rd.flatten() {
            if e.file_name().to_string_lossy().starts_with(&prefix) {
                let _ = std::fs::remove_file(e.path());
            }
        }
    }
    if res.is_err() {
        std::process::exit(3);
    }
}
