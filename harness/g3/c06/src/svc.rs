//! Shared between harness/g3/c06 (G3 histories + settings matrix) and harness/g2/c06 (one
//! service operation per command under libgate): performs ONE create / open / open_or_create
//! of a service through the public iceoryx2 API with the settings given as text, and renders
//! the static_config() of the obtained handle canonically.
//!
//! Requirement text (one blank-free token):   ty=<a>[/<b>];v=<v0>,<v1>,...[;at=k:v+k:v][;rq=k:v+..][;rk=k+k][;ne]
//!   ty   payload type code (request/response for request-response, key type for blackboard):
//!        0 u64 | 1 i64 (same layout, other name) | 2 u32 (other size) | 3 u64 with payload
//!        alignment 16 | 4 [u64] (slice, i.e. other variant; slice builders are separate impls)
//!        | 5 Flatbuffer<u64> (publish-subscribe only: creation needs a schema file that does not exist)
//!   v    one entry per QoS field of the pattern in the order of verify_service_configuration,
//!        `-` = setter not called.  Option-valued event fields: 0 = disable_*, k>0 = Some(k-1)
//!        (deadline: k ms).  Bool fields: 0 / 1.
//!   at   attributes defined on create (AttributeSpecifier)     rq  required key=value pairs
//!   rk   required keys (AttributeVerifier)                      ne  blackboard: add no entry
//!   dk   blackboard: add the same key twice (the management segment's initializer fails)
//! Field order:
//!   ps: max_publishers max_subscribers subscriber_max_buffer_size history_size
//!       subscriber_max_borrowed_samples enable_safe_overflow max_nodes
//!   ev: max_notifiers max_listeners event_id_max_value max_nodes notifier_created_event
//!       notifier_dropped_event notifier_dead_event deadline
//!   rr: enable_safe_overflow_for_requests enable_safe_overflow_for_responses
//!       enable_fire_and_forget_requests max_active_requests_per_client max_loaned_requests
//!       max_borrowed_responses_per_pending_response max_response_buffer_size max_servers
//!       max_clients max_nodes
//!   bb: max_readers max_nodes
use core::any::Any;
use core::time::Duration;

use iceoryx2::prelude::*;
use iceoryx2::service::attribute::{AttributeSpecifier, AttributeVerifier};
use iceoryx2::service::port_factory::PortFactory;
use iceoryx2::service::static_config::message_type_details::{TypeDetail, TypeVariant};
use iceoryx2::service::Service;

#[derive(Clone, Copy, Debug, PartialEq, Eq)]
pub enum Pat {
    Ps,
    Ev,
    Rr,
    Bb,
}

impl Pat {
    pub fn parse(s: &str) -> Pat {
        match s {
            "ps" => Pat::Ps,
            "ev" => Pat::Ev,
            "rr" => Pat::Rr,
            "bb" => Pat::Bb,
            o => panic!("pattern {}", o),
        }
    }
    pub fn text(&self) -> &'static str {
        match self {
            Pat::Ps => "ps",
            Pat::Ev => "ev",
            Pat::Rr => "rr",
            Pat::Bb => "bb",
        }
    }
    pub fn nfields(&self) -> usize {
        match self {
            Pat::Ps => 7,
            Pat::Ev => 8,
            Pat::Rr => 10,
            Pat::Bb => 2,
        }
    }
    /// field kinds: 'n' = number compared with >=, 'b' = bool compared with ==, 'o' = option compared with ==
    pub fn kinds(&self) -> &'static str {
        match self {
            Pat::Ps => "nnnnnbn",
            Pat::Ev => "nnnnoooo",
            Pat::Rr => "bbbnnnnnnn",
            Pat::Bb => "nn",
        }
    }
    pub fn messaging_pattern(&self) -> MessagingPattern {
        match self {
            Pat::Ps => MessagingPattern::PublishSubscribe,
            Pat::Ev => MessagingPattern::Event,
            Pat::Rr => MessagingPattern::RequestResponse,
            Pat::Bb => MessagingPattern::Blackboard,
        }
    }
}

#[derive(Clone, Copy, Debug, PartialEq, Eq)]
pub enum Kind {
    Create,
    Open,
    Ooc,
}

impl Kind {
    pub fn text(&self) -> &'static str {
        match self {
            Kind::Create => "create",
            Kind::Open => "open",
            Kind::Ooc => "ooc",
        }
    }
}

#[derive(Clone, Debug, Default, PartialEq)]
pub struct Req {
    pub ty: u8,
    pub ty2: u8,
    pub vals: Vec<Option<u64>>,
    pub define: Vec<(u8, u8)>,
    pub require: Vec<(u8, u8)>,
    pub require_keys: Vec<u8>,
    pub no_entries: bool,
    pub dup_key: bool,
}

impl Req {
    pub fn unset(p: Pat) -> Req {
        Req { vals: vec![None; p.nfields()], ..Default::default() }
    }

    pub fn parse(p: Pat, s: &str) -> Req {
        let mut r = Req::unset(p);
        let pairs = |t: &str| -> Vec<(u8, u8)> {
            t.split('+')
                .filter(|x| !x.is_empty())
                .map(|kv| {
                    let (k, v) = kv.split_once(':').expect("k:v");
                    (k.parse().unwrap(), v.parse().unwrap())
                })
                .collect()
        };
        for part in s.split(';') {
            if part.is_empty() || part == "-" {
                continue;
            }
            if part == "ne" {
                r.no_entries = true;
                continue;
            }
            if part == "dk" {
                r.dup_key = true;
                continue;
            }
            let (k, v) = part.split_once('=').expect("key=value");
            match k {
                "ty" => {
                    let mut it = v.split('/');
                    r.ty = it.next().unwrap().parse().unwrap();
                    r.ty2 = it.next().map(|x| x.parse().unwrap()).unwrap_or(0);
                }
                "v" => {
                    let vs: Vec<Option<u64>> = v
                        .split(',')
                        .map(|x| if x == "-" { None } else { Some(x.parse().expect("number")) })
                        .collect();
                    assert!(vs.len() == p.nfields(), "wrong number of values for {:?}", p);
                    r.vals = vs;
                }
                "at" => r.define = pairs(v),
                "rq" => r.require = pairs(v),
                "rk" => r.require_keys = v.split('+').filter(|x| !x.is_empty()).map(|x| x.parse().unwrap()).collect(),
                o => panic!("requirement part {}", o),
            }
        }
        r
    }

    pub fn text(&self, p: Pat) -> String {
        let mut s = String::new();
        if p == Pat::Rr {
            s.push_str(&format!("ty={}/{}", self.ty, self.ty2));
        } else {
            s.push_str(&format!("ty={}", self.ty));
        }
        s.push_str(";v=");
        s.push_str(&self.vals.iter().map(|v| v.map(|x| x.to_string()).unwrap_or("-".into())).collect::<Vec<_>>().join(","));
        let pr = |l: &Vec<(u8, u8)>| l.iter().map(|(k, v)| format!("{}:{}", k, v)).collect::<Vec<_>>().join("+");
        if !self.define.is_empty() {
            s.push_str(&format!(";at={}", pr(&self.define)));
        }
        if !self.require.is_empty() {
            s.push_str(&format!(";rq={}", pr(&self.require)));
        }
        if !self.require_keys.is_empty() {
            s.push_str(&format!(";rk={}", self.require_keys.iter().map(|k| k.to_string()).collect::<Vec<_>>().join("+")));
        }
        if self.no_entries {
            s.push_str(";ne");
        }
        if self.dup_key {
            s.push_str(";dk");
        }
        s
    }

    fn specifier(&self) -> AttributeSpecifier {
        let mut a = AttributeSpecifier::new();
        for (k, v) in &self.define {
            a = a.define(&key(*k), &val(*v)).expect("define");
        }
        a
    }

    /// open_or_create takes ONE AttributeVerifier: required pairs double as the attributes defined on creation
    fn verifier(&self) -> AttributeVerifier {
        let mut a = AttributeVerifier::new();
        for (k, v) in &self.require {
            a = a.require(&key(*k), &val(*v)).expect("require");
        }
        for k in &self.require_keys {
            a = a.require_key(&key(*k)).expect("require_key");
        }
        a
    }
}

fn key(k: u8) -> iceoryx2::service::attribute::AttributeKey {
    use iceoryx2_bb_container::semantic_string::SemanticString;
    iceoryx2::service::attribute::AttributeKey::new(format!("k{}", k).as_bytes()).expect("key")
}
fn val(v: u8) -> iceoryx2::service::attribute::AttributeValue {
    use iceoryx2_bb_container::semantic_string::SemanticString;
    iceoryx2::service::attribute::AttributeValue::new(format!("v{}", v).as_bytes()).expect("value")
}

/// type name -> small number (the model compares names only for equality)
fn name_id(n: &str) -> u32 {
    match n {
        "u64" => 1,
        "i64" => 2,
        "u32" => 3,
        "()" => 4,
        o => 100 + (o.bytes().fold(0u32, |a, b| a.wrapping_mul(31).wrapping_add(b as u32)) % 800),
    }
}

pub fn td_text(d: &TypeDetail) -> String {
    let v = match d.variant() {
        TypeVariant::FixedSize => 0,
        TypeVariant::Dynamic => 1,
    };
    format!("{}:{}:{}:{}", v, name_id(&d.type_name().to_string()), d.size(), d.alignment())
}

/// the payload TypeDetail a builder with type code `ty` asks for (what prepare_config_details computes)
pub fn ty_text(ty: u8) -> String {
    match ty {
        0 => "0:1:8:8".into(),
        1 => "0:2:8:8".into(),
        2 => "0:3:4:4".into(),
        3 => "0:1:8:16".into(),
        4 => "1:1:8:8".into(),
        5 => td_text(&TypeDetail::new::<iceoryx2::service::marker::Flatbuffer<u64>>(TypeVariant::FixedSize)),
        o => panic!("type code {}", o),
    }
}

fn attrs_text(a: &iceoryx2::service::attribute::AttributeSet) -> String {
    let mut v: Vec<String> = a
        .iter()
        .map(|x| format!("{}:{}", x.key().to_string().trim_start_matches('k'), x.value().to_string().trim_start_matches('v')))
        .collect();
    v.sort();
    v.join("+")
}

fn b(x: bool) -> u64 {
    x as u64
}

pub struct Handle {
    pub digest: String,
    _keep: Box<dyn Any>,
}

fn strip(e: &str) -> String {
    // "PublishSubscribeOpenError(DoesNotExist)" -> "DoesNotExist"
    let e: String = e.chars().filter(|c| !c.is_whitespace()).collect();
    match (e.find('('), e.rfind(')')) {
        (Some(i), Some(j)) if j > i => e[i + 1..j].to_string(),
        _ => e,
    }
}

fn ooc_err(e: &str) -> String {
    let c: String = e.chars().filter(|c| !c.is_whitespace()).collect();
    if c.contains("OpenError(") {
        format!("o:{}", strip(&c))
    } else if c.contains("CreateError(") {
        format!("c:{}", strip(&c))
    } else {
        c
    }
}

macro_rules! finish {
    ($b:expr, $kind:expr, $req:expr, $dig:expr) => {{
        match $kind {
            Kind::Create => match $b.create_with_attributes(&$req.specifier()) {
                Ok(f) => { let d = $dig(&f); Ok(Handle { digest: d, _keep: Box::new(f) }) }
                Err(e) => Err(format!("c:{}", strip(&format!("{:?}", e)))),
            },
            Kind::Open => match $b.open_with_attributes(&$req.verifier()) {
                Ok(f) => { let d = $dig(&f); Ok(Handle { digest: d, _keep: Box::new(f) }) }
                Err(e) => Err(format!("o:{}", strip(&format!("{:?}", e)))),
            },
            Kind::Ooc => match $b.open_or_create_with_attributes(&$req.verifier()) {
                Ok(f) => { let d = $dig(&f); Ok(Handle { digest: d, _keep: Box::new(f) }) }
                Err(e) => Err(ooc_err(&format!("{:?}", e))),
            },
        }
    }};
}

macro_rules! ps_ty {
    ($node:expr, $name:expr, $kind:expr, $req:expr, $T:ty, $al:expr) => {{
        let mut bd = $node.service_builder($name).publish_subscribe::<$T>();
        if let Some(a) = $al {
            bd = bd.payload_alignment(Alignment::new(a).unwrap());
        }
        let v = &$req.vals;
        if let Some(x) = v[0] { bd = bd.max_publishers(x as usize); }
        if let Some(x) = v[1] { bd = bd.max_subscribers(x as usize); }
        if let Some(x) = v[2] { bd = bd.subscriber_max_buffer_size(x as usize); }
        if let Some(x) = v[3] { bd = bd.history_size(x as usize); }
        if let Some(x) = v[4] { bd = bd.subscriber_max_borrowed_samples(x as usize); }
        if let Some(x) = v[5] { bd = bd.enable_safe_overflow(x != 0); }
        if let Some(x) = v[6] { bd = bd.max_nodes(x as usize); }
        finish!(bd, $kind, $req, |f: &iceoryx2::service::port_factory::publish_subscribe::PortFactory<S, $T, ()>| {
            let c = f.static_config();
            format!("v={},{},{},{},{},{},{};T={};at={}",
                c.max_publishers(), c.max_subscribers(), c.subscriber_max_buffer_size(), c.history_size(),
                c.subscriber_max_borrowed_samples(), b(c.has_safe_overflow()), c.max_nodes(),
                td_text(&c.message_type_details().payload), attrs_text(f.attributes()))
        })
    }};
}

macro_rules! rr_ty {
    ($node:expr, $name:expr, $kind:expr, $req:expr, $A:ty, $ala:expr, $B:ty) => {{
        let mut bd = $node.service_builder($name).request_response::<$A, $B>();
        if let Some(a) = $ala {
            bd = bd.request_payload_alignment(Alignment::new(a).unwrap());
        }
        let v = &$req.vals;
        if let Some(x) = v[0] { bd = bd.enable_safe_overflow_for_requests(x != 0); }
        if let Some(x) = v[1] { bd = bd.enable_safe_overflow_for_responses(x != 0); }
        if let Some(x) = v[2] { bd = bd.enable_fire_and_forget_requests(x != 0); }
        if let Some(x) = v[3] { bd = bd.max_active_requests_per_client(x as usize); }
        if let Some(x) = v[4] { bd = bd.max_loaned_requests(x as usize); }
        if let Some(x) = v[5] { bd = bd.max_borrowed_responses_per_pending_response(x as usize); }
        if let Some(x) = v[6] { bd = bd.max_response_buffer_size(x as usize); }
        if let Some(x) = v[7] { bd = bd.max_servers(x as usize); }
        if let Some(x) = v[8] { bd = bd.max_clients(x as usize); }
        if let Some(x) = v[9] { bd = bd.max_nodes(x as usize); }
        finish!(bd, $kind, $req, |f: &iceoryx2::service::port_factory::request_response::PortFactory<S, $A, (), $B, ()>| {
            let c = f.static_config();
            format!("v={},{},{},{},{},{},{},{},{},{};T={}/{};at={}",
                b(c.has_safe_overflow_for_requests()), b(c.has_safe_overflow_for_responses()),
                b(c.does_support_fire_and_forget_requests()), c.max_active_requests_per_client(),
                c.max_loaned_requests(), c.max_borrowed_responses_per_pending_response(),
                c.max_response_buffer_size(), c.max_servers(), c.max_clients(), c.max_nodes(),
                td_text(&c.request_message_type_details().payload), td_text(&c.response_message_type_details().payload),
                attrs_text(f.attributes()))
        })
    }};
}

macro_rules! rr_b {
    ($node:expr, $name:expr, $kind:expr, $req:expr, $A:ty, $ala:expr) => {{
        match $req.ty2 {
            0 => rr_ty!($node, $name, $kind, $req, $A, $ala, u64),
            2 => rr_ty!($node, $name, $kind, $req, $A, $ala, u32),
            o => panic!("response type code {}", o),
        }
    }};
}

fn opt(x: Option<u64>) -> u64 {
    match x {
        None => 0,
        Some(v) => v + 1,
    }
}

pub fn run_op<S: Service + 'static>(node: &Node<S>, name: &ServiceName, pat: Pat, kind: Kind, req: &Req) -> Result<Handle, String> {
    match pat {
        Pat::Ps => match req.ty {
            0 => ps_ty!(node, name, kind, req, u64, None::<usize>),
            1 => ps_ty!(node, name, kind, req, i64, None::<usize>),
            2 => ps_ty!(node, name, kind, req, u32, None::<usize>),
            3 => ps_ty!(node, name, kind, req, u64, Some(16usize)),
            4 => ps_ty!(node, name, kind, req, [u64], None::<usize>),
            5 => ps_ty!(node, name, kind, req, iceoryx2::service::marker::Flatbuffer<u64>, None::<usize>),
            o => panic!("type code {}", o),
        },
        Pat::Rr => match req.ty {
            0 => rr_b!(node, name, kind, req, u64, None::<usize>),
            1 => rr_b!(node, name, kind, req, i64, None::<usize>),
            3 => rr_b!(node, name, kind, req, u64, Some(16usize)),
            4 => rr_b!(node, name, kind, req, [u64], None::<usize>),
            o => panic!("request type code {}", o),
        },
        Pat::Ev => {
            let mut bd = node.service_builder(name).event();
            let v = &req.vals;
            if let Some(x) = v[0] { bd = bd.max_notifiers(x as usize); }
            if let Some(x) = v[1] { bd = bd.max_listeners(x as usize); }
            if let Some(x) = v[2] { bd = bd.event_id_max_value(x as usize); }
            if let Some(x) = v[3] { bd = bd.max_nodes(x as usize); }
            if let Some(x) = v[4] { bd = if x == 0 { bd.disable_notifier_created_event() } else { bd.notifier_created_event(EventId::new(x as usize - 1)) }; }
            if let Some(x) = v[5] { bd = if x == 0 { bd.disable_notifier_dropped_event() } else { bd.notifier_dropped_event(EventId::new(x as usize - 1)) }; }
            if let Some(x) = v[6] { bd = if x == 0 { bd.disable_notifier_dead_event() } else { bd.notifier_dead_event(EventId::new(x as usize - 1)) }; }
            if let Some(x) = v[7] { bd = if x == 0 { bd.disable_deadline() } else { bd.deadline(Duration::from_millis(x)) }; }
            finish!(bd, kind, req, |f: &iceoryx2::service::port_factory::event::PortFactory<S>| {
                let c = f.static_config();
                format!("v={},{},{},{},{},{},{},{};T=;at={}",
                    c.max_notifiers(), c.max_listeners(), c.event_id_max_value(), c.max_nodes(),
                    opt(c.notifier_created_event().map(|e| e.as_value() as u64)),
                    opt(c.notifier_dropped_event().map(|e| e.as_value() as u64)),
                    opt(c.notifier_dead_event().map(|e| e.as_value() as u64)),
                    c.deadline().map(|d| d.as_millis() as u64).unwrap_or(0),
                    attrs_text(f.attributes()))
            })
        }
        Pat::Bb => {
            macro_rules! bb_ty {
                ($K:ty) => {{
                    let dig = |f: &iceoryx2::service::port_factory::blackboard::PortFactory<S, $K>| {
                        let c = f.static_config();
                        format!("v={},{};T={};at={}", c.max_readers(), c.max_nodes(), td_text(c.type_details()), attrs_text(f.attributes()))
                    };
                    match kind {
                        Kind::Create => {
                            let mut bd = node.service_builder(name).blackboard_creator::<$K>();
                            if let Some(x) = req.vals[0] { bd = bd.max_readers(x as usize); }
                            if let Some(x) = req.vals[1] { bd = bd.max_nodes(x as usize); }
                            if !req.no_entries { bd = bd.add::<u64>(0 as $K, 0u64); }
                            if req.dup_key { bd = bd.add::<u64>(0 as $K, 1u64); }
                            match bd.create_with_attributes(&req.specifier()) {
                                Ok(f) => { let d = dig(&f); Ok(Handle { digest: d, _keep: Box::new(f) }) }
                                Err(e) => Err(format!("c:{}", strip(&format!("{:?}", e)))),
                            }
                        }
                        Kind::Open => {
                            let mut bd = node.service_builder(name).blackboard_opener::<$K>();
                            if let Some(x) = req.vals[0] { bd = bd.max_readers(x as usize); }
                            if let Some(x) = req.vals[1] { bd = bd.max_nodes(x as usize); }
                            match bd.open_with_attributes(&req.verifier()) {
                                Ok(f) => { let d = dig(&f); Ok(Handle { digest: d, _keep: Box::new(f) }) }
                                Err(e) => Err(format!("o:{}", strip(&format!("{:?}", e)))),
                            }
                        }
                        Kind::Ooc => Err("unsupported".into()),
                    }
                }};
            }
            match req.ty {
                0 => bb_ty!(u64),
                1 => bb_ty!(i64),
                2 => bb_ty!(u32),
                o => panic!("key type code {}", o),
            }
        }
    }
}

/// `T=` token of an operation line: the TypeDetails the builder asks for
pub fn req_types_text(pat: Pat, req: &Req) -> String {
    match pat {
        Pat::Ps | Pat::Bb => ty_text(req.ty),
        Pat::Rr => format!("{}/{}", ty_text(req.ty), ty_text(req.ty2)),
        Pat::Ev => String::new(),
    }
}

/// Service::does_exist as 0/1 (2 = error)
pub fn exists<S: Service>(name: &ServiceName, config: &Config, pat: Pat) -> u8 {
    match S::does_exist(name, config, pat.messaging_pattern()) {
        Ok(true) => 1,
        Ok(false) => 0,
        Err(_) => 2,
    }
}

/// number of services Service::list reports under this configuration
pub fn list_count<S: Service>(config: &Config) -> usize {
    let mut n = 0;
    let _ = S::list(config, |_| { n += 1; CallbackProgression::Continue });
    n
}

/// defaults of the patterns' QoS fields as used by the builders, in field order (model input)
pub fn defaults_text(config: &Config, pat: Pat) -> String {
    let d = &config.defaults;
    match pat {
        Pat::Ps => format!("{},{},{},{},{},{},{}", d.publish_subscribe.max_publishers, d.publish_subscribe.max_subscribers,
            d.publish_subscribe.subscriber_max_buffer_size, d.publish_subscribe.publisher_history_size,
            d.publish_subscribe.subscriber_max_borrowed_samples, b(d.publish_subscribe.enable_safe_overflow), d.publish_subscribe.max_nodes),
        Pat::Ev => format!("{},{},{},{},{},{},{},{}", d.event.max_notifiers, d.event.max_listeners, d.event.event_id_max_value, d.event.max_nodes,
            opt(d.event.notifier_created_event.map(|x| x as u64)), opt(d.event.notifier_dropped_event.map(|x| x as u64)),
            opt(d.event.notifier_dead_event.map(|x| x as u64)), d.event.deadline.map(|x| x.as_millis() as u64).unwrap_or(0)),
        Pat::Rr => format!("{},{},{},{},{},{},{},{},{},{}", b(d.request_response.enable_safe_overflow_for_requests),
            b(d.request_response.enable_safe_overflow_for_responses), b(d.request_response.enable_fire_and_forget_requests),
            d.request_response.max_active_requests_per_client, d.request_response.max_loaned_requests,
            d.request_response.max_borrowed_responses_per_pending_response, d.request_response.max_response_buffer_size,
            d.request_response.max_servers, d.request_response.max_clients, d.request_response.max_nodes),
        Pat::Bb => format!("{},{}", d.blackboard.max_readers, d.blackboard.max_nodes),
    }
}

/// overrides every numeric default by `n` (bools / options untouched) so that the matrix sees both
/// sides of each comparison against a default
pub fn set_small_defaults(config: &mut Config, n: usize) {
    let d = &mut config.defaults;
    d.publish_subscribe.max_publishers = n;
    d.publish_subscribe.max_subscribers = n;
    d.publish_subscribe.subscriber_max_buffer_size = n;
    d.publish_subscribe.publisher_history_size = n;
    d.publish_subscribe.subscriber_max_borrowed_samples = n;
    d.publish_subscribe.max_nodes = n;
    d.event.max_notifiers = n;
    d.event.max_listeners = n;
    d.event.event_id_max_value = n;
    d.event.max_nodes = n;
    d.request_response.max_active_requests_per_client = n;
    d.request_response.max_loaned_requests = n;
    d.request_response.max_borrowed_responses_per_pending_response = n;
    d.request_response.max_response_buffer_size = n;
    d.request_response.max_servers = n;
    d.request_response.max_clients = n;
    d.request_response.max_nodes = n;
    d.blackboard.max_readers = n;
    d.blackboard.max_nodes = n;
}
