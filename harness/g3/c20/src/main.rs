//! G3 correspondence harness for C20: runs attach / drop / notify / drain / process histories
//! against the REAL iceoryx2 WaitSet (real listeners, notifiers and reactors) and prints one
//! canonical observation per operation for ocaml/c20/driver.
//!
//! usage: c20 exh  <variant> <layout> <free> <alphabet> <len>    <shard> <nshards> <seed>
//!        c20 rnd  <variant> <layout> <free> <alphabet> <maxlen> <shard> <nshards> <seed> <ncases>
//!        c20 hist <variant> <layout> <free> <op> <op> ...        (ops as printed, '_' for blanks: an_0 ad_1_1 p)
//!        c20 timed <variant> <scenario>                          (real time: callbacks that take time; see timed.rs)
//!        c20 epoll512 <nfds>                                     (probe: > 512 ready descriptors on Epoll)
//!        c20 selectfull                                          (probe: reactor overflow on the real posix_select reactor)
//!   variant  = ipc | local      WaitSet<ipc::Service> / WaitSet<local::Service>: Epoll on Linux
//!            | select           WaitSet on the real posix_select reactor (capacity 1024); `free` > 0
//!                               pre-attaches 1024-free one-hour intervals (ballast) so that the
//!                               capacity check of waitset.rs is reachable
//!            | selcap1|2|3      posix_select reactor behind a shim with capacity 1/2/3 (variants.rs)
//!   layout   = one digit per listener = the index of its event service, e.g. 0011
//!
//! Conventions shared with the model: a listener's descriptor is reported as the listener
//! index; periods are 1 ns ("always expired") or 3600 s ("never expired"); processing uses
//! wait_and_process_once_with_timeout(.., ZERO); `p` callbacks consume nothing (the listener
//! stays ready), `pc` callbacks call try_wait on the listener of every guard the id has an
//! event from, `pn s` fires notifier s from inside the first callback invocation; `d l`
//! drains listener l outside of processing.
extern crate iceoryx2_bb_loggers;

use core::fmt::Debug;
use core::time::Duration;
use std::io::Write;
use std::panic::{catch_unwind, AssertUnwindSafe};

use iceoryx2::port::listener::Listener;
use iceoryx2::port::notifier::Notifier;
use iceoryx2::prelude::*;
use iceoryx2::service::Service;
use iceoryx2::waitset::{WaitSetAttachmentError, WaitSetRunError, WaitSetRunResult};
use iceoryx2_bb_container::semantic_string::SemanticString;
use iceoryx2_bb_posix::file_descriptor::FileDescriptorBased;
use iceoryx2_bb_system_types::file_name::FileName;
use iceoryx2_bb_system_types::path::Path;

mod probes;
mod timed;
mod variants;

pub const ALWAYS: u64 = 1;
pub const NEVER: u64 = 3_600_000_000_000;

pub struct Rng(pub u64);
impl Rng {
    pub fn next(&mut self) -> u64 {
        self.0 = self.0.wrapping_add(0x9E3779B97F4A7C15);
        let mut z = self.0;
        z = (z ^ (z >> 30)).wrapping_mul(0xBF58476D1CE4E5B9);
        z = (z ^ (z >> 27)).wrapping_mul(0x94D049BB133111EB);
        z ^ (z >> 31)
    }
    pub fn below(&mut self, n: u64) -> u64 {
        if n == 0 { 0 } else { self.next() % n }
    }
}

pub struct Out {
    pub w: std::io::BufWriter<std::io::Stdout>,
}
impl Out {
    pub fn line(&mut self, s: &str) {
        let _ = self.w.write_all(s.as_bytes());
        let _ = self.w.write_all(b"\n");
    }
}

#[derive(Clone, Copy, Debug, PartialEq)]
pub enum Op {
    An(usize),
    Ad(usize, u64),
    Ai(u64),
    Dg(usize),
    N(usize),
    D(usize),
    P,
    Pc,
    Pn(usize),
}

impl Op {
    fn text(&self) -> String {
        match self {
            Op::An(l) => format!("an {}", l),
            Op::Ad(l, p) => format!("ad {} {}", l, p),
            Op::Ai(p) => format!("ai {}", p),
            Op::Dg(j) => format!("dg {}", j),
            Op::N(s) => format!("n {}", s),
            Op::D(l) => format!("d {}", l),
            Op::P => "p".into(),
            Op::Pc => "pc".into(),
            Op::Pn(s) => format!("pn {}", s),
        }
    }
    fn parse(t: &str) -> Op {
        let v: Vec<&str> = t.split(|c| c == '_' || c == ' ').filter(|s| !s.is_empty()).collect();
        let a = |k: usize| -> u64 { v[k].parse().expect("numeric op argument") };
        match v[0] {
            "an" => Op::An(a(1) as usize),
            "ad" => Op::Ad(a(1) as usize, a(2)),
            "ai" => Op::Ai(a(1)),
            "dg" => Op::Dg(a(1) as usize),
            "n" => Op::N(a(1) as usize),
            "d" => Op::D(a(1) as usize),
            "p" => Op::P,
            "pc" => Op::Pc,
            "pn" => Op::Pn(a(1) as usize),
            o => panic!("unknown op {}", o),
        }
    }
}

/// named alphabets; L listeners, S services
fn alphabet(name: &str, nl: usize, ns: usize) -> Vec<Op> {
    let mut v = vec![];
    match name {
        // everything
        "full" => {
            for l in 0..nl { v.push(Op::An(l)); v.push(Op::Ad(l, ALWAYS)); v.push(Op::Ad(l, NEVER)); v.push(Op::D(l)); }
            v.push(Op::Ai(ALWAYS)); v.push(Op::Ai(NEVER));
            for j in 0..3 { v.push(Op::Dg(j)); }
            for s in 0..ns { v.push(Op::N(s)); v.push(Op::Pn(s)); }
            v.push(Op::P); v.push(Op::Pc);
        }
        // capacity / error paths and what they leave behind
        "cap" => {
            v.push(Op::An(0)); v.push(Op::Ad(0, ALWAYS));
            if nl > 1 { v.push(Op::An(1)); v.push(Op::Ad(1, NEVER)); } else { v.push(Op::Ad(0, NEVER)); }
            if nl > 2 { v.push(Op::An(2)); }
            v.push(Op::Ai(ALWAYS)); v.push(Op::Ai(NEVER));
            v.push(Op::Dg(0)); v.push(Op::Dg(1));
            v.push(Op::N(0)); v.push(Op::P);
        }
        // dispatch: notifications, deadlines, ticks, consumption, events during processing
        "disp" => {
            v.push(Op::An(0));
            let l1 = if nl > 1 { 1 } else { 0 };
            v.push(Op::Ad(l1, ALWAYS)); v.push(Op::Ad(l1, NEVER));
            v.push(Op::Ai(ALWAYS));
            v.push(Op::Dg(0)); v.push(Op::Dg(1));
            v.push(Op::N(0)); if ns > 1 { v.push(Op::N(1)); }
            v.push(Op::D(0));
            v.push(Op::P); v.push(Op::Pc); v.push(Op::Pn(ns - 1));
        }
        o => panic!("unknown alphabet {}", o),
    }
    v
}

pub struct Env<NS: Service> {
    pub listeners: Vec<Listener<NS>>,
    pub notifiers: Vec<Notifier<NS>>,
    pub fds: Vec<i32>,
    pub layout: Vec<usize>,
}

fn between<'a>(s: &'a str, start: &str, end: &str) -> Option<&'a str> {
    let i = s.find(start)? + start.len();
    let j = s[i..].find(end)? + i;
    Some(&s[i..j])
}

fn num_after(s: &str, key: &str) -> Option<u64> {
    let i = s.find(key)? + key.len();
    let digits: String = s[i..].chars().take_while(|c| c.is_ascii_digit()).collect();
    digits.parse().ok()
}

/// canonical digest of the wait set's internal state, taken from its (public) Debug output:
/// attachment_counter, DeadlineQueue id_count and entries (index:period), the two maps, the
/// reactor content (descriptor list for posix_select, length for epoll); descriptors are
/// renamed to listener indices.
fn digest(dbg: &str, fds: &[i32]) -> String {
    let fdname = |raw: &str| -> String {
        match raw.trim().parse::<i32>() {
            Ok(v) => match fds.iter().position(|f| *f == v) {
                Some(i) => i.to_string(),
                None => format!("?{}", v),
            },
            Err(_) => format!("?{}", raw.trim()),
        }
    };
    let inner = || -> Option<String> {
        let cnt = num_after(dbg, "attachment_counter: AtomicUsize(")?;
        let idc = num_after(dbg, "id_count: AtomicU64(")?;
        let dq_s = between(dbg, "attachments: RefCell(RefCell { value: [", "] })")?;
        let mut dq = vec![];
        for part in dq_s.split("Attachment {").skip(1) {
            dq.push(format!("{}:{}", num_after(part, "index: ")?, num_after(part, "period: ")?));
        }
        let a2d_s = between(dbg, "attachment_to_deadline: RefCell(RefCell { value: {", "}")?;
        let mut a2d: Vec<(String, u64)> = vec![];
        for e in a2d_s.split(", ").filter(|e| !e.trim().is_empty()) {
            let (k, v) = e.split_once(": ")?;
            a2d.push((fdname(k), num_after(v, "DeadlineQueueIndex(")?));
        }
        a2d.sort();
        let d2a_s = between(dbg, "deadline_to_attachment: RefCell(RefCell { value: {", "}")?;
        let mut d2a: Vec<(u64, String)> = vec![];
        for e in d2a_s.split(", ").filter(|e| !e.trim().is_empty()) {
            let (k, v) = e.split_once(": ")?;
            d2a.push((num_after(k, "DeadlineQueueIndex(")?, fdname(v)));
        }
        d2a.sort();
        let r = if let Some(l) = between(dbg, "file_descriptors: [", "]") {
            let mut v: Vec<String> = l.split(", ").filter(|e| !e.trim().is_empty()).map(|e| fdname(e)).collect();
            v.sort();
            format!("r={}", v.join(","))
        } else {
            format!("rl={}", num_after(dbg, "len: AtomicUsize(")?)
        };
        Some(format!(
            "cnt={} idc={} dq={} a2d={} d2a={} {}",
            cnt,
            idc,
            dq.join(","),
            a2d.iter().map(|(k, v)| format!("{}:{}", k, v)).collect::<Vec<_>>().join(","),
            d2a.iter().map(|(k, v)| format!("{}:{}", k, v)).collect::<Vec<_>>().join(","),
            r
        ))
    };
    inner().unwrap_or_else(|| "unparsed-debug-output".to_string())
}

fn attach_err(e: WaitSetAttachmentError) -> &'static str {
    match e {
        WaitSetAttachmentError::InsufficientCapacity => "nocap",
        WaitSetAttachmentError::AlreadyAttached => "already",
        WaitSetAttachmentError::InternalError => "internal",
        WaitSetAttachmentError::InsufficientResources => "nores",
    }
}

/// a live guard: interval guards have a 'static attachment lifetime, the others borrow a listener
pub enum G<'w, 'a, WS: Service> {
    Fd(WaitSetGuard<'w, 'a, WS>),
    Tick(WaitSetGuard<'w, 'static, WS>),
}
impl<WS: Service> G<'_, '_, WS> {
    fn ev(&self, id: &WaitSetAttachmentId<WS>) -> bool {
        match self { G::Fd(g) => id.has_event_from(g), G::Tick(g) => id.has_event_from(g) }
    }
    fn md(&self, id: &WaitSetAttachmentId<WS>) -> bool {
        match self { G::Fd(g) => id.has_missed_deadline(g), G::Tick(g) => id.has_missed_deadline(g) }
    }
}

/// one history on a fresh wait set
fn run_case<WS: Service, NS: Service>(env: &Env<NS>, variant: &str, free: usize, ops: &[Op], out: &mut Out)
where
    Listener<NS>: SynchronousMultiplexing + Debug,
{
    for l in &env.listeners {
        let _ = l.try_wait(|_| {});
    }
    let ws = WaitSetBuilder::new()
        .signal_handling_mode(SignalHandlingMode::Disabled)
        .create::<WS>()
        .expect("waitset");
    let cap = ws.capacity();
    let is_epoll = variant == "ipc" || variant == "local";
    let ballast = if variant == "select" && free > 0 { cap - free } else { 0 };
    let layout: String = env.layout.iter().map(|d| d.to_string()).collect();
    out.line(&format!(
        "C {} cap={} maxev={} order={} ballast={} layout={}",
        variant,
        cap,
        if is_epoll { 512 } else { cap },
        if is_epoll { "dup" } else { "cap" },
        ballast,
        layout
    ));
    let mut ballast_guards = Vec::with_capacity(ballast);
    for _ in 0..ballast {
        ballast_guards.push(ws.attach_interval(Duration::from_nanos(NEVER)).expect("ballast"));
    }
    {
        let d = digest(&format!("{:?}", ws), &env.fds);
        if ballast == 0 {
            out.line(&format!("S {}", d));
        } else {
            let short: Vec<&str> = d.split(' ').filter(|t| !t.starts_with("dq=")).collect();
            out.line(&format!("S B {}", short.join(" ")));
        }
    }
    // live guards in creation order: (guard number, listener index, guard)
    let mut guards: Vec<(usize, Option<usize>, G<'_, '_, WS>)> = vec![];
    let mut next_guard = ballast;
    for op in ops {
        let mutating = matches!(op, Op::An(_) | Op::Ad(..) | Op::Ai(_) | Op::Dg(_));
        let r = catch_unwind(AssertUnwindSafe(|| -> String {
            match *op {
                Op::An(l) => match ws.attach_notification(&env.listeners[l]) {
                    Ok(g) => { guards.push((next_guard, Some(l), G::Fd(g))); next_guard += 1; format!("ok{}", next_guard - 1) }
                    Err(e) => attach_err(e).into(),
                },
                Op::Ad(l, p) => match ws.attach_deadline(&env.listeners[l], Duration::from_nanos(p)) {
                    Ok(g) => { guards.push((next_guard, Some(l), G::Fd(g))); next_guard += 1; format!("ok{}", next_guard - 1) }
                    Err(e) => attach_err(e).into(),
                },
                Op::Ai(p) => match ws.attach_interval(Duration::from_nanos(p)) {
                    Ok(g) => { guards.push((next_guard, None, G::Tick(g))); next_guard += 1; format!("ok{}", next_guard - 1) }
                    Err(e) => attach_err(e).into(),
                },
                Op::Dg(j) => {
                    // j-th oldest guard of the history (the driver skips over the ballast guards)
                    if j < guards.len() { drop(guards.remove(j)); "ok".into() } else { "-".into() }
                }
                Op::N(s) => match env.notifiers[s].notify() { Ok(_) => "ok".into(), Err(e) => format!("err:{:?}", e) },
                Op::D(l) => match env.listeners[l].try_wait(|_| {}) { Ok(_) => "ok".into(), Err(e) => format!("err:{:?}", e) },
                Op::P | Op::Pc | Op::Pn(_) => {
                    let mut ids = vec![];
                    let mut first = true;
                    let res = ws.wait_and_process_once_with_timeout(
                        |id| {
                            if first {
                                first = false;
                                if let Op::Pn(s) = *op { let _ = env.notifiers[s].notify(); }
                            }
                            if let Op::Pc = *op {
                                for (_, li, g) in &guards {
                                    if g.ev(&id) {
                                        if let Some(li) = li { let _ = env.listeners[*li].try_wait(|_| {}); }
                                    }
                                }
                            }
                            ids.push(id);
                            CallbackProgression::Continue
                        },
                        Duration::ZERO,
                    );
                    match res {
                        Err(WaitSetRunError::NoAttachments) => "noatt".into(),
                        Err(e) => format!("err:{:?}", e),
                        Ok(WaitSetRunResult::AllEventsHandled) => {
                            let mut dl: Vec<String> = vec![];
                            let mut nt: Vec<(usize, &'static str)> = vec![];
                            let mut foreign = 0;
                            for id in &ids {
                                let is_notification = format!("{:?}", id).contains("Notification(");
                                let mut matched = false;
                                for (gno, _, g) in &guards {
                                    for (hit, k) in [(g.ev(id), "e"), (g.md(id), "m")] {
                                        if hit {
                                            matched = true;
                                            if is_notification { nt.push((*gno, k)); } else { dl.push(format!("{}{}", gno, k)); }
                                        }
                                    }
                                }
                                if !matched {
                                    // the ballast guards are never expected to fire
                                    foreign += 1;
                                }
                            }
                            nt.sort();
                            format!(
                                "D:{}/{}/{}",
                                dl.join(","),
                                nt.iter().map(|(g, k)| format!("{}{}", g, k)).collect::<Vec<_>>().join(","),
                                foreign
                            )
                        }
                        Ok(v) => format!("res:{:?}", v),
                    }
                }
            }
        }));
        match r {
            Ok(obs) => {
                if mutating && ballast == 0 {
                    out.line(&format!("O {} = {} | {}", op.text(), obs, digest(&format!("{:?}", ws), &env.fds)));
                } else if mutating {
                    // with ballast the digest would be a thousand entries long: counter, id_count and maps only
                    let d = digest(&format!("{:?}", ws), &env.fds);
                    let short: Vec<&str> = d.split(' ').filter(|t| !t.starts_with("dq=")).collect();
                    out.line(&format!("O {} = {} | B {}", op.text(), obs, short.join(" ")));
                } else {
                    out.line(&format!("O {} = {}", op.text(), obs));
                }
            }
            Err(_) => {
                out.line(&format!("O {} = P", op.text()));
                break;
            }
        }
    }
    drop(guards);
    while let Some(g) = ballast_guards.pop() {
        drop(g);
    }
}

pub struct Cfg {
    pub mode: String,
    pub variant: String,
    pub layout: Vec<usize>,
    pub free: usize,
    pub rest: Vec<String>,
}

fn histories<F: FnMut(&[Op])>(cfg: &Cfg, mut f: F) {
    let nl = cfg.layout.len();
    let ns = cfg.layout.iter().max().map(|m| m + 1).unwrap_or(0);
    match cfg.mode.as_str() {
        "hist" => {
            let ops: Vec<Op> = cfg.rest.iter().map(|t| Op::parse(t)).collect();
            f(&ops);
        }
        "exh" => {
            let alpha = alphabet(&cfg.rest[0], nl, ns);
            let len: u32 = cfg.rest[1].parse().unwrap();
            let shard: u64 = cfg.rest[2].parse().unwrap();
            let nshards: u64 = cfg.rest[3].parse().unwrap();
            let total = (alpha.len() as u64).pow(len);
            let mut i = shard;
            let mut ops = vec![Op::P; len as usize];
            while i < total {
                let mut x = i;
                for k in 0..len as usize {
                    ops[k] = alpha[(x % alpha.len() as u64) as usize];
                    x /= alpha.len() as u64;
                }
                f(&ops);
                i += nshards;
            }
        }
        "rnd" => {
            let alpha = alphabet(&cfg.rest[0], nl, ns);
            let maxlen: u64 = cfg.rest[1].parse().unwrap();
            let shard: u64 = cfg.rest[2].parse().unwrap();
            let seed: u64 = cfg.rest[4].parse().unwrap();
            let ncases: u64 = cfg.rest[5].parse().unwrap();
            let mut rng = Rng(seed ^ (shard.wrapping_mul(0xA24BAED4963EE407)) ^ 0xC20);
            let attach: Vec<Op> = alpha.iter().cloned().filter(|o| matches!(o, Op::An(_) | Op::Ad(..) | Op::Ai(_))).collect();
            let drops: Vec<Op> = alpha.iter().cloned().filter(|o| matches!(o, Op::Dg(_))).collect();
            let notif: Vec<Op> = alpha.iter().cloned().filter(|o| matches!(o, Op::N(_))).collect();
            let drain: Vec<Op> = alpha.iter().cloned().filter(|o| matches!(o, Op::D(_))).collect();
            let procs: Vec<Op> = alpha.iter().cloned().filter(|o| matches!(o, Op::P | Op::Pc | Op::Pn(_))).collect();
            for _ in 0..ncases {
                let len = maxlen / 4 + rng.below(maxlen - maxlen / 4 + 1);
                // per-case bias: towards attaching (saturation) or towards detaching
                let bias = rng.below(3);
                let mut ops = vec![];
                for _ in 0..len {
                    let r = rng.below(100);
                    let (a, d) = match bias { 0 => (45, 8), 1 => (30, 15), _ => (25, 25) };
                    let class = if r < a { &attach } else if r < a + d { &drops } else if r < a + d + 17 { &notif }
                        else if r < a + d + 24 { &drain } else { &procs };
                    let class = if class.is_empty() { &procs } else { class };
                    ops.push(class[rng.below(class.len() as u64) as usize]);
                }
                f(&ops);
            }
        }
        m => panic!("unknown mode {}", m),
    }
}

fn run_all<WS: Service, NS: Service>(cfg: &Cfg, config: &Config, out: &mut Out)
where
    Listener<NS>: SynchronousMultiplexing + Debug + FileDescriptorBased,
{
    let node = NodeBuilder::new().config(config).create::<NS>().expect("node");
    let ns = cfg.layout.iter().max().map(|m| m + 1).unwrap_or(0);
    let mut services = vec![];
    for s in 0..ns {
        let name: ServiceName = format!("c20/{}/{}", std::process::id(), s).as_str().try_into().unwrap();
        services.push(node.service_builder(&name).event().open_or_create().expect("event service"));
    }
    let mut env = Env::<NS> { listeners: vec![], notifiers: vec![], fds: vec![], layout: cfg.layout.clone() };
    for s in &cfg.layout {
        let l = services[*s].listener_builder().create().expect("listener");
        env.fds.push(unsafe { l.file_descriptor().native_handle() });
        env.listeners.push(l);
    }
    for s in 0..ns {
        env.notifiers.push(services[s].notifier_builder().create().expect("notifier"));
    }
    histories(cfg, |ops| run_case::<WS, NS>(&env, &cfg.variant, cfg.free, ops, out));
}

fn main() {
    if std::env::var("VERIF_PANIC_VERBOSE").is_err() {
        std::panic::set_hook(Box::new(|_| {}));
    }
    iceoryx2_log::set_log_level(iceoryx2_log::LogLevel::Fatal);
    let a: Vec<String> = std::env::args().collect();
    if a.len() < 2 {
        eprintln!("usage: c20 exh|rnd|hist <variant> <layout> <free> ... | epoll512 <n> | selectfull");
        std::process::exit(2);
    }
    // private root and prefix: nothing is shared with other runs, everything is removed at the end
    let pid = std::process::id();
    let root = format!("/dev/shm/verif-c20-{}", pid);
    std::fs::create_dir_all(&root).expect("private root");
    let prefix = format!("c20_{}_", pid);
    let mut config = Config::default();
    config.global.prefix = FileName::new(prefix.as_bytes()).unwrap();
    config.global.set_root_path(&Path::new(root.as_bytes()).unwrap());
    let mut out = Out { w: std::io::BufWriter::with_capacity(1 << 20, std::io::stdout()) };
    let rc = catch_unwind(AssertUnwindSafe(|| match a[1].as_str() {
        "epoll512" => probes::epoll512(a[2].parse().unwrap(), &mut out),
        "selectfull" => probes::selectfull(&mut out),
        "timed" => match a[2].as_str() {
            "ipc" => timed::run::<ipc::Service, ipc::Service>(&a[2], &a[3], &config, &mut out),
            "local" => timed::run::<local::Service, local::Service>(&a[2], &a[3], &config, &mut out),
            "select" => timed::run::<variants::SelectSvc, ipc::Service>(&a[2], &a[3], &config, &mut out),
            v => panic!("unknown variant {}", v),
        },
        _ => {
            let cfg = Cfg {
                mode: a[1].clone(),
                variant: a[2].clone(),
                layout: a[3].bytes().map(|b| (b - b'0') as usize).collect(),
                free: a[4].parse().unwrap(),
                rest: a[5..].to_vec(),
            };
            match cfg.variant.as_str() {
                "ipc" => run_all::<ipc::Service, ipc::Service>(&cfg, &config, &mut out),
                "local" => run_all::<local::Service, local::Service>(&cfg, &config, &mut out),
                "select" => run_all::<variants::SelectSvc, ipc::Service>(&cfg, &config, &mut out),
                "selcap1" => run_all::<variants::CapSvc1, ipc::Service>(&cfg, &config, &mut out),
                "selcap2" => run_all::<variants::CapSvc2, ipc::Service>(&cfg, &config, &mut out),
                "selcap3" => run_all::<variants::CapSvc3, ipc::Service>(&cfg, &config, &mut out),
                v => panic!("unknown variant {}", v),
            }
        }
    }));
    let _ = out.w.flush();
    // clean up: private root, and whatever carries our prefix in /dev/shm
    let _ = std::fs::remove_dir_all(&root);
    if let Ok(rd) = std::fs::read_dir("/dev/shm") {
        for e in rd.flatten() {
            if e.file_name().to_string_lossy().starts_with(&prefix) {
                let _ = std::fs::remove_file(e.path());
            }
        }
    }
    if rc.is_err() {
        eprintln!("harness panicked");
        std::process::exit(3);
    }
}
