//! Two fixed probes that need more descriptors than the four listeners of the histories.
use crate::variants::SelectSvc;
use crate::Out;
use core::time::Duration;
use iceoryx2::prelude::*;
use iceoryx2_bb_posix::file_descriptor::{FileDescriptor, FileDescriptorBased};
use std::io::Write;
use std::os::fd::AsRawFd;
use std::os::unix::net::UnixStream;

/// any open descriptor as an attachable object
#[derive(Debug)]
pub struct RawFd(FileDescriptor);
impl FileDescriptorBased for RawFd {
    fn file_descriptor(&self) -> &FileDescriptor {
        &self.0
    }
}
impl SynchronousMultiplexing for RawFd {}

/// `n` readable descriptors attached as notifications to WaitSet<ipc::Service> (Epoll): how many
/// callbacks does one processing call make?  (Epoll::max_wait_events() = 512 bounds it; the
/// model carries this as `rmaxev`.)
pub fn epoll512(n: usize, out: &mut Out) {
    let mut pairs = vec![];
    for _ in 0..n {
        let (a, mut b) = UnixStream::pair().expect("socket pair");
        b.write_all(b"x").expect("write");
        pairs.push((a, b));
    }
    let objs: Vec<RawFd> = pairs.iter().map(|(a, _)| RawFd(FileDescriptor::non_owning_new(a.as_raw_fd()).expect("fd"))).collect();
    let ws = WaitSetBuilder::new().signal_handling_mode(SignalHandlingMode::Disabled).create::<ipc::Service>().expect("waitset");
    let mut guards = vec![];
    for o in &objs {
        guards.push(ws.attach_notification(o).expect("attach"));
    }
    let mut counts = vec![];
    let mut seen = vec![false; n];
    for _ in 0..2 {
        let mut c = 0usize;
        let _ = ws.wait_and_process_once_with_timeout(
            |id| {
                c += 1;
                for (i, g) in guards.iter().enumerate() {
                    if id.has_event_from(g) {
                        seen[i] = true;
                    }
                }
                CallbackProgression::Continue
            },
            Duration::ZERO,
        );
        counts.push(c);
    }
    out.line(&format!(
        "PROBE epoll512 attached={} ready={} callbacks_first={} callbacks_second={} distinct_after_two={}",
        n, n, counts[0], counts[1], seen.iter().filter(|b| **b).count()
    ));
    drop(guards);
}

/// The real posix_select reactor, filled to its capacity (1024 descriptors 0..1023): what does
/// attaching one more, never attached, object return?  Then the same with one interval in place
/// of one descriptor (wait set full, reactor not full).
pub fn selectfull(out: &mut Out) {
    let mut pairs = vec![];
    let mut max_fd = 0;
    while max_fd < 1040 {
        let (a, b) = UnixStream::pair().expect("socket pair");
        max_fd = max_fd.max(a.as_raw_fd()).max(b.as_raw_fd());
        pairs.push((a, b));
    }
    let ws = WaitSetBuilder::new().signal_handling_mode(SignalHandlingMode::Disabled).create::<SelectSvc>().expect("waitset");
    let cap = ws.capacity();
    let objs: Vec<RawFd> = (0..cap as i32).map(|fd| RawFd(FileDescriptor::non_owning_new(fd).expect("open fd"))).collect();
    let extra = RawFd(FileDescriptor::non_owning_new(cap as i32 + 8).expect("open fd"));
    let mut guards = vec![];
    for o in &objs {
        guards.push(ws.attach_notification(o).expect("attach below capacity"));
    }
    let e1 = ws.attach_notification(&extra).err();
    let e1d = ws.attach_deadline(&extra, Duration::from_secs(3600)).err();
    // now: one descriptor less, one interval more -> the wait set is still full, the reactor is not
    drop(guards.pop());
    let tick = ws.attach_interval(Duration::from_secs(3600)).expect("interval");
    // (a descriptor >= FD_SETSIZE must not reach FD_ISSET: libc panics inside a nounwind function and the
    // process aborts; so the object that is re-attached here is the descriptor that was just detached)
    let e2 = ws.attach_notification(&objs[cap - 1]).err();
    out.line(&format!(
        "PROBE selectfull cap={} len={} full_of_descriptors_attach_notification={:?} full_of_descriptors_attach_deadline={:?} full_with_interval_attach_notification={:?}",
        cap,
        ws.len(),
        e1,
        e1d,
        e2
    ));
    drop(tick);
    drop(guards);
}
