//! Timed scenarios on the real WaitSet / DeadlineQueue with REAL time: processing calls whose
//! callback takes time (sleeps), so that period boundaries fall while callbacks are running.
//!
//! Each scenario is a fixed script of attachments (intervals, deadlines on a listener that is
//! never notified) and zero-timeout processing calls at nominal times that are 50 ms away from
//! every period boundary (periods 100..400 ms).  The harness measures, relative to an epoch
//! taken before the wait set is created, the bracket in which each attachment got its start
//! time and the bracket in which each call read the clock (from just before the call to the
//! first callback invocation, or to the return when nothing was reported).  An attempt counts
//! only if every bracket is at least MARGIN away from every boundary of every attachment and
//! does not straddle one -- then the period arithmetic gives the same answer for every point of
//! the bracket; otherwise the machine was too slow, the attempt is discarded and repeated.
//! Output (for ocaml/c20/driver, which replays it on the extracted timed model):
//!   C timed <variant> <scenario>
//!   O ta <period ms> <start ms> = ok
//!   O tp <clock ms> <clock ms> = r:<indices of the reported attachments, ascending>[x<n> unmatched/unexpected ids]
//! or `N timed_unestablished` when no attempt succeeded.
use crate::{Out, G};
use core::fmt::Debug;
use core::time::Duration;
use iceoryx2::port::listener::Listener;
use iceoryx2::prelude::*;
use iceoryx2::service::Service;
use std::time::Instant;

const MARGIN_MS: f64 = 25.0;
const ATTEMPTS: usize = 8;

#[derive(Clone, Copy)]
enum Step {
    Interval(u64),
    Deadline(u64),
    /// processing call at `at` ms; its first callback invocation sleeps until `until` ms
    Process { at: u64, until: Option<u64> },
}

fn script(name: &str) -> Vec<Step> {
    use Step::*;
    match name {
        // the demo of the finding: the deadline (400) and three ticks expire during the callback of call 1
        "tick_deadline" => vec![Interval(100), Deadline(400), Process { at: 150, until: Some(450) },
                                Process { at: 450, until: None }, Process { at: 650, until: None }],
        "two_intervals" => vec![Interval(100), Interval(250), Process { at: 150, until: Some(350) },
                                Process { at: 350, until: None }, Process { at: 550, until: None }],
        // a deadline that expires again during its own callback; the last call must report nothing
        "own_deadline" => vec![Deadline(200), Process { at: 250, until: Some(450) },
                               Process { at: 450, until: None }, Process { at: 550, until: None }],
        o => panic!("unknown timed scenario {}", o),
    }
}

fn ms(epoch: Instant) -> f64 {
    epoch.elapsed().as_secs_f64() * 1000.0
}

fn sleep_until(epoch: Instant, at_ms: u64) {
    let target = Duration::from_millis(at_ms);
    let el = epoch.elapsed();
    if target > el {
        std::thread::sleep(target - el);
    }
}

/// one attempt; None = a bracket came too close to a boundary (machine too slow)
fn attempt<WS: Service, NS: Service>(listener: &Listener<NS>, steps: &[Step]) -> Option<Vec<String>>
where
    Listener<NS>: SynchronousMultiplexing + Debug,
{
    let mut lines = vec![];
    let epoch = Instant::now();
    let ws = WaitSetBuilder::new().signal_handling_mode(SignalHandlingMode::Disabled).create::<WS>().expect("waitset");
    // (period, start bracket)
    let mut entries: Vec<(f64, f64, f64)> = vec![];
    let mut guards: Vec<G<'_, '_, WS>> = vec![];
    for st in steps {
        match *st {
            Step::Interval(p) | Step::Deadline(p) => {
                let t0 = ms(epoch);
                let g = match *st {
                    Step::Interval(_) => G::Tick(ws.attach_interval(Duration::from_millis(p)).expect("interval")),
                    _ => G::Fd(ws.attach_deadline(listener, Duration::from_millis(p)).expect("deadline")),
                };
                let t1 = ms(epoch);
                guards.push(g);
                entries.push((p as f64, t0, t1));
                lines.push(format!("O ta {} {} = ok", p, ((t0 + t1) / 2.0).round() as u64));
            }
            Step::Process { at, until } => {
                sleep_until(epoch, at);
                let tb = ms(epoch);
                let mut te: Option<f64> = None;
                let mut ids = vec![];
                let res = ws.wait_and_process_once_with_timeout(
                    |id| {
                        if te.is_none() {
                            te = Some(ms(epoch));
                            if let Some(u) = until {
                                sleep_until(epoch, u);
                            }
                        }
                        ids.push(id);
                        CallbackProgression::Continue
                    },
                    Duration::ZERO,
                );
                let te = te.unwrap_or_else(|| ms(epoch));
                if res.is_err() {
                    lines.push(format!("O tp {} {} = err:{:?}", tb.round() as u64, tb.round() as u64, res.err()));
                    continue;
                }
                // the clock reads of this call lie in [tb, te]: every attachment must be in the same
                // period, MARGIN away from both of its ends, for the whole bracket
                for (p, s0, s1) in &entries {
                    let lo = tb - s1;
                    let hi = te - s0;
                    if lo < 0.0 {
                        return None;
                    }
                    let k = (lo / p).floor();
                    if (hi / p).floor() != k || lo - k * p < MARGIN_MS || (k + 1.0) * p - hi < MARGIN_MS {
                        return None;
                    }
                }
                let mut rep: Vec<usize> = vec![];
                let mut odd = 0;
                for id in &ids {
                    let mut hit = false;
                    for (i, g) in guards.iter().enumerate() {
                        // an interval reports through has_event_from, a deadline through has_missed_deadline;
                        // the listener is never notified, so has_event_from on a deadline guard is unexpected
                        let tick = matches!(g, G::Tick(_));
                        if (tick && g.ev(id)) || (!tick && g.md(id)) {
                            rep.push(i);
                            hit = true;
                        }
                    }
                    if !hit {
                        odd += 1;
                    }
                }
                rep.sort();
                let mut r = format!("r:{}", rep.iter().map(|i| i.to_string()).collect::<Vec<_>>().join(","));
                if odd > 0 {
                    r.push_str(&format!("x{}", odd));
                }
                lines.push(format!("O tp {} {} = {}", tb.round() as u64, tb.round() as u64, r));
            }
        }
    }
    drop(guards);
    Some(lines)
}

pub fn run<WS: Service, NS: Service>(variant: &str, scenario: &str, config: &Config, out: &mut Out)
where
    Listener<NS>: SynchronousMultiplexing + Debug,
{
    let node = NodeBuilder::new().config(config).create::<NS>().expect("node");
    let name: ServiceName = format!("c20/{}/timed", std::process::id()).as_str().try_into().unwrap();
    let service = node.service_builder(&name).event().open_or_create().expect("event service");
    let listener = service.listener_builder().create().expect("listener");
    let steps = script(scenario);
    for _ in 0..ATTEMPTS {
        if let Some(lines) = attempt::<WS, NS>(&listener, &steps) {
            out.line(&format!("C timed {} {}", variant, scenario));
            for l in lines {
                out.line(&l);
            }
            return;
        }
    }
    out.line("N timed_unestablished");
}
