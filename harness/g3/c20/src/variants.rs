//! Service variants that only differ from `ipc::Service` in the reactor the WaitSet uses.
//!
//! * `SelectSvc`  : the real `posix_select` reactor of iceoryx2-cal (capacity FD_SETSIZE = 1024).
//!                  On Linux both `ipc::Service` and `local::Service` select Epoll, so this is the
//!                  only way to run the WaitSet on the select based reactor.
//! * `CapSvc<K>`  : a shim around the real `posix_select` reactor whose `capacity()` is K and
//!                  whose `attach` refuses with `CapacityExceeded` when K descriptors are attached,
//!                  with the same check order as `FileDescriptorSet::add_impl` (capacity first,
//!                  then already-attached).  Everything else is delegated.  It exists only to make
//!                  the capacity paths of waitset.rs reachable with a handful of listeners.
use core::fmt::Debug;
use core::time::Duration;
use iceoryx2::prelude::ZeroCopySend;
use iceoryx2_bb_elementary_traits::testing::abandonable::Abandonable;
use iceoryx2_bb_posix::file_descriptor::FileDescriptor;
use iceoryx2_bb_posix::file_descriptor_set::{FileDescriptorSetGuard, SynchronousMultiplexing};
use iceoryx2_cal::reactor::posix_select;
use iceoryx2_cal::reactor::{Reactor, ReactorAttachError, ReactorBuilder, ReactorCreateError, ReactorWaitError};

#[derive(Debug)]
pub struct Capped<const K: usize> {
    inner: posix_select::Reactor,
}

pub struct CappedBuilder<const K: usize> {}

impl<const K: usize> ReactorBuilder<Capped<K>> for CappedBuilder<K> {
    fn new() -> Self {
        Self {}
    }
    fn create(self) -> Result<Capped<K>, ReactorCreateError> {
        let b = <posix_select::ReactorBuilder as ReactorBuilder<posix_select::Reactor>>::new();
        Ok(Capped { inner: b.create()? })
    }
}

impl<const K: usize> Reactor for Capped<K> {
    type Guard<'reactor, 'attachment> = FileDescriptorSetGuard<'reactor, 'attachment>;
    type Builder = CappedBuilder<K>;

    fn capacity(&self) -> usize {
        K
    }
    fn len(&self) -> usize {
        self.inner.len()
    }
    fn is_empty(&self) -> bool {
        self.inner.is_empty()
    }
    fn attach<'reactor, 'attachment, F: SynchronousMultiplexing + Debug + ?Sized>(
        &'reactor self,
        value: &'attachment F,
    ) -> Result<Self::Guard<'reactor, 'attachment>, ReactorAttachError> {
        if self.inner.len() >= K {
            return Err(ReactorAttachError::CapacityExceeded);
        }
        self.inner.attach(value)
    }
    fn try_wait<F: FnMut(&FileDescriptor)>(&self, fn_call: F) -> Result<usize, ReactorWaitError> {
        self.inner.try_wait(fn_call)
    }
    fn timed_wait<F: FnMut(&FileDescriptor)>(&self, fn_call: F, timeout: Duration) -> Result<usize, ReactorWaitError> {
        self.inner.timed_wait(fn_call, timeout)
    }
    fn blocking_wait<F: FnMut(&FileDescriptor)>(&self, fn_call: F) -> Result<usize, ReactorWaitError> {
        self.inner.blocking_wait(fn_call)
    }
}

macro_rules! service_variant {
    ($name:ident, $reactor:ty) => {
        #[derive(Debug, Clone)]
        pub struct $name {}
        impl iceoryx2::service::Service for $name {
            type StaticStorage = iceoryx2_cal::static_storage::recommended::Ipc;
            type ConfigSerializer = iceoryx2_cal::serialize::recommended::Recommended;
            type PersistentDynamicStorage<T: Debug + Send + Sync + ZeroCopySend + 'static> =
                iceoryx2_cal::dynamic_storage::recommended::PersistentIpc<T>;
            type DynamicStorage<T: Debug + Send + Sync + ZeroCopySend + 'static> =
                iceoryx2_cal::dynamic_storage::recommended::Ipc<T>;
            type ServiceNameHasher = iceoryx2_cal::hash::recommended::Recommended;
            type SharedMemory =
                iceoryx2_cal::shared_memory::recommended::Ipc<iceoryx2_cal::shm_allocator::pool_allocator::PoolAllocator>;
            type ResizableSharedMemory = iceoryx2_cal::resizable_shared_memory::recommended::Ipc<
                iceoryx2_cal::shm_allocator::pool_allocator::PoolAllocator,
            >;
            type Connection = iceoryx2_cal::zero_copy_connection::recommended::Ipc;
            type Event = iceoryx2_cal::event::recommended::Ipc;
            type Monitoring = iceoryx2_cal::monitoring::recommended::Ipc;
            type Reactor = $reactor;
            type ArcThreadSafetyPolicy<T: Send + Debug + Abandonable> =
                iceoryx2_cal::arc_sync_policy::single_threaded::SingleThreaded<T>;
            type BlackboardMgmt<KeyType: Send + Sync + Debug + ZeroCopySend + 'static> =
                iceoryx2_cal::dynamic_storage::recommended::Ipc<KeyType>;
            type BlackboardPayload =
                iceoryx2_cal::shared_memory::recommended::Ipc<iceoryx2_cal::shm_allocator::bump_allocator::BumpAllocator>;
        }
        impl iceoryx2::service::internal::ServiceInternal<$name> for $name {}
    };
}

service_variant!(SelectSvc, posix_select::Reactor);
service_variant!(CapSvc1, Capped<1>);
service_variant!(CapSvc2, Capped<2>);
service_variant!(CapSvc3, Capped<3>);
