//! cal shm_allocator: PoolAllocator / BumpAllocator through the ShmAllocator trait, PointerOffset
use crate::bb_h::{canonical_history, lay, random_history, Op};
use crate::*;
use core::ptr::NonNull;
use iceoryx2_bb_elementary::allocation_strategy::AllocationStrategy;
use iceoryx2_bb_elementary::bump_allocator::BumpAllocator;
use iceoryx2_bb_elementary_traits::allocator::{Allocate, Deallocate};
use iceoryx2_cal::shm_allocator::{bump_allocator, pool_allocator, PointerOffset, SegmentId, ShmAllocator};

pub const STRATS: [(AllocationStrategy, &str); 3] = [(AllocationStrategy::BestFit, "bestfit"), (AllocationStrategy::PowerOfTwo, "pow2"), (AllocationStrategy::Static, "static")];

fn hint_layouts(bs: usize, ba: usize) -> Vec<(usize, usize)> {
    vec![(bs, ba), (bs + 1, ba), (bs, (ba * 2).min(4096)), (1, 1), (bs * 2 + 3, 1), (3, (ba * 4).min(4096)), (bs.saturating_sub(1), ba), (1000, 64)]
}

pub fn calpool_case(bs: usize, ba: usize, ptr_off: usize, size: usize, maxmem: usize, ops: &[Op], out: &mut Out) {
    out.line(&format!("C calpool {} {} {} {} {}", bs, ba, ptr_off, size, maxmem));
    let blk = Block::new(ptr_off + size + 64);
    let mut mgmt = vec![0u32; 1 << 15];
    let bump = BumpAllocator::new(NonNull::new(mgmt.as_mut_ptr() as *mut u8).unwrap(), mgmt.len() * 4);
    let mem = NonNull::slice_from_raw_parts(NonNull::new((blk.base + ptr_off) as *mut u8).unwrap(), size);
    let cfg = pool_allocator::Config { bucket_layout: lay(bs, ba) };
    let r = guarded(|| unsafe { pool_allocator::PoolAllocator::new_uninit(maxmem, mem, &cfg) });
    let mut p = match r { None => { out.line("O new = P"); return; } Some(p) => p };
    out.line(&format!("O new = ok:{}:{}:{}", p.number_of_buckets(), p.relative_start_address(), p.bucket_size()));
    match guarded(|| unsafe { p.init(&bump) }) {
        None => { out.line("O init = P"); return; }
        Some(Err(_)) => { out.line("O init = err"); return; }
        Some(Ok(())) => out.line("O init = ok"),
    }
    let a = unsafe { p.assume_init() };
    let mut live: Vec<u64> = vec![];
    let hints = hint_layouts(bs, ba);
    let mut nh = 0usize;
    let do_hints = |p: &pool_allocator::PoolAllocator, out: &mut Out, nh: &mut usize| {
        let (hs, ha) = hints[*nh % hints.len()]; *nh += 1;
        for (st, name) in STRATS.iter() {
            match guarded(|| { let h = p.resize_hint(lay(hs, ha), *st); (h.config.bucket_layout.size(), h.config.bucket_layout.align(), h.payload_size) }) {
                Some((s, al, pl)) => out.line(&format!("O hint {} {} {} = {}:{}:{}", hs, ha, name, s, al, pl)),
                None => out.line(&format!("O hint {} {} {} = P", hs, ha, name)),
            }
        }
    };
    do_hints(&p, out, &mut nh);
    for op in ops {
        match *op {
            Op::Alloc(s, al) => match guarded(|| a.allocate(lay(s, al)).map(|q| q.as_value()).map_err(err_name)) {
                None => { out.line(&format!("O alloc {} {} = P", s, al)); return; }
                Some(Ok(v)) => { live.push(v); out.line(&format!("O alloc {} {} = ok:{}", s, al, v)); do_hints(&p, out, &mut nh); }
                Some(Err(k)) => out.line(&format!("O alloc {} {} = err:{}", s, al, k)),
            },
            Op::DeallocNth(k) => if !live.is_empty() {
                let v = live.remove(k % live.len());
                match guarded(|| unsafe { a.deallocate(PointerOffset::from_value(v), lay(1, 1)) }) {
                    Some(()) => out.line(&format!("O dealloc {} = ok", v)), None => { out.line(&format!("O dealloc {} = P", v)); return; } }
            },
            Op::Drain => {
                let (bsz, bal) = (p.bucket_size(), p.max_alignment());
                for _ in 0..100000 {
                    match guarded(|| a.allocate(lay(bsz, bal)).map(|q| q.as_value()).map_err(err_name)) {
                        None => { out.line(&format!("O alloc {} {} = P", bsz, bal)); return; }
                        Some(Ok(v)) => { live.push(v); out.line(&format!("O alloc {} {} = ok:{}", bsz, bal, v)); }
                        Some(Err(k)) => { out.line(&format!("O alloc {} {} = err:{}", bsz, bal, k)); break; }
                    }
                }
            }
            Op::DeallocBad => {}
        }
    }
    do_hints(&p, out, &mut nh);
}

pub fn run_calpool(args: &Args, out: &mut Out) {
    let mut idx = 0u64;
    if args.mode == "exh" {
        let bsizes: Vec<usize> = if args.level >= 2 { vec![1, 2, 3, 4, 5, 7, 8, 12, 16, 17, 24, 33, 64, 100] } else { vec![1, 4, 5, 8, 12, 17, 64] };
        let aligns: Vec<usize> = if args.level >= 2 { ALIGNS.to_vec() } else { vec![1, 4, 8, 16, 64, 4096] };
        for &bs in &bsizes { for &ba in &aligns { for off in [0usize, 1, 4, 8, 9, 24, 4095] { for k in [0usize, 1, 2, 4] { for extra_kind in 0..3 {
            idx += 1; if idx % args.nshards != args.shard { continue; }
            let abs = if bs % ba == 0 { bs } else { bs + ba - bs % ba };
            let size = match extra_kind { 0 => abs * k, 1 => bs * k + ba - 1, _ => abs * k + ba + abs / 2 };
            let maxmem = if idx % 7 == 0 { 64 } else { 4096 };
            calpool_case(bs, ba, off, size, maxmem, &canonical_history(bs, ba, k + 1), out);
        } } } } }
    } else {
        let mut rng = Rng(args.seed ^ 0xC15_0005 ^ (args.shard << 32));
        for _ in 0..args.ncases {
            let bs = 1 + rng.below(70) as usize;
            let ba = rng.pick_align(4, 6);
            let off = rng.below(70) as usize;
            let abs = if bs % ba == 0 { bs } else { bs + ba - bs % ba };
            let size = rng.below(12) as usize * abs + rng.below(abs as u64 + ba as u64 + 1) as usize + ba;
            let ops = random_history(&mut rng, bs, ba, args.level.max(1) * 30);
            calpool_case(bs, ba, off, size, 4096, &ops, out);
        }
    }
}

pub fn calbump_case(ptr_off: usize, size: usize, ops: &[Op], out: &mut Out) {
    out.line(&format!("C calbump {} {}", ptr_off, size));
    let blk = Block::new(ptr_off + size + 64);
    let mut mgmt = vec![0u32; 64];
    let bump = BumpAllocator::new(NonNull::new(mgmt.as_mut_ptr() as *mut u8).unwrap(), mgmt.len() * 4);
    let mem = NonNull::slice_from_raw_parts(NonNull::new((blk.base + ptr_off) as *mut u8).unwrap(), size);
    let mut p = unsafe { bump_allocator::BumpAllocator::new_uninit(4096, mem, &bump_allocator::Config::default()) };
    if unsafe { p.init(&bump) }.is_err() { out.line("O init = err"); return; }
    out.line(&format!("O new = ok:{}:{}", p.total_space(), p.relative_start_address()));
    let a = unsafe { p.assume_init() };
    let mut last: Option<u64> = None;
    for op in ops {
        match *op {
            Op::Alloc(s, al) => {
                match guarded(|| a.allocate(lay(s, al)).map(|q| q.as_value()).map_err(err_name)) {
                    None => { out.line(&format!("O alloc {} {} = P", s, al)); return; }
                    Some(Ok(v)) => { last = Some(v); out.line(&format!("O alloc {} {} = ok:{}", s, al, v)); }
                    Some(Err(k)) => out.line(&format!("O alloc {} {} = err:{}", s, al, k)),
                }
                for (st, name) in STRATS.iter() {
                    let h = p.resize_hint(lay(s + 3, 1), *st);
                    out.line(&format!("O hint {} 1 {} = {}", s + 3, name, h.payload_size));
                }
            }
            Op::DeallocNth(_) => if let Some(v) = last.take() {
                unsafe { a.deallocate(PointerOffset::from_value(v), lay(1, 1)) };
                out.line("O reset = ok");
            },
            Op::DeallocBad | Op::Drain => {}
        }
    }
}

pub fn run_calbump(args: &Args, out: &mut Out) {
    let mut rng = Rng(args.seed ^ 0xC15_0006 ^ (args.shard << 32));
    let n = if args.mode == "exh" { 200 } else { args.ncases };
    for i in 0..n {
        let off = if args.mode == "exh" { [0usize, 1, 3, 4, 8, 9, 63, 4095][(i % 8) as usize] } else { rng.below(64) as usize };
        let total = rng.below(400) as usize;
        let mut ops = vec![];
        for _ in 0..(args.level.max(1) * 20) {
            if rng.below(8) == 0 { ops.push(Op::DeallocNth(0)); }
            else { ops.push(Op::Alloc(if rng.below(10) == 0 { 0 } else { rng.below(48) as usize }, rng.pick_align(5, 4))); }
        }
        calbump_case(off, total, &ops, out);
    }
}

pub fn run_codec(args: &Args, out: &mut Out) {
    out.line("C codec");
    let mut rng = Rng(args.seed ^ 0xC15_0007 ^ (args.shard << 32));
    let mut offsets: Vec<u64> = vec![0, 1, 2, 255, 256, 257, 65535, 65536, (1 << 32) - 1, 1 << 32, (1 << 48) + 5, (1 << 56) - 1, 1 << 56, (1 << 56) + 1, (1 << 63) + 77, u64::MAX - 1, u64::MAX];
    let segs: Vec<u8> = vec![0, 1, 2, 7, 127, 128, 254, 255];
    let n = if args.mode == "exh" { 0 } else { args.ncases };
    for _ in 0..n { let sh = rng.below(64); offsets.push(rng.next() >> sh); }
    for (i, &o) in offsets.iter().enumerate() {
        if (i as u64) % args.nshards != args.shard && args.mode == "exh" { continue; }
        for &s in &segs {
            let p = PointerOffset::from_offset_and_segment_id(o as usize, SegmentId::new(s));
            out.line(&format!("O make {} {} = {}:{}:{}", o, s, p.as_value(), p.offset(), p.segment_id().value()));
            let s2 = segs[(i + s as usize) % segs.len()];
            let mut q = p; q.set_segment_id(SegmentId::new(s2));
            out.line(&format!("O setseg {} {} = {}:{}:{}", p.as_value(), s2, q.as_value(), q.offset(), q.segment_id().value()));
        }
        // raw values (from_value): arbitrary 64-bit patterns
        let raw = o ^ (o << 13);
        let pr = PointerOffset::from_value(raw);
        out.line(&format!("O raw {} = {}:{}", raw, pr.offset(), pr.segment_id().value()));
        let pn = PointerOffset::new(o as usize);
        out.line(&format!("O new {} = {}", o, pn.as_value()));
    }
}

// ------------------------------------------------------------------------------------ drain (search) mode
struct CalRef<'a> { a: &'a pool_allocator::InitializedPoolAllocator<'a>, p: &'a pool_allocator::PoolAllocator }
impl<'a> crate::bb_h::Sut for CalRef<'a> {
    fn alloc(&mut self, s: usize, al: usize) -> Option<Result<u64, &'static str>> {
        let a = self.a;
        guarded(|| a.allocate(lay(s, al)).map(|q| q.as_value()).map_err(err_name))
    }
    fn dealloc(&mut self, v: u64) -> Option<()> {
        let a = self.a;
        guarded(|| unsafe { a.deallocate(PointerOffset::from_value(v), lay(1, 1)) })
    }
    fn bucket(&self) -> Option<(usize, usize)> { Some((self.p.bucket_size(), self.p.max_alignment())) }
}

pub fn drain_calpool(out: &mut Out) {
    let q = crate::bb_h::drain_params();
    if q.len() < 5 { return; }
    let (bs, ba, off, size, maxmem) = (q[0], q[1], q[2], q[3], q[4]);
    out.line(&format!("C calpool {} {} {} {} {}", bs, ba, off, size, maxmem));
    let blk = Block::new(off + size + crate::bb_h::GUARD + 64);
    crate::bb_h::fill_guards(blk.base, off, size);
    let mut mgmt = vec![0u32; 1 << 15];
    let bump = BumpAllocator::new(NonNull::new(mgmt.as_mut_ptr() as *mut u8).unwrap(), mgmt.len() * 4);
    let mem = NonNull::slice_from_raw_parts(NonNull::new((blk.base + off) as *mut u8).unwrap(), size);
    let cfg = pool_allocator::Config { bucket_layout: lay(bs, ba) };
    let mut p = match guarded(|| unsafe { pool_allocator::PoolAllocator::new_uninit(maxmem, mem, &cfg) }) { None => { out.line("O new = P"); return; } Some(p) => p };
    out.line(&format!("O new = ok:{}:{}:{}", p.number_of_buckets(), p.relative_start_address(), p.bucket_size()));
    match guarded(|| unsafe { p.init(&bump) }) {
        None => { out.line("O init = P"); return; }
        Some(Err(_)) => { out.line("O init = err"); return; }
        Some(Ok(())) => out.line("O init = ok"),
    }
    let a = unsafe { p.assume_init() };
    let start = blk.base + off + p.relative_start_address();
    let mut sut = CalRef { a: &a, p: &p };
    crate::bb_h::drain_run(&mut sut, &|v| start + (v >> 8) as usize, blk.base, off, size, out);
}
