//! publisher/subscriber over a dynamically growing data segment through the public iceoryx2 API
//! (local and ipc service; AllocationStrategy BestFit / PowerOfTwo; payload alignment 1..4096):
//! the subscriber holds samples across growth; every payload carries canary bytes.
//! Observations are property-level only (kind=spec in the driver): payload pointer alignment,
//! canary intact when received, canaries of all held samples intact after every later send.
use crate::*;
use iceoryx2::prelude::*;
use std::sync::atomic::{AtomicU64, Ordering};

static COUNTER: AtomicU64 = AtomicU64::new(0);

fn canary(i: usize, idx: usize) -> u8 { (i * 31 + idx * 7 + 1) as u8 }

fn scenario<S: Service>(svc: &str, strat: &str, align: usize, init_len: usize, lens: &[usize], out: &mut Out) {
    out.line(&format!("C pubsub {} {} {} {}", svc, strat, align, init_len));
    let st = match strat { "bestfit" => AllocationStrategy::BestFit, _ => AllocationStrategy::PowerOfTwo };
    let r = guarded(|| -> Result<(), String> {
        let node = NodeBuilder::new().create::<S>().map_err(|e| format!("{:?}", e))?;
        let name = format!("c15_pubsub_{}_{}", std::process::id(), COUNTER.fetch_add(1, Ordering::Relaxed));
        let service = node.service_builder(&name.as_str().try_into().map_err(|e| format!("{:?}", e))?)
            .publish_subscribe::<[u8]>()
            .payload_alignment(Alignment::new(align).unwrap())
            .subscriber_max_buffer_size(4).subscriber_max_borrowed_samples(6).history_size(0).max_publishers(1).max_subscribers(1)
            .create().map_err(|e| format!("{:?}", e))?;
        let subscriber = service.subscriber_builder().create().map_err(|e| format!("{:?}", e))?;
        let publisher = service.publisher_builder().initial_max_slice_len(init_len).allocation_strategy(st).max_loaned_samples(2)
            .create().map_err(|e| format!("{:?}", e))?;
        let mut held: Vec<(usize, usize, iceoryx2::sample::Sample<S, [u8], ()>)> = vec![];
        for (i, &len) in lens.iter().enumerate() {
            match publisher.loan_slice_uninit(len) {
                Err(e) => { out.line(&format!("O send {} = err:{:?}", len, e)); continue; }
                Ok(s) => {
                    let s = s.write_from_fn(|idx| canary(i, idx));
                    let aligned = (s.payload().as_ptr() as usize) % align == 0;
                    match s.send() {
                        Ok(_) => out.line(&format!("O send {} = ok:{}", len, if aligned { 1 } else { 0 })),
                        Err(e) => { out.line(&format!("O send {} = err:{:?}", len, e)); continue; }
                    }
                }
            }
            // the subscriber takes the sample and keeps it (released later, out of order)
            match subscriber.receive() {
                Ok(Some(sample)) => {
                    let p = sample.payload();
                    let ok = p.len() == len && p.iter().enumerate().all(|(idx, b)| *b == canary(i, idx)) && (p.as_ptr() as usize) % align == 0;
                    out.line(&format!("O recv {} = ok:{}", len, if ok { 1 } else { 0 }));
                    held.push((i, len, sample));
                }
                Ok(None) => out.line(&format!("O recv {} = none", len)),
                Err(e) => out.line(&format!("O recv {} = err:{:?}", len, e)),
            }
            // every sample received before (possibly several segments ago) is still intact
            let all_ok = held.iter().all(|(j, l, s)| s.payload().len() == *l && s.payload().iter().enumerate().all(|(idx, b)| *b == canary(*j, idx)));
            out.line(&format!("O held {} = {}", held.len(), if all_ok { 1 } else { 0 }));
            // release: keep the oldest one for the whole run, drop others out of order
            if held.len() >= 5 { held.remove(2); held.remove(1); }
        }
        Ok(())
    });
    match r { None => out.line("O run = P"), Some(Err(e)) => out.line(&format!("O run = err:{}", e.replace(' ', "_"))), Some(Ok(())) => out.line("O run = ok") }
}

pub fn run(args: &Args, out: &mut Out) {
    let mut idx = 0u64;
    let mut rng = Rng(args.seed ^ 0xC15_000A);
    let aligns: &[usize] = if args.level >= 2 { &[1, 8, 16, 64, 512, 4096] } else { &[1, 16, 64, 4096] };
    for svc in ["local", "ipc"] { for strat in ["bestfit", "pow2"] { for &align in aligns { for init_len in [1usize, 16, 100] {
        idx += 1;
        let mut lens = vec![];
        let mut cur = init_len;
        for _ in 0..(if args.level >= 2 { 40 } else { 16 }) {
            match rng.below(4) { 0 => { cur += 1 + rng.below(cur as u64 * 2 + 3) as usize; } 1 => {} _ => {} }
            lens.push(if rng.below(3) == 0 { 1 + rng.below(cur as u64) as usize } else { cur });
        }
        if idx % args.nshards != args.shard { continue; }
        if svc == "local" { scenario::<local::Service>(svc, strat, align, init_len, &lens, out); }
        else { scenario::<ipc::Service>(svc, strat, align, init_len, &lens, out); }
    } } } }
}
