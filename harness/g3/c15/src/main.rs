//! G3 correspondence harness for C15: drives the REAL allocators of /repo with layout sweeps and
//! allocate/deallocate histories and prints one observation per operation.  All addresses are
//! printed relative to an 8192-aligned block base (never absolute).
//! usage: c15 <exh|rnd|wit> <component> <level> <shard> <nshards> <seed> [ncases]
//!        c15 drn <pool|fixed|calpool> <level> <shard> <nshards> <seed> <case header parameters...>   (search mode)
//!   component = pool | fixed | bump | onechunk | calpool | calbump | codec | mtd | dyn | pubsub
extern crate iceoryx2_bb_loggers;

use std::io::Write;
use std::panic::{catch_unwind, AssertUnwindSafe};

pub mod constants {
    // only the length bound of TypeName; irrelevant for the layout arithmetic
    pub const MAX_TYPE_NAME_LENGTH: usize = 256;
}
// the real source file of /repo, compiled into this crate so that its pub(crate) layout
// functions (chunk_layout, payload_ptr_from_header, ...) can be called
#[allow(dead_code)]
#[path = "/repo/iceoryx2/src/service/static_config/message_type_details.rs"]
pub mod message_type_details;

mod bb_h;
mod cal_h;
mod dyn_h;
mod mtd_h;
mod pubsub_h;

pub struct Rng(pub u64);
impl Rng {
    pub fn next(&mut self) -> u64 {
        self.0 = self.0.wrapping_add(0x9E3779B97F4A7C15);
        let mut z = self.0;
        z = (z ^ (z >> 30)).wrapping_mul(0xBF58476D1CE4E5B9);
        z = (z ^ (z >> 27)).wrapping_mul(0x94D049BB133111EB);
        z ^ (z >> 31)
    }
    pub fn below(&mut self, n: u64) -> u64 { if n == 0 { 0 } else { self.next() % n } }
    pub fn pick_align(&mut self, one_in: u64, narrow: u64) -> usize { let w = if self.below(one_in) == 0 { 13 } else { narrow }; ALIGNS[self.below(w) as usize] }
    pub fn pick<T: Copy>(&mut self, xs: &[T]) -> T { xs[self.below(xs.len() as u64) as usize] }
}

/// run f, map a panic to None
pub fn guarded<R>(f: impl FnOnce() -> R) -> Option<R> { catch_unwind(AssertUnwindSafe(f)).ok() }

pub struct Out { pub w: std::io::BufWriter<std::io::Stdout> }
impl Out {
    pub fn line(&mut self, s: &str) { let _ = self.w.write_all(s.as_bytes()); let _ = self.w.write_all(b"\n"); }
}

pub struct Args { pub mode: String, pub level: usize, pub shard: u64, pub nshards: u64, pub seed: u64, pub ncases: u64 }

pub const ALIGNS: [usize; 13] = [1, 2, 4, 8, 16, 32, 64, 128, 256, 512, 1024, 2048, 4096];

/// a heap block whose base is aligned to 8192, so that every alignment <= 4096 behaves exactly
/// as in the model (which uses the virtual base 2^20)
pub struct Block { _mem: Vec<u8>, pub base: usize, pub len: usize }
impl Block {
    pub fn new(len: usize) -> Self {
        let mem = vec![0u8; len + 8192 + 64];
        let a = mem.as_ptr() as usize;
        let base = (a + 8191) & !8191usize;
        Block { _mem: mem, base, len }
    }
}

pub fn err_name(e: iceoryx2_bb_elementary_traits::allocator::AllocationError) -> &'static str {
    use iceoryx2_bb_elementary_traits::allocator::AllocationError::*;
    match e { SizeIsZero => "SizeIsZero", SizeTooLarge => "SizeTooLarge", AlignmentFailure => "AlignmentFailure", OutOfMemory => "OutOfMemory", InternalError => "InternalError" }
}

fn main() {
    if std::env::var("VERIF_PANIC_VERBOSE").is_err() { std::panic::set_hook(Box::new(|_| {})); }
    iceoryx2_log::set_log_level(iceoryx2_log::LogLevel::Fatal);
    let a: Vec<String> = std::env::args().collect();
    if a.len() < 7 { eprintln!("usage: c15 <exh|rnd|wit> <component> <level> <shard> <nshards> <seed> [ncases]"); std::process::exit(2); }
    let args = Args { mode: a[1].clone(), level: a[3].parse().unwrap(), shard: a[4].parse().unwrap(), nshards: a[5].parse().unwrap(),
        seed: a[6].parse().unwrap(), ncases: a.get(7).and_then(|s| s.parse().ok()).unwrap_or(100) };
    let mut out = Out { w: std::io::BufWriter::with_capacity(1 << 20, std::io::stdout()) };
    if a[1] == "drn" {
        // search mode: one explicit layout, see bb_h::drain_run
        match a[2].as_str() {
            "pool" => bb_h::drain_pool(&mut out),
            "fixed" => bb_h::drain_fixed(&mut out),
            "calpool" => cal_h::drain_calpool(&mut out),
            _ => {}
        }
        let _ = out.w.flush();
        return;
    }
    match a[2].as_str() {
        "pool" => bb_h::run_pool(&args, &mut out),
        "fixed" => bb_h::run_fixed(&args, &mut out),
        "bump" => bb_h::run_bump(&args, &mut out),
        "onechunk" => bb_h::run_onechunk(&args, &mut out),
        "calpool" => cal_h::run_calpool(&args, &mut out),
        "calbump" => cal_h::run_calbump(&args, &mut out),
        "codec" => cal_h::run_codec(&args, &mut out),
        "mtd" => mtd_h::run(&args, &mut out),
        "dyn" => dyn_h::run(&args, &mut out),
        "pubsub" => pubsub_h::run(&args, &mut out),
        c => { eprintln!("unknown component {}", c); std::process::exit(2); }
    }
    let _ = out.w.flush();
}
