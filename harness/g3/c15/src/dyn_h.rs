//! resizable_shared_memory::dynamic::{DynamicMemory, DynamicView} over the real posix /
//! process-local shared memory with the cal pool allocator
use crate::bb_h::lay;
use crate::*;
use core::fmt::Debug;
use iceoryx2_bb_container::semantic_string::SemanticString;
use iceoryx2_bb_elementary::allocation_strategy::AllocationStrategy;
use iceoryx2_bb_elementary_traits::allocator::{Allocate, Deallocate};
use iceoryx2_bb_posix::file::AccessMode;
use iceoryx2_bb_system_types::file_name::FileName;
use iceoryx2_cal::named_concept::*;
use iceoryx2_cal::resizable_shared_memory::dynamic::DynamicMemory;
use iceoryx2_cal::resizable_shared_memory::{ResizableSharedMemory, ResizableSharedMemoryBuilder, ResizableSharedMemoryView, ResizableSharedMemoryViewBuilder};
use iceoryx2_cal::shared_memory::{SharedMemory, SharedMemoryBuilder, ShmPointer};
use iceoryx2_cal::shm_allocator::pool_allocator::{Config, PoolAllocator};
use std::sync::atomic::{AtomicU64, Ordering};

static COUNTER: AtomicU64 = AtomicU64::new(0);
fn fresh_name(tag: &str) -> FileName {
    let c = COUNTER.fetch_add(1, Ordering::Relaxed);
    FileName::new(format!("c15_{}_{}_{}", tag, std::process::id(), c).as_bytes()).unwrap()
}

#[derive(Clone, Copy, Debug)]
pub enum DOp { Alloc(usize, usize), Dealloc(usize), Reg(usize), Unreg(usize), Nsegs }

struct LiveChunk { ptr: ShmPointer, size: usize, canary: u8, registered: bool, view_ptr: usize }

fn canary_ok(p: *const u8, size: usize, c: u8) -> bool {
    (0..size).all(|i| unsafe { *p.add(i) } == c.wrapping_add(i as u8))
}

pub fn strat_of(name: &str) -> AllocationStrategy {
    match name { "bestfit" => AllocationStrategy::BestFit, "pow2" => AllocationStrategy::PowerOfTwo, _ => AllocationStrategy::Static }
}

/// payload start address (mod 4096) of a segment of this shared memory flavour
fn base_mod<Shm: SharedMemory<PoolAllocator>>() -> usize {
    let name = fresh_name("b");
    let shm = Shm::Builder::new(&name).size(64).create(&Config { bucket_layout: lay(1, 1) }).unwrap();
    shm.payload_start_address() % 4096
}

pub fn dyn_case<Shm: SharedMemory<PoolAllocator>>(kind: &str, strat: &str, hs: usize, ha: usize, n: usize, ops: &[DOp], out: &mut Out)
where Shm::Builder: Debug {
    let bm = base_mod::<Shm>();
    out.line(&format!("C dyn {} {} {} {} {} {}", kind, strat, hs, ha, n, bm));
    type Mem<S> = DynamicMemory<PoolAllocator, S>;
    let mk = |tag: &str| {
        let name = fresh_name(tag);
        let r = guarded(|| <Mem<Shm> as ResizableSharedMemory<PoolAllocator, Shm>>::MemoryBuilder::new(&name)
            .max_chunk_layout_hint(lay(hs, ha)).max_number_of_chunks_hint(n).allocation_strategy(strat_of(strat)).create());
        (name, r)
    };
    // capacity of segment 0 for the hinted layout (fresh instance)
    {
        let (_, r) = mk("c");
        match r {
            None => { out.line("O new = P"); return; }
            Some(Err(_)) => { out.line("O new = err"); return; }
            Some(Ok(m)) => {
                out.line("O new = ok");
                let mut cnt = 0usize;
                let mut keep = vec![];
                for _ in 0..(n + 2) {
                    match guarded(|| m.allocate(lay(hs, ha))) {
                        Some(Ok(p)) if p.offset.segment_id().value() == 0 => { cnt += 1; keep.push(p); }
                        _ => break,
                    }
                }
                out.line(&format!("O cap0 = {}", cnt));
            }
        }
    }
    let (name, r) = mk("m");
    let m = match r { Some(Ok(m)) => m, _ => { out.line("O new2 = fail"); return; } };
    let view = match <Mem<Shm> as ResizableSharedMemory<PoolAllocator, Shm>>::ViewBuilder::new(&name).open(AccessMode::Read) {
        Ok(v) => v, Err(_) => { out.line("O view = err"); return; } };
    let mut live: Vec<LiveChunk> = vec![];
    let mut next_canary = 1u8;
    for op in ops {
        match *op {
            DOp::Alloc(s, a) => match guarded(|| m.allocate(lay(s, a))) {
                None => { out.line(&format!("O alloc {} {} = P", s, a)); return; }
                Some(Err(e)) => out.line(&format!("O alloc {} {} = err:{}", s, a, err_name(e))),
                Some(Ok(p)) => {
                    let c = next_canary; next_canary = next_canary.wrapping_add(37);
                    for i in 0..s { unsafe { *p.data_ptr.add(i) = c.wrapping_add(i as u8) }; }
                    out.line(&format!("O alloc {} {} = ok:{}:{}", s, a, p.offset.as_value(), if (p.data_ptr as usize) % a == 0 { 1 } else { 0 }));
                    live.push(LiveChunk { ptr: p, size: s, canary: c, registered: false, view_ptr: 0 });
                }
            },
            DOp::Dealloc(k) => {
                let cand: Vec<usize> = (0..live.len()).filter(|i| !live[*i].registered).collect();
                if cand.is_empty() { continue; }
                let lc = live.remove(cand[k % cand.len()]);
                let ok = canary_ok(lc.ptr.data_ptr, lc.size, lc.canary);
                let v = lc.ptr.offset.as_value();
                match guarded(|| unsafe { m.deallocate(lc.ptr, lay(lc.size.max(1), 1)) }) {
                    Some(()) => out.line(&format!("O dealloc {} = ok:{}", v, if ok { 1 } else { 0 })),
                    None => { out.line(&format!("O dealloc {} = P", v)); return; }
                }
            }
            DOp::Reg(k) => {
                let cand: Vec<usize> = (0..live.len()).filter(|i| !live[*i].registered).collect();
                if cand.is_empty() { continue; }
                let i = cand[k % cand.len()];
                let v = live[i].ptr.offset.as_value();
                match guarded(|| unsafe { view.register_and_translate_offset(live[i].ptr.offset) }) {
                    None => { out.line(&format!("O reg {} = P", v)); return; }
                    Some(Err(_)) => out.line(&format!("O reg {} = err", v)),
                    Some(Ok(p)) => {
                        live[i].registered = true; live[i].view_ptr = p as usize;
                        out.line(&format!("O reg {} = ok:{}", v, if canary_ok(p, live[i].size, live[i].canary) { 1 } else { 0 }));
                    }
                }
            }
            DOp::Unreg(k) => {
                let cand: Vec<usize> = (0..live.len()).filter(|i| live[*i].registered).collect();
                if cand.is_empty() { continue; }
                let i = cand[k % cand.len()];
                let v = live[i].ptr.offset.as_value();
                // the subscriber reads the payload right before releasing it
                let ok = canary_ok(live[i].view_ptr as *const u8, live[i].size, live[i].canary);
                match guarded(|| unsafe { view.unregister_offset(live[i].ptr.offset) }) {
                    None => { out.line(&format!("O unreg {} = P", v)); return; }
                    Some(()) => { live[i].registered = false; out.line(&format!("O unreg {} = ok:{}", v, if ok { 1 } else { 0 })); }
                }
            }
            DOp::Nsegs => out.line(&format!("O nsegs = {}:{}", m.number_of_active_segments(), view.number_of_active_segments())),
        }
    }
    // every still-live chunk must still hold its canary (sender side and receiver side)
    let all_ok = live.iter().all(|lc| canary_ok(lc.ptr.data_ptr, lc.size, lc.canary) && (!lc.registered || canary_ok(lc.view_ptr as *const u8, lc.size, lc.canary)));
    out.line(&format!("O final = {}", if all_ok { 1 } else { 0 }));
}

fn gen_ops(rng: &mut Rng, hs: usize, ha: usize, len: usize, grow: bool, max_align: usize) -> Vec<DOp> {
    let mut ops = vec![];
    let mut cur = hs;
    for _ in 0..len {
        let r = rng.below(100);
        if r < 45 {
            let s = match rng.below(10) { 0 if grow => { cur = cur + 1 + rng.below(cur as u64 + 8) as usize; cur } 1 => 1, 2 => cur, _ => 1 + rng.below(cur as u64) as usize };
            let a = match rng.below(12) { 0 if grow => (ha * 2).min(max_align), _ => ALIGNS[rng.below((ha.trailing_zeros() + 1) as u64) as usize] };
            ops.push(DOp::Alloc(s, a));
        } else if r < 65 { ops.push(DOp::Dealloc(rng.below(8) as usize)); }
        else if r < 80 { ops.push(DOp::Reg(rng.below(8) as usize)); }
        else if r < 93 { ops.push(DOp::Unreg(rng.below(8) as usize)); }
        else { ops.push(DOp::Nsegs); }
    }
    ops.push(DOp::Nsegs);
    ops
}

pub fn run(args: &Args, out: &mut Out) {
    type PShm = iceoryx2_cal::shared_memory::posix::Memory<PoolAllocator>;
    type LShm = iceoryx2_cal::shared_memory::process_local::Memory<PoolAllocator>;
    let strats = ["bestfit", "pow2", "static"];
    let mut idx = 0u64;
    if args.mode == "wit" {
        // F18 witnesses: chunk alignment >= 16; hint n = 1 (allocation used to be impossible) and
        // n = 2 (every segment used to yield one bucket, growth never grew)
        for st in ["bestfit", "pow2"] { for (hs, ha) in [(16usize, 16usize), (64, 64), (4096, 4096)] { for n in [1usize, 2] {
            dyn_case::<PShm>("posix", st, hs, ha, n, &[DOp::Alloc(hs, ha), DOp::Alloc(hs, ha), DOp::Alloc(hs, ha), DOp::Nsegs, DOp::Reg(0), DOp::Alloc(hs, ha), DOp::Alloc(hs, ha), DOp::Nsegs, DOp::Unreg(0), DOp::Dealloc(0), DOp::Nsegs], out);
        } } }
        dyn_case::<LShm>("local", "bestfit", 16, 16, 2, &[DOp::Alloc(16, 16), DOp::Alloc(16, 16), DOp::Alloc(16, 16), DOp::Nsegs], out);
        return;
    }
    if args.mode == "exh" {
        // layouts as the ports build them (size multiple of alignment) plus raw cal-level hints
        let lays: &[(usize, usize)] = if args.level >= 2 { &[(1, 1), (8, 8), (24, 8), (16, 16), (48, 16), (64, 64), (128, 64), (4096, 4096), (5, 4), (24, 16), (100, 64), (12, 8)] } else { &[(1, 1), (24, 8), (16, 16), (128, 64), (5, 4), (24, 16)] };
        for st in strats { for &(hs, ha) in lays { for n in [1usize, 2, 3, 5] {
            idx += 1; if idx % args.nshards != args.shard { continue; }
            if hs * n < ha { continue; }
            let mut rng = Rng(args.seed ^ idx);
            let ops = gen_ops(&mut rng, hs, ha, 24, st != "static", 4096);
            dyn_case::<PShm>("posix", st, hs, ha, n, &ops, out);
            // process-local segments live on the heap: their payload start is only known modulo 16,
            // so the model comparison is restricted to alignments <= 16 there
            if ha <= 16 { let ops = gen_ops(&mut rng, hs, ha, 24, st != "static", 16); dyn_case::<LShm>("local", st, hs, ha, n, &ops, out); }
        } } }
    } else {
        let mut rng = Rng(args.seed ^ 0xC15_0009 ^ (args.shard << 32));
        for _ in 0..args.ncases {
            let st = rng.pick(&strats);
            let ha = rng.pick_align(4, 4);
            let hs = if rng.below(4) == 0 { 1 + rng.below(100) as usize } else { ha * (1 + rng.below(6) as usize) };
            let n = 1 + rng.below(6) as usize;
            if hs * n < ha { continue; }
            if ha <= 16 && rng.below(3) == 0 { let ops = gen_ops(&mut rng, hs, ha, args.level.max(1) * 30, st != "static", 16); dyn_case::<LShm>("local", st, hs, ha, n, &ops, out); }
            else { let ops = gen_ops(&mut rng, hs, ha, args.level.max(1) * 30, st != "static", 4096); dyn_case::<PShm>("posix", st, hs, ha, n, &ops, out); }
        }
    }
}
