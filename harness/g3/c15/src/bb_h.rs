//! bb-memory PoolAllocator / FixedSizePoolAllocator / OneChunkAllocator, bb-elementary BumpAllocator
use crate::*;
use core::alloc::Layout;
use core::ptr::NonNull;
use iceoryx2_bb_elementary::bump_allocator::BumpAllocator;
use iceoryx2_bb_elementary_traits::allocator::{Allocate, Deallocate};
use iceoryx2_bb_memory::one_chunk_allocator::OneChunkAllocator;
use iceoryx2_bb_memory::pool_allocator::{FixedSizePoolAllocator, PoolAllocator};

#[derive(Clone, Copy, Debug)]
pub enum Op { Alloc(usize, usize), DeallocNth(usize), DeallocBad,
    /// allocate Layout(bucket_size(), bucket alignment) until the allocator reports an error: the
    /// pool is drained completely, so the LAST bucket is exercised with its full size
    Drain }

pub fn lay(s: usize, a: usize) -> Layout { Layout::from_size_align(s, a).unwrap() }

/// canonical history for a bucket layout (bs, ba): layout sweep (sizes 0, 1, bs-1, bs, bs+1 and
/// sizes that are not multiples of the alignment; alignments around ba and the extremes), free
/// every other one, fill to exhaustion, free all, refill.
pub fn canonical_history(bs: usize, ba: usize, nb_guess: usize) -> Vec<Op> {
    let mut ops = vec![];
    let mut sizes = vec![0usize, 1, bs.saturating_sub(1), bs, bs + 1, bs / 2 + 1];
    sizes.dedup();
    let mut aligns = vec![1usize, ba, (ba / 2).max(1), (ba * 2).min(4096), 4096];
    aligns.sort(); aligns.dedup();
    for s in &sizes { for a in &aligns { ops.push(Op::Alloc(*s, *a)); } }
    ops.push(Op::Drain);
    for k in 0..4 { ops.push(Op::DeallocNth(k)); }
    for _ in 0..(nb_guess + 2) { ops.push(Op::Alloc(bs, ba)); }
    ops.push(Op::Drain);
    for _ in 0..(nb_guess + 2) { ops.push(Op::DeallocNth(0)); }
    for _ in 0..(nb_guess + 1) { ops.push(Op::Alloc(bs.min(1), 1)); }
    ops.push(Op::Drain);
    ops
}

pub fn random_history(rng: &mut Rng, bs: usize, ba: usize, len: usize) -> Vec<Op> {
    let mut ops = vec![];
    for _ in 0..len {
        let r = rng.below(100);
        if r < 55 {
            let s = match rng.below(8) { 0 => 0, 1 => bs + 1, 2 => bs, 3 => bs.saturating_sub(1), 4 => 1, _ => rng.below(bs as u64 + 2) as usize };
            let a = match rng.below(6) { 0 => rng.pick(&ALIGNS), 1 => (ba * 2).min(4096), _ => ALIGNS[rng.below((ba.trailing_zeros() + 1) as u64) as usize] };
            ops.push(Op::Alloc(s, a));
        } else if r < 96 { ops.push(Op::DeallocNth(rng.below(16) as usize)); }
        else if r < 99 { ops.push(Op::Drain); }
        else { ops.push(Op::DeallocBad); }
    }
    // every random history ends with the pool drained completely (unless it ended out of contract)
    if !matches!(ops.last(), Some(Op::DeallocBad)) && !ops.iter().any(|o| matches!(o, Op::DeallocBad)) { ops.push(Op::Drain); }
    ops
}

pub trait Sut {
    /// Some(Ok(rel addr)) | Some(Err(kind)) | None = panic
    fn alloc(&mut self, s: usize, a: usize) -> Option<Result<u64, &'static str>>;
    fn dealloc(&mut self, v: u64) -> Option<()>;
    /// a value that is not a valid allocation (None: not supported)
    fn bad_value(&self) -> Option<u64> { None }
    /// (bucket size, bucket alignment) as the allocator advertises them (None: no buckets)
    fn bucket(&self) -> Option<(usize, usize)> { None }
}

pub fn run_history(sut: &mut dyn Sut, ops: &[Op], out: &mut Out) {
    let mut live: Vec<u64> = vec![];
    for op in ops {
        match *op {
            Op::Alloc(s, a) => match sut.alloc(s, a) {
                None => { out.line(&format!("O alloc {} {} = P", s, a)); return; }
                Some(Ok(v)) => { live.push(v); out.line(&format!("O alloc {} {} = ok:{}", s, a, v)); }
                Some(Err(k)) => out.line(&format!("O alloc {} {} = err:{}", s, a, k)),
            },
            Op::DeallocNth(k) => if !live.is_empty() {
                let v = live.remove(k % live.len());
                match sut.dealloc(v) { Some(()) => out.line(&format!("O dealloc {} = ok", v)), None => { out.line(&format!("O dealloc {} = P", v)); return; } }
            },
            Op::Drain => if let Some((bsz, bal)) = sut.bucket() {
                for _ in 0..100000 {
                    match sut.alloc(bsz, bal) {
                        None => { out.line(&format!("O alloc {} {} = P", bsz, bal)); return; }
                        Some(Ok(v)) => { live.push(v); out.line(&format!("O alloc {} {} = ok:{}", bsz, bal, v)); }
                        Some(Err(k)) => { out.line(&format!("O alloc {} {} = err:{}", bsz, bal, k)); break; }
                    }
                }
            },
            Op::DeallocBad => if let Some(v) = sut.bad_value() {
                if !live.contains(&v) {
                    match sut.dealloc(v) { Some(()) => out.line(&format!("O dealloc {} = ok", v)), None => { out.line(&format!("O dealloc {} = P", v)); return; } }
                    return; // state after releasing a foreign pointer is out of contract
                }
            },
        }
    }
}

// ------------------------------------------------------------------------------------ pool
struct PoolSut { p: Box<PoolAllocator>, base: usize, bs: usize }
impl Sut for PoolSut {
    fn alloc(&mut self, s: usize, a: usize) -> Option<Result<u64, &'static str>> {
        let base = self.base; let p = &self.p;
        guarded(|| p.allocate(lay(s, a)).map(|q| (q.as_ptr() as usize - base) as u64).map_err(err_name))
    }
    fn dealloc(&mut self, v: u64) -> Option<()> {
        let base = self.base; let p = &self.p;
        guarded(|| unsafe { p.deallocate(NonNull::new_unchecked((base + v as usize) as *mut u8), lay(1, 1)) })
    }
    fn bad_value(&self) -> Option<u64> {
        if self.bs > 1 { Some((self.p.start_address() as usize - self.base + 1) as u64) } else { None }
    }
    fn bucket(&self) -> Option<(usize, usize)> { Some((self.p.bucket_size(), self.p.max_alignment())) }
}

pub fn pool_case(bs: usize, ba: usize, ptr_off: usize, size: usize, ops: &[Op], out: &mut Out) {
    out.line(&format!("C pool {} {} {} {}", bs, ba, ptr_off, size));
    let blk = Block::new(ptr_off + size + 64);
    let mut mgmt = vec![0u32; 1 << 15];
    let bump = BumpAllocator::new(NonNull::new(mgmt.as_mut_ptr() as *mut u8).unwrap(), mgmt.len() * 4);
    let ptr = NonNull::new((blk.base + ptr_off) as *mut u8).unwrap();
    // the index set holds a self-relative pointer to its management memory: the allocator must
    // not move after init(), so it is boxed first
    let r = guarded(|| Box::new(unsafe { PoolAllocator::new_uninit(lay(bs, ba), ptr, size) }));
    let mut p = match r { None => { out.line("O new = P"); return; } Some(p) => p };
    match guarded(|| unsafe { p.init(&bump) }) {
        None => { out.line("O new = P"); return; }
        Some(Err(e)) => { out.line(&format!("O new = err:{}", err_name(e))); return; }
        Some(Ok(())) => {}
    }
    out.line(&format!("O new = ok:{}:{}:{}", p.number_of_buckets(), p.start_address() as usize - blk.base, p.bucket_size()));
    let mut sut = PoolSut { p, base: blk.base, bs };
    run_history(&mut sut, ops, out);
}

fn seg_sizes(bs: usize, ba: usize, level: usize) -> Vec<usize> {
    let abs = if bs % ba == 0 { bs } else { bs + ba - bs % ba };
    let mut v = vec![];
    let ks: &[usize] = if level >= 2 { &[0, 1, 2, 3, 5] } else { &[0, 1, 3] };
    for k in ks {
        for extra in [0usize, 1, ba - 1, abs.saturating_sub(1), abs / 2] { v.push(k * abs + extra); }
        v.push(k * bs + ba - 1); // data_segment.rs sizing with the raw size
    }
    v.sort(); v.dedup(); v
}

pub fn run_pool(args: &Args, out: &mut Out) {
    if args.mode == "wit" {
        // F13 witness: Layout(5,4) over a 16-aligned block of 64 bytes, three Layout(4,4) requests
        pool_case(5, 4, 0, 64, &[Op::Alloc(4, 4), Op::Alloc(4, 4), Op::Alloc(4, 4), Op::DeallocNth(1), Op::Alloc(5, 1)], out);
        pool_case(5, 4, 3, 64, &[Op::Alloc(4, 4), Op::Alloc(4, 4), Op::Alloc(6, 1)], out);
        return;
    }
    let bsizes: Vec<usize> = if args.level >= 2 { vec![0, 1, 2, 3, 4, 5, 6, 7, 8, 9, 12, 15, 16, 17, 24, 31, 32, 33, 48, 64, 100, 128, 1000] } else { vec![0, 1, 3, 4, 5, 8, 12, 16, 17, 33, 64, 100] };
    let aligns: Vec<usize> = if args.level >= 2 { ALIGNS.to_vec() } else { vec![1, 2, 4, 8, 16, 64, 512, 4096] };
    let offs: Vec<usize> = if args.level >= 2 { vec![0, 1, 2, 3, 4, 5, 7, 8, 9, 15, 16, 17, 31, 32, 63, 64, 100, 4095, 4096, 4097] } else { vec![0, 1, 3, 4, 8, 9, 16, 33, 4095] };
    let mut idx = 0u64;
    if args.mode == "exh" {
        for &bs in &bsizes { for &ba in &aligns { for &off in &offs { for size in seg_sizes(bs, ba, args.level) {
            idx += 1; if idx % args.nshards != args.shard { continue; }
            let abs = if bs % ba == 0 { bs } else { bs + ba - bs % ba };
            let nbg = if abs == 0 { 0 } else { size / abs };
            pool_case(bs, ba, off, size, &canonical_history(bs, ba, nbg), out);
        } } } }
    } else {
        let mut rng = Rng(args.seed ^ 0xC15_0001 ^ (args.shard << 32));
        for _ in 0..args.ncases {
            let bs = if rng.below(3) == 0 { rng.pick(&bsizes) } else { rng.below(70) as usize };
            let ba = rng.pick_align(4, 6);
            let off = if rng.below(3) == 0 { rng.pick(&offs) } else { rng.below(70) as usize };
            let abs = if bs % ba == 0 { bs } else { bs + ba - bs % ba };
            let size = rng.below(12) as usize * abs.max(1) + rng.below(abs as u64 + ba as u64 + 1) as usize;
            let ops = random_history(&mut rng, bs, ba, args.level.max(1) * 40);
            pool_case(bs, ba, off, size, &ops, out);
        }
    }
}

// ------------------------------------------------------------------------------------ fixed
fn fixed_case_m<const M: usize>(bs: usize, ba: usize, ptr_off: usize, size: usize, ops: &[Op], out: &mut Out) {
    out.line(&format!("C fixed {} {} {} {} {}", M, bs, ba, ptr_off, size));
    let blk = Block::new(ptr_off + size + 64);
    let ptr = NonNull::new((blk.base + ptr_off) as *mut u8).unwrap();
    // NOTE: the allocator is self-referential only through a relocatable (self-relative)
    // pointer, and FixedSizePoolAllocator::new returns it by value (the documented way to build
    // it); we box it after construction exactly like a caller storing it in a struct would.
    let r = guarded(|| FixedSizePoolAllocator::<M>::new(lay(bs, ba), ptr, size));
    let p = match r { None => { out.line("O new = P"); return; } Some(p) => p };
    out.line(&format!("O new = ok:{}:{}", p.number_of_buckets(), p.bucket_size()));
    // moving the value would invalidate the self-relative pointer; use it in place
    let base = blk.base;
    let mut live: Vec<u64> = vec![];
    for op in ops {
        match *op {
            Op::Alloc(s, a) => match guarded(|| p.allocate(lay(s, a)).map(|q| (q.as_ptr() as usize - base) as u64).map_err(err_name)) {
                None => { out.line(&format!("O alloc {} {} = P", s, a)); return; }
                Some(Ok(v)) => { live.push(v); out.line(&format!("O alloc {} {} = ok:{}", s, a, v)); }
                Some(Err(k)) => out.line(&format!("O alloc {} {} = err:{}", s, a, k)),
            },
            Op::DeallocNth(k) => if !live.is_empty() {
                let v = live.remove(k % live.len());
                match guarded(|| unsafe { p.deallocate(NonNull::new_unchecked((base + v as usize) as *mut u8), lay(1, 1)) }) {
                    Some(()) => out.line(&format!("O dealloc {} = ok", v)), None => { out.line(&format!("O dealloc {} = P", v)); return; } }
            },
            Op::Drain => {
                let (bsz, bal) = (p.bucket_size(), p.max_alignment());
                for _ in 0..100000 {
                    match guarded(|| p.allocate(lay(bsz, bal)).map(|q| (q.as_ptr() as usize - base) as u64).map_err(err_name)) {
                        None => { out.line(&format!("O alloc {} {} = P", bsz, bal)); return; }
                        Some(Ok(v)) => { live.push(v); out.line(&format!("O alloc {} {} = ok:{}", bsz, bal, v)); }
                        Some(Err(k)) => { out.line(&format!("O alloc {} {} = err:{}", bsz, bal, k)); break; }
                    }
                }
            }
            Op::DeallocBad => {}
        }
    }
}

pub fn fixed_case(m: usize, bs: usize, ba: usize, off: usize, size: usize, ops: &[Op], out: &mut Out) {
    match m {
        1 => fixed_case_m::<1>(bs, ba, off, size, ops, out),
        2 => fixed_case_m::<2>(bs, ba, off, size, ops, out),
        3 => fixed_case_m::<3>(bs, ba, off, size, ops, out),
        4 => fixed_case_m::<4>(bs, ba, off, size, ops, out),
        8 => fixed_case_m::<8>(bs, ba, off, size, ops, out),
        _ => fixed_case_m::<16>(bs, ba, off, size, ops, out),
    }
}

pub fn run_fixed(args: &Args, out: &mut Out) {
    let mut idx = 0u64;
    if args.mode == "wit" {
        // F16 witness: MAX = 4, Layout(8,8), aligned block of 32 bytes = exactly 4 buckets
        fixed_case(4, 8, 8, 0, 32, &[Op::Alloc(8, 8)], out);
        return;
    }
    if args.mode == "exh" {
        for m in [1usize, 2, 3, 4, 8, 16] { for bs in [1usize, 4, 5, 8, 24] { for ba in [1usize, 4, 8, 64] { for off in [0usize, 1, 8] {
            let abs = if bs % ba == 0 { bs } else { bs + ba - bs % ba };
            for k in [0usize, 1, m.saturating_sub(1), m, m + 1, 2 * m + 1] {
                for extra in [0usize, ba - 1] {
                    idx += 1; if idx % args.nshards != args.shard { continue; }
                    let size = k * abs + extra + if off % ba == 0 { 0 } else { ba - off % ba };
                    fixed_case(m, bs, ba, off, size, &canonical_history(bs, ba, k.min(m)), out);
                }
            }
        } } } }
    } else {
        let mut rng = Rng(args.seed ^ 0xC15_0002 ^ (args.shard << 32));
        for _ in 0..args.ncases {
            let m = rng.pick(&[1usize, 2, 3, 4, 8, 16]);
            let bs = 1 + rng.below(40) as usize; let ba = rng.pick(&ALIGNS[..5]);
            let abs = if bs % ba == 0 { bs } else { bs + ba - bs % ba };
            let off = rng.below(20) as usize;
            let size = rng.below(2 * m as u64 + 2) as usize * abs + rng.below(2 * ba as u64) as usize + ba;
            let ops = random_history(&mut rng, bs, ba, 30);
            fixed_case(m, bs, ba, off, size, &ops, out);
        }
    }
}

// ------------------------------------------------------------------------------------ bump
pub fn bump_case(ptr_off: usize, size: usize, ops: &[Op], out: &mut Out) {
    out.line(&format!("C bump {} {}", ptr_off, size));
    let blk = Block::new(ptr_off + size + 64);
    let b = BumpAllocator::new(NonNull::new((blk.base + ptr_off) as *mut u8).unwrap(), size);
    for op in ops {
        if let Op::Alloc(s, a) = *op {
            match guarded(|| b.allocate(lay(s, a)).map(|q| q.as_ptr() as usize - blk.base).map_err(err_name)) {
                None => { out.line(&format!("O alloc {} {} = P", s, a)); return; }
                Some(Ok(v)) => out.line(&format!("O alloc {} {} = ok:{}", s, a, v)),
                Some(Err(k)) => out.line(&format!("O alloc {} {} = err:{}", s, a, k)),
            }
            out.line(&format!("O used = {}", b.used_space()));
        }
    }
}

pub fn run_bump(args: &Args, out: &mut Out) {
    let mut idx = 0u64;
    if args.mode == "exh" {
        let sizes = [0usize, 1, 2, 3, 5, 8, 13, 16, 17, 64];
        let als = [1usize, 2, 4, 8, 64, 4096];
        for off in [0usize, 1, 3, 4, 7, 8, 4095] { for total in [0usize, 1, 7, 16, 33, 100, 5000] {
            // every pair of consecutive requests from the sweep, then fill with 1-byte requests
            for &s1 in &sizes { for &a1 in &als { for &s2 in &sizes { for &a2 in &als {
                idx += 1; if idx % args.nshards != args.shard { continue; }
                if args.level < 2 && (idx / args.nshards) % 4 != 0 { continue; }
                bump_case(off, total, &[Op::Alloc(s1, a1), Op::Alloc(s2, a2), Op::Alloc(1, 1), Op::Alloc(total, 1), Op::Alloc(1, 2)], out);
            } } } }
        } }
    } else {
        let mut rng = Rng(args.seed ^ 0xC15_0003 ^ (args.shard << 32));
        for _ in 0..args.ncases {
            let off = rng.below(64) as usize; let total = rng.below(600) as usize;
            let mut ops = vec![];
            for _ in 0..(args.level.max(1) * 25) { ops.push(Op::Alloc(if rng.below(10) == 0 { 0 } else { rng.below(40) as usize }, rng.pick_align(5, 5))); }
            bump_case(off, total, &ops, out);
        }
    }
}

// ------------------------------------------------------------------------------------ one chunk
struct OcSut { o: OneChunkAllocator, base: usize }
impl Sut for OcSut {
    fn alloc(&mut self, s: usize, a: usize) -> Option<Result<u64, &'static str>> {
        let base = self.base; let o = &self.o;
        guarded(|| o.allocate(lay(s, a)).map(|q| (q.as_ptr() as usize - base) as u64).map_err(err_name))
    }
    fn dealloc(&mut self, v: u64) -> Option<()> {
        let base = self.base; let o = &self.o;
        guarded(|| unsafe { o.deallocate(NonNull::new_unchecked((base + v as usize) as *mut u8), lay(1, 1)) })
    }
    fn bad_value(&self) -> Option<u64> { Some((self.o.start_address() as usize - self.base + 1) as u64) }
}

pub fn onechunk_case(ptr_off: usize, size: usize, ops: &[Op], out: &mut Out) {
    out.line(&format!("C onechunk {} {}", ptr_off, size));
    let blk = Block::new(ptr_off + size + 64);
    let o = OneChunkAllocator::new(NonNull::new((blk.base + ptr_off) as *mut u8).unwrap(), size);
    let mut sut = OcSut { o, base: blk.base };
    run_history(&mut sut, ops, out);
}

pub fn run_onechunk(args: &Args, out: &mut Out) {
    let mut idx = 0u64;
    if args.mode == "exh" {
        for off in [0usize, 1, 2, 3, 4, 7, 8, 9, 63, 64, 4095] { for size in [0usize, 1, 2, 7, 8, 9, 16, 64, 100, 5000] {
            for s in [0usize, 1, size.saturating_sub(9), size.saturating_sub(1), size, size + 1] { for a in [1usize, 2, 4, 8, 64, 4096] {
                idx += 1; if idx % args.nshards != args.shard { continue; }
                onechunk_case(off, size, &[Op::Alloc(s, a), Op::Alloc(1, 1), Op::DeallocNth(0), Op::Alloc(s, 1), Op::DeallocNth(0), Op::Alloc(0, a), Op::DeallocBad], out);
            } }
        } }
    } else {
        let mut rng = Rng(args.seed ^ 0xC15_0004 ^ (args.shard << 32));
        for _ in 0..args.ncases {
            let off = rng.below(70) as usize; let size = rng.below(300) as usize;
            let ops = random_history(&mut rng, size, 8, 20);
            onechunk_case(off, size, &ops, out);
        }
    }
}

// ------------------------------------------------------------------------------------ drain (search) mode
/// extra argv of the drain mode: c15 drn <component> <level> <shard> <nshards> <seed> <p1> <p2> ...
pub fn drain_params() -> Vec<usize> { std::env::args().skip(7).map(|s| s.parse().unwrap()).collect() }

pub const GUARD: usize = 4096;
pub fn fill_guards(base: usize, off: usize, size: usize) {
    unsafe {
        for i in 0..off { *((base + i) as *mut u8) = 0xA5; }
        for i in 0..GUARD { *((base + off + size + i) as *mut u8) = 0xA5; }
    }
}
fn guards_ok(base: usize, off: usize, size: usize) -> bool {
    unsafe { (0..off).all(|i| *((base + i) as *const u8) == 0xA5) && (0..GUARD).all(|i| *((base + off + size + i) as *const u8) == 0xA5) }
}

/// Search history: drain the pool with full-bucket requests, write a canary into EVERY byte of
/// every bucket, re-read all canaries after each deallocate / allocate round, and check the
/// guard zones before and behind the real block [base+off, base+off+size).
pub fn drain_run(sut: &mut dyn Sut, addr_of: &dyn Fn(u64) -> usize, base: usize, off: usize, size: usize, out: &mut Out) {
    let (bsz, bal) = match sut.bucket() { Some(b) => b, None => return };
    let hi_writable = base + off + size + GUARD;
    let mut live: Vec<(u64, u8)> = vec![];
    let mut next = 1u8;
    let fill = |v: u64, c: u8| -> bool {
        let a = addr_of(v);
        if a < base || a + bsz > hi_writable { return false; }
        for i in 0..bsz { unsafe { *((a + i) as *mut u8) = c.wrapping_add(i as u8) }; }
        true
    };
    let check = |live: &Vec<(u64, u8)>| -> bool {
        live.iter().all(|(v, c)| { let a = addr_of(*v); a >= base && a + bsz <= hi_writable && (0..bsz).all(|i| unsafe { *((a + i) as *const u8) } == c.wrapping_add(i as u8)) })
    };
    for round in 0..3 {
        for _ in 0..100000 {
            match sut.alloc(bsz, bal) {
                None => { out.line(&format!("O alloc {} {} = P", bsz, bal)); return; }
                Some(Err(k)) => { out.line(&format!("O alloc {} {} = err:{}", bsz, bal, k)); break; }
                Some(Ok(v)) => {
                    out.line(&format!("O alloc {} {} = ok:{}", bsz, bal, v));
                    let c = next; next = next.wrapping_add(41);
                    if !fill(v, c) { out.line("O canary = 0"); }
                    live.push((v, c));
                    out.line(&format!("O canary = {}", if check(&live) { 1 } else { 0 }));
                }
            }
        }
        out.line(&format!("O guard = {}", if guards_ok(base, off, size) { 1 } else { 0 }));
        // free every other one (round 0), every third (round 1), all (round 2)
        let step = [2usize, 3, 1][round];
        let mut k = 0;
        while k < live.len() {
            let (v, _) = live.remove(k);
            match sut.dealloc(v) { Some(()) => out.line(&format!("O dealloc {} = ok", v)), None => { out.line(&format!("O dealloc {} = P", v)); return; } }
            out.line(&format!("O canary = {}", if check(&live) { 1 } else { 0 }));
            k += step - 1;
        }
    }
    out.line(&format!("O guard = {}", if guards_ok(base, off, size) { 1 } else { 0 }));
}

pub fn drain_pool(out: &mut Out) {
    let q = drain_params();
    if q.len() < 4 { return; }
    let (bs, ba, off, size) = (q[0], q[1], q[2], q[3]);
    out.line(&format!("C pool {} {} {} {}", bs, ba, off, size));
    let blk = Block::new(off + size + GUARD + 64);
    fill_guards(blk.base, off, size);
    let mut mgmt = vec![0u32; 1 << 15];
    let bump = BumpAllocator::new(NonNull::new(mgmt.as_mut_ptr() as *mut u8).unwrap(), mgmt.len() * 4);
    let ptr = NonNull::new((blk.base + off) as *mut u8).unwrap();
    let r = guarded(|| Box::new(unsafe { PoolAllocator::new_uninit(lay(bs, ba), ptr, size) }));
    let mut p = match r { None => { out.line("O new = P"); return; } Some(p) => p };
    match guarded(|| unsafe { p.init(&bump) }) { Some(Ok(())) => {} _ => { out.line("O new = P"); return; } }
    out.line(&format!("O new = ok:{}:{}:{}", p.number_of_buckets(), p.start_address() as usize - blk.base, p.bucket_size()));
    let base = blk.base;
    let mut sut = PoolSut { p, base, bs };
    drain_run(&mut sut, &|v| base + v as usize, base, off, size, out);
}

struct FixedRef<'a, const M: usize> { p: &'a FixedSizePoolAllocator<M>, base: usize }
impl<'a, const M: usize> Sut for FixedRef<'a, M> {
    fn alloc(&mut self, s: usize, a: usize) -> Option<Result<u64, &'static str>> {
        let base = self.base; let p = self.p;
        guarded(|| p.allocate(lay(s, a)).map(|q| (q.as_ptr() as usize - base) as u64).map_err(err_name))
    }
    fn dealloc(&mut self, v: u64) -> Option<()> {
        let base = self.base; let p = self.p;
        guarded(|| unsafe { p.deallocate(NonNull::new_unchecked((base + v as usize) as *mut u8), lay(1, 1)) })
    }
    fn bucket(&self) -> Option<(usize, usize)> { Some((self.p.bucket_size(), self.p.max_alignment())) }
}

fn drain_fixed_m<const M: usize>(bs: usize, ba: usize, off: usize, size: usize, out: &mut Out) {
    out.line(&format!("C fixed {} {} {} {} {}", M, bs, ba, off, size));
    let blk = Block::new(off + size + GUARD + 64);
    fill_guards(blk.base, off, size);
    let ptr = NonNull::new((blk.base + off) as *mut u8).unwrap();
    let p = match guarded(|| FixedSizePoolAllocator::<M>::new(lay(bs, ba), ptr, size)) { None => { out.line("O new = P"); return; } Some(p) => p };
    out.line(&format!("O new = ok:{}:{}", p.number_of_buckets(), p.bucket_size()));
    let base = blk.base;
    let mut sut = FixedRef { p: &p, base };
    drain_run(&mut sut, &|v| base + v as usize, base, off, size, out);
}

pub fn drain_fixed(out: &mut Out) {
    let q = drain_params();
    if q.len() < 5 { return; }
    match q[0] {
        1 => drain_fixed_m::<1>(q[1], q[2], q[3], q[4], out), 2 => drain_fixed_m::<2>(q[1], q[2], q[3], q[4], out),
        3 => drain_fixed_m::<3>(q[1], q[2], q[3], q[4], out), 4 => drain_fixed_m::<4>(q[1], q[2], q[3], q[4], out),
        8 => drain_fixed_m::<8>(q[1], q[2], q[3], q[4], out), _ => drain_fixed_m::<16>(q[1], q[2], q[3], q[4], out),
    }
}
