//! message_type_details.rs layout arithmetic (the real source file, compiled into this crate)
use crate::message_type_details::{MessageTypeDetails, TypeDetail, TypeVariant};
use crate::*;

fn td(size: usize, align: usize) -> TypeDetail {
    TypeDetail::__internal_new_from_parts(TypeVariant::FixedSize, "t", size, align).unwrap()
}

const VBASE: usize = 1 << 20;

pub fn case(h: (usize, usize), u: (usize, usize), p: (usize, usize), out: &mut Out) {
    out.line(&format!("C mtd {} {} {} {} {} {}", h.0, h.1, u.0, u.1, p.0, p.1));
    let m = MessageTypeDetails { header: td(h.0, h.1), user_header: td(u.0, u.1), payload: td(p.0, p.1) };
    out.line(&format!("O hdrlen = {}", m.all_headers_len()));
    out.line(&format!("O maxalign = {}", m.max_alignment()));
    for n in [0usize, 1, 2, 3, 7, 100] {
        let l = m.chunk_layout(n);
        out.line(&format!("O layout {} = {}:{}", n, l.size(), l.align()));
    }
    let ma = m.max_alignment();
    for hoff in [0usize, ma, 3 * ma, 1, 4, 8, 24, 100] {
        let hp = (VBASE + hoff) as *const u8;
        out.line(&format!("O uptr {} = {}", hoff, m.user_header_ptr_from_header(hp) as usize - VBASE));
        out.line(&format!("O pptr {} = {}", hoff, m.payload_ptr_from_header(hp) as usize - VBASE));
    }
}

pub fn run(args: &Args, out: &mut Out) {
    let mut idx = 0u64;
    if args.mode == "exh" {
        let sizes: Vec<usize> = if args.level >= 2 { vec![0, 1, 3, 4, 8, 12, 17, 40, 41] } else { vec![0, 1, 4, 12, 17, 40] };
        let aligns: Vec<usize> = if args.level >= 2 { vec![1, 2, 4, 8, 16, 64, 4096] } else { vec![1, 4, 8, 16, 64] };
        // the real header types have alignment 8 (publish_subscribe::Header, request/response headers)
        for &hs in &[8usize, 24, 40, 4] { for &ha in &[8usize, 4] { for &us in &sizes { for &ua in &aligns { for &ps in &sizes { for &pa in &aligns {
            idx += 1; if idx % args.nshards != args.shard { continue; }
            case((hs, ha), (us, ua), (ps, pa), out);
        } } } } } }
    } else {
        let mut rng = Rng(args.seed ^ 0xC15_0008 ^ (args.shard << 32));
        for _ in 0..args.ncases {
            // alignments are powers of two (align_of / Alignment); chunk_layout builds a Layout from them
            let mut t = || (rng.below(80) as usize, rng.pick_align(8, 7));
            let (h, u, p) = (t(), t(), t());
            case(h, u, p, out);
        }
    }
}
