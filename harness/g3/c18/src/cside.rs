//! C-ABI participants: everything goes through the exported `extern "C"` functions of
//! iceoryx2-ffi-c exactly as a C program would call them (NULL storage pointers = heap handles).
use crate::ev::{EvCfg, EvWorld, ListenerSide, NotifierSide};
use crate::ps::{PsCfg, PsWorld, PubSide, SubSide};
use crate::{hex, pattern};
use core::ffi::{c_char, c_int, c_void};
use core::ptr::null_mut;
use iceoryx2_ffi_c::*;

unsafe fn cs(p: *const c_char) -> String {
    if p.is_null() {
        return "<null>".into();
    }
    core::ffi::CStr::from_ptr(p).to_string_lossy().into_owned()
}

/// `E:<C enum>:<code>:<printable name>`; the enum value is produced from the bare int exactly as
/// a C caller would (`(iox2_x_e) rc`)
macro_rules! cerr {
    ($enum:ident, $strfn:ident, $rc:expr) => {{
        let rc: c_int = $rc;
        let name = unsafe { cs($strfn(core::mem::transmute::<c_int, $enum>(rc))) };
        format!("E:{}:{}:{}", stringify!($enum), rc, name).replace(' ', "_")
    }};
}

unsafe fn c_node(local: bool, node: &str) -> Result<iox2_node_h, String> {
    let nb = iox2_node_builder_new(null_mut());
    let mut nn: iox2_node_name_h = null_mut();
    let rc = iox2_node_name_new(null_mut(), node.as_ptr() as *const c_char, node.len() as _, &mut nn);
    if rc != IOX2_OK {
        return Err(cerr!(iox2_semantic_string_error_e, iox2_semantic_string_error_string, rc));
    }
    iox2_node_builder_set_name(&nb, iox2_cast_node_name_ptr(nn));
    iox2_node_name_drop(nn);
    let mut nh: iox2_node_h = null_mut();
    let rc = iox2_node_builder_create(nb, null_mut(), if local { iox2_service_type_e::LOCAL } else { iox2_service_type_e::IPC }, &mut nh);
    if rc != IOX2_OK {
        return Err(cerr!(iox2_node_creation_failure_e, iox2_node_creation_failure_string, rc));
    }
    Ok(nh)
}

unsafe fn c_service_builder(nh: &iox2_node_h, svc: &str) -> Result<iox2_service_builder_h, String> {
    let mut sn: iox2_service_name_h = null_mut();
    let rc = iox2_service_name_new(null_mut(), svc.as_ptr() as *const c_char, svc.len() as _, &mut sn);
    if rc != IOX2_OK {
        return Err(cerr!(iox2_semantic_string_error_e, iox2_semantic_string_error_string, rc));
    }
    let sb = iox2_node_service_builder(nh, null_mut(), iox2_cast_service_name_ptr(sn));
    iox2_service_name_drop(sn);
    Ok(sb)
}

// ------------------------------------------------------------------------------------------
// publish-subscribe
// ------------------------------------------------------------------------------------------
struct CWorld {
    node: iox2_node_h,
    factory: iox2_port_factory_pub_sub_h,
    size: usize,
    hdr: usize,
}

unsafe fn set_hdr(b: &iox2_service_builder_pub_sub_h, cfg: &PsCfg) -> c_int {
    if cfg.hdr_size == 0 {
        return IOX2_OK; // the C API defaults to "()" / 0 / 1
    }
    iox2_service_builder_pub_sub_set_user_header_type_details(
        b,
        iox2_type_variant_e::FIXED_SIZE,
        cfg.hdr_name.as_ptr() as *const c_char,
        cfg.hdr_name.len() as _,
        cfg.hdr_size as _,
        cfg.hdr_align as _,
    )
}

pub fn ps_world(cfg: &PsCfg, svc: &str, node: &str) -> Result<Box<dyn PsWorld>, String> {
    unsafe {
        let nh = c_node(cfg.local, node)?;
        let sb = match c_service_builder(&nh, svc) {
            Ok(s) => s,
            Err(e) => {
                iox2_node_drop(nh);
                return Err(e);
            }
        };
        let b = iox2_service_builder_pub_sub(sb);
        let rc = iox2_service_builder_pub_sub_set_payload_type_details(
            &b,
            if cfg.dynamic { iox2_type_variant_e::DYNAMIC } else { iox2_type_variant_e::FIXED_SIZE },
            cfg.type_name.as_ptr() as *const c_char,
            cfg.type_name.len() as _,
            cfg.size as _,
            cfg.align as _,
        );
        if rc != IOX2_OK {
            iox2_node_drop(nh);
            return Err(format!("E:iox2_type_detail_error_e:{}:-", rc));
        }
        let rc = set_hdr(&b, cfg);
        if rc != IOX2_OK {
            iox2_node_drop(nh);
            return Err(format!("E:iox2_type_detail_error_e:{}:-", rc));
        }
        iox2_service_builder_pub_sub_set_subscriber_max_buffer_size(&b, cfg.buf as _);
        iox2_service_builder_pub_sub_set_subscriber_max_borrowed_samples(&b, cfg.borrow as _);
        iox2_service_builder_pub_sub_set_enable_safe_overflow(&b, cfg.overflow);
        iox2_service_builder_pub_sub_set_history_size(&b, cfg.history as _);
        iox2_service_builder_pub_sub_set_max_publishers(&b, 2);
        iox2_service_builder_pub_sub_set_max_subscribers(&b, 3);
        iox2_service_builder_pub_sub_set_max_nodes(&b, 8);
        let mut f: iox2_port_factory_pub_sub_h = null_mut();
        let rc = iox2_service_builder_pub_sub_open_or_create(b, null_mut(), &mut f);
        if rc != IOX2_OK {
            iox2_node_drop(nh);
            return Err(cerr!(iox2_pub_sub_open_or_create_error_e, iox2_pub_sub_open_or_create_error_string, rc));
        }
        Ok(Box::new(CWorld { node: nh, factory: f, size: cfg.size, hdr: cfg.hdr_size }))
    }
}

impl PsWorld for CWorld {
    fn make_pub(&self, cfg: &PsCfg) -> Result<Box<dyn PubSide>, String> {
        unsafe {
            let b = iox2_port_factory_pub_sub_publisher_builder(&self.factory, null_mut());
            iox2_port_factory_publisher_builder_set_max_loaned_samples(&b, cfg.loans as _);
            iox2_port_factory_publisher_builder_backpressure_strategy(&b, iox2_backpressure_strategy_e::DISCARD_DATA);
            if cfg.dynamic {
                iox2_port_factory_publisher_builder_set_initial_max_slice_len(&b, cfg.slice_len as _);
            }
            let mut p: iox2_publisher_h = null_mut();
            let rc = iox2_port_factory_publisher_builder_create(b, null_mut(), &mut p);
            if rc != IOX2_OK {
                return Err(cerr!(iox2_publisher_create_error_e, iox2_publisher_create_error_string, rc));
            }
            Ok(Box::new(CPub { port: Some(p), loans: Vec::new(), size: self.size, hdr: self.hdr, dynamic: cfg.dynamic }))
        }
    }
    fn make_sub(&self, cfg: &PsCfg, history_request: Option<usize>) -> Result<Box<dyn SubSide>, String> {
        unsafe {
            let b = iox2_port_factory_pub_sub_subscriber_builder(&self.factory, null_mut());
            iox2_port_factory_subscriber_builder_set_buffer_size(&b, cfg.buf as _);
            if let Some(h) = history_request {
                iox2_port_factory_subscriber_builder_set_history_request(&b, h as _);
            }
            let mut s: iox2_subscriber_h = null_mut();
            let rc = iox2_port_factory_subscriber_builder_create(b, null_mut(), &mut s);
            if rc != IOX2_OK {
                return Err(cerr!(iox2_subscriber_create_error_e, iox2_subscriber_create_error_string, rc));
            }
            Ok(Box::new(CSub { port: Some(s), held: Vec::new(), size: self.size, hdr: self.hdr }))
        }
    }
    fn counts(&self) -> (usize, usize) {
        unsafe {
            (
                iox2_port_factory_pub_sub_dynamic_config_number_of_publishers(&self.factory),
                iox2_port_factory_pub_sub_dynamic_config_number_of_subscribers(&self.factory),
            )
        }
    }
    fn bad_sub(&self, cfg: &PsCfg) -> String {
        unsafe {
            let b = iox2_port_factory_pub_sub_subscriber_builder(&self.factory, null_mut());
            iox2_port_factory_subscriber_builder_set_buffer_size(&b, (cfg.buf + 1) as _);
            let mut s: iox2_subscriber_h = null_mut();
            let rc = iox2_port_factory_subscriber_builder_create(b, null_mut(), &mut s);
            if rc != IOX2_OK {
                return cerr!(iox2_subscriber_create_error_e, iox2_subscriber_create_error_string, rc);
            }
            iox2_subscriber_drop(s);
            "ok".into()
        }
    }
    fn probe(&self, cfg: &PsCfg, svc: &str, kind: usize) -> String {
        unsafe {
            let name = if kind == 4 { format!("{}_nx", svc) } else { svc.to_string() };
            let sb = match c_service_builder(&self.node, &name) {
                Ok(s) => s,
                Err(e) => return e,
            };
            let b = iox2_service_builder_pub_sub(sb);
            let (tname, size) = if kind == 0 { ("verif_other".to_string(), cfg.size * 2) } else { (cfg.type_name.clone(), cfg.size) };
            let rc = iox2_service_builder_pub_sub_set_payload_type_details(
                &b,
                if cfg.dynamic { iox2_type_variant_e::DYNAMIC } else { iox2_type_variant_e::FIXED_SIZE },
                tname.as_ptr() as *const c_char,
                tname.len() as _,
                size as _,
                cfg.align as _,
            );
            if rc != IOX2_OK {
                return format!("E:iox2_type_detail_error_e:{}:-", rc);
            }
            let rc = set_hdr(&b, cfg);
            if rc != IOX2_OK {
                return format!("E:iox2_type_detail_error_e:{}:-", rc);
            }
            match kind {
                1 => iox2_service_builder_pub_sub_set_subscriber_max_buffer_size(&b, (cfg.buf + 1) as _),
                2 => iox2_service_builder_pub_sub_set_max_publishers(&b, 3),
                3 => iox2_service_builder_pub_sub_set_enable_safe_overflow(&b, !cfg.overflow),
                6 => iox2_service_builder_pub_sub_set_max_subscribers(&b, 5),
                7 => iox2_service_builder_pub_sub_set_subscriber_max_borrowed_samples(&b, (cfg.borrow + 1) as _),
                _ => {}
            }
            let mut f: iox2_port_factory_pub_sub_h = null_mut();
            let rc = if kind == 5 { iox2_service_builder_pub_sub_create(b, null_mut(), &mut f) } else { iox2_service_builder_pub_sub_open(b, null_mut(), &mut f) };
            if rc != IOX2_OK {
                return cerr!(iox2_pub_sub_open_or_create_error_e, iox2_pub_sub_open_or_create_error_string, rc);
            }
            iox2_port_factory_pub_sub_drop(f);
            "ok".into()
        }
    }
    fn teardown(self: Box<Self>, node_first: bool) {
        unsafe {
            if node_first {
                iox2_node_drop(self.node);
                iox2_port_factory_pub_sub_drop(self.factory);
            } else {
                // self-test of the leak observation only: VERIF_C18_LEAK leaks the port factory handle
                if std::env::var_os("VERIF_C18_LEAK").is_none() {
                    iox2_port_factory_pub_sub_drop(self.factory);
                }
                iox2_node_drop(self.node);
            }
        }
    }
}

struct CPub {
    port: Option<iox2_publisher_h>,
    loans: Vec<iox2_sample_mut_h>,
    size: usize,
    hdr: usize,
    dynamic: bool,
}

impl CPub {
    unsafe fn payload(&self, slot: usize) -> (*mut u8, usize) {
        let mut p: *mut c_void = null_mut();
        let mut n: usize = 0;
        iox2_sample_mut_payload_mut(&self.loans[slot], &mut p, &mut n);
        (p as *mut u8, n * self.size)
    }
    unsafe fn header(&self, slot: usize) -> *mut u8 {
        let mut p: *mut c_void = null_mut();
        iox2_sample_mut_user_header_mut(&self.loans[slot], &mut p);
        p as *mut u8
    }
}

impl PubSide for CPub {
    fn alive(&self) -> bool {
        self.port.is_some()
    }
    fn loan(&mut self, n: usize) -> Result<(), String> {
        unsafe {
            let mut s: iox2_sample_mut_h = null_mut();
            let rc = iox2_publisher_loan_slice_uninit(self.port.as_ref().unwrap(), null_mut(), &mut s, n);
            if rc != IOX2_OK {
                return Err(cerr!(iox2_loan_error_e, iox2_loan_error_string, rc));
            }
            self.loans.push(s);
            let (p, nb) = self.payload(self.loans.len() - 1);
            for i in 0..nb {
                p.add(i).write(0);
            }
            let h = self.header(self.loans.len() - 1);
            for i in 0..self.hdr {
                h.add(i).write(0);
            }
            Ok(())
        }
    }
    fn nloans(&self) -> usize {
        self.loans.len()
    }
    fn write(&mut self, slot: usize, seed: u64) -> usize {
        unsafe {
            let (p, nb) = self.payload(slot);
            // self-test of the comparison only: VERIF_C18_MUTATE makes the C side write other bytes
            let seed = if std::env::var_os("VERIF_C18_MUTATE").is_some() { seed + 1 } else { seed };
            for i in 0..nb {
                p.add(i).write(pattern(seed, i));
            }
            let h = self.header(slot);
            for i in 0..self.hdr {
                h.add(i).write(pattern(seed + 77, i));
            }
            nb
        }
    }
    fn send(&mut self, slot: usize) -> Result<usize, String> {
        unsafe {
            let s = self.loans.remove(slot);
            let mut n: usize = 0;
            let rc = iox2_sample_mut_send(s, &mut n);
            if rc != IOX2_OK {
                return Err(cerr!(iox2_send_error_e, iox2_send_error_string, rc));
            }
            Ok(n)
        }
    }
    fn send_copy(&mut self, n: usize, seed: u64) -> Result<usize, String> {
        unsafe {
            let data: Vec<u8> = (0..n * self.size).map(|i| pattern(seed, i)).collect();
            let mut r: usize = 0;
            let rc = if self.dynamic {
                iox2_publisher_send_slice_copy(self.port.as_ref().unwrap(), data.as_ptr() as *const c_void, self.size, n, &mut r)
            } else {
                iox2_publisher_send_copy(self.port.as_ref().unwrap(), data.as_ptr() as *const c_void, self.size, &mut r)
            };
            if rc != IOX2_OK {
                return Err(cerr!(iox2_send_error_e, iox2_send_error_string, rc));
            }
            Ok(r)
        }
    }
    fn drop_loan(&mut self, slot: usize) {
        unsafe { iox2_sample_mut_drop(self.loans.remove(slot)) }
    }
    fn update(&mut self) -> Result<(), String> {
        unsafe {
            let rc = iox2_publisher_update_connections(self.port.as_ref().unwrap());
            if rc != IOX2_OK {
                return Err(cerr!(iox2_connection_failure_e, iox2_connection_failure_string, rc));
            }
            Ok(())
        }
    }
    fn drop_port(&mut self) {
        if let Some(p) = self.port.take() {
            unsafe { iox2_publisher_drop(p) }
        }
    }
}

impl Drop for CPub {
    fn drop(&mut self) {
        unsafe {
            for s in self.loans.drain(..) {
                iox2_sample_mut_drop(s);
            }
            if let Some(p) = self.port.take() {
                iox2_publisher_drop(p);
            }
        }
    }
}

struct CSub {
    port: Option<iox2_subscriber_h>,
    held: Vec<iox2_sample_h>,
    size: usize,
    hdr: usize,
}

impl SubSide for CSub {
    fn alive(&self) -> bool {
        self.port.is_some()
    }
    fn recv(&mut self) -> Result<Option<String>, String> {
        unsafe {
            let mut s: iox2_sample_h = null_mut();
            let rc = iox2_subscriber_receive(self.port.as_ref().unwrap(), null_mut(), &mut s);
            if rc != IOX2_OK {
                return Err(cerr!(iox2_receive_error_e, iox2_receive_error_string, rc));
            }
            if s.is_null() {
                return Ok(None);
            }
            let mut p: *const c_void = core::ptr::null();
            let mut n: usize = 0;
            iox2_sample_payload(&s, &mut p, &mut n);
            let mut hh: iox2_publish_subscribe_header_h = null_mut();
            iox2_sample_header(&s, null_mut(), &mut hh);
            let hn = iox2_publish_subscribe_header_number_of_elements(&hh);
            iox2_publish_subscribe_header_drop(hh);
            let nb = n * self.size;
            let bytes = core::slice::from_raw_parts(p as *const u8, nb);
            let mut hp: *const c_void = core::ptr::null();
            iox2_sample_user_header(&s, &mut hp);
            let hb = core::slice::from_raw_parts(hp as *const u8, self.hdr);
            let d = if hn as usize == n { format!("n={} len={} {} hdr={}", hn, nb, hex(bytes), hex(hb)) } else { format!("n={}/{} len={} {} hdr={}", hn, n, nb, hex(bytes), hex(hb)) };
            self.held.push(s);
            Ok(Some(d))
        }
    }
    fn nheld(&self) -> usize {
        self.held.len()
    }
    fn release(&mut self, slot: usize) {
        unsafe { iox2_sample_drop(self.held.remove(slot)) }
    }
    fn has(&mut self) -> Result<bool, String> {
        unsafe {
            let mut r = false;
            let rc = iox2_subscriber_has_samples(self.port.as_ref().unwrap(), &mut r);
            if rc != IOX2_OK {
                return Err(cerr!(iox2_connection_failure_e, iox2_connection_failure_string, rc));
            }
            Ok(r)
        }
    }
    fn drop_port(&mut self) {
        if let Some(p) = self.port.take() {
            unsafe { iox2_subscriber_drop(p) }
        }
    }
}

impl Drop for CSub {
    fn drop(&mut self) {
        unsafe {
            for s in self.held.drain(..) {
                iox2_sample_drop(s);
            }
            if let Some(p) = self.port.take() {
                iox2_subscriber_drop(p);
            }
        }
    }
}

// ------------------------------------------------------------------------------------------
// event
// ------------------------------------------------------------------------------------------
struct CEvWorld {
    node: iox2_node_h,
    factory: iox2_port_factory_event_h,
}

pub fn ev_world(cfg: &EvCfg, svc: &str, node: &str) -> Result<Box<dyn EvWorld>, String> {
    unsafe {
        let nh = c_node(cfg.local, node)?;
        let sb = match c_service_builder(&nh, svc) {
            Ok(s) => s,
            Err(e) => {
                iox2_node_drop(nh);
                return Err(e);
            }
        };
        let b = iox2_service_builder_event(sb);
        iox2_service_builder_event_set_event_id_max_value(&b, cfg.max_id as _);
        iox2_service_builder_event_set_max_notifiers(&b, 4);
        iox2_service_builder_event_set_max_listeners(&b, 4);
        iox2_service_builder_event_set_max_nodes(&b, 8);
        let mut f: iox2_port_factory_event_h = null_mut();
        let rc = iox2_service_builder_event_open_or_create(b, null_mut(), &mut f);
        if rc != IOX2_OK {
            iox2_node_drop(nh);
            return Err(cerr!(iox2_event_open_or_create_error_e, iox2_event_open_or_create_error_string, rc));
        }
        Ok(Box::new(CEvWorld { node: nh, factory: f }))
    }
}

impl EvWorld for CEvWorld {
    fn make_notifier(&self, cfg: &EvCfg) -> Result<Box<dyn NotifierSide>, String> {
        unsafe {
            let b = iox2_port_factory_event_notifier_builder(&self.factory, null_mut());
            let id = iox2_event_id_t { value: cfg.default_id };
            iox2_port_factory_notifier_builder_set_default_event_id(&b, &id);
            let mut n: iox2_notifier_h = null_mut();
            let rc = iox2_port_factory_notifier_builder_create(b, null_mut(), &mut n);
            if rc != IOX2_OK {
                return Err(cerr!(iox2_notifier_create_error_e, iox2_notifier_create_error_string, rc));
            }
            Ok(Box::new(CNotifier { port: Some(n) }))
        }
    }
    fn make_listener(&self, _cfg: &EvCfg) -> Result<Box<dyn ListenerSide>, String> {
        unsafe {
            let b = iox2_port_factory_event_listener_builder(&self.factory, null_mut());
            let mut l: iox2_listener_h = null_mut();
            let rc = iox2_port_factory_listener_builder_create(b, null_mut(), &mut l);
            if rc != IOX2_OK {
                return Err(cerr!(iox2_listener_create_error_e, iox2_listener_create_error_string, rc));
            }
            Ok(Box::new(CListener { port: Some(l) }))
        }
    }
    fn counts(&self) -> (usize, usize) {
        unsafe {
            (
                iox2_port_factory_event_dynamic_config_number_of_notifiers(&self.factory),
                iox2_port_factory_event_dynamic_config_number_of_listeners(&self.factory),
            )
        }
    }
    fn probe(&self, cfg: &EvCfg, svc: &str, kind: usize) -> String {
        unsafe {
            let name = if kind == 3 { format!("{}_nx", svc) } else { svc.to_string() };
            let sb = match c_service_builder(&self.node, &name) {
                Ok(s) => s,
                Err(e) => return e,
            };
            let b = iox2_service_builder_event(sb);
            match kind {
                0 => iox2_service_builder_event_set_event_id_max_value(&b, (cfg.max_id + 1) as _),
                1 => iox2_service_builder_event_set_max_notifiers(&b, 5),
                2 => iox2_service_builder_event_set_max_listeners(&b, 5),
                _ => {}
            }
            let mut f: iox2_port_factory_event_h = null_mut();
            let rc = if kind == 4 { iox2_service_builder_event_create(b, null_mut(), &mut f) } else { iox2_service_builder_event_open(b, null_mut(), &mut f) };
            if rc != IOX2_OK {
                return cerr!(iox2_event_open_or_create_error_e, iox2_event_open_or_create_error_string, rc);
            }
            iox2_port_factory_event_drop(f);
            "ok".into()
        }
    }
    fn teardown(self: Box<Self>, node_first: bool) {
        unsafe {
            if node_first {
                iox2_node_drop(self.node);
                iox2_port_factory_event_drop(self.factory);
            } else {
                iox2_port_factory_event_drop(self.factory);
                iox2_node_drop(self.node);
            }
        }
    }
}

struct CNotifier {
    port: Option<iox2_notifier_h>,
}

impl NotifierSide for CNotifier {
    fn alive(&self) -> bool {
        self.port.is_some()
    }
    fn notify(&mut self) -> Result<usize, String> {
        unsafe {
            let mut n: usize = 0;
            let rc = iox2_notifier_notify(self.port.as_ref().unwrap(), &mut n);
            if rc != IOX2_OK {
                return Err(cerr!(iox2_notifier_notify_error_e, iox2_notifier_notify_error_string, rc));
            }
            Ok(n)
        }
    }
    fn notify_id(&mut self, id: usize) -> Result<usize, String> {
        unsafe {
            let mut n: usize = 0;
            let eid = iox2_event_id_t { value: id };
            let rc = iox2_notifier_notify_with_custom_event_id(self.port.as_ref().unwrap(), &eid, &mut n);
            if rc != IOX2_OK {
                return Err(cerr!(iox2_notifier_notify_error_e, iox2_notifier_notify_error_string, rc));
            }
            Ok(n)
        }
    }
    fn drop_port(&mut self) {
        if let Some(p) = self.port.take() {
            unsafe { iox2_notifier_drop(p) }
        }
    }
}

impl Drop for CNotifier {
    fn drop(&mut self) {
        self.drop_port();
    }
}

struct CListener {
    port: Option<iox2_listener_h>,
}

extern "C" fn collect(id: *const iox2_event_id_t, count: u64, ctx: iox2_callback_context) {
    let v = unsafe { &mut *(ctx as *mut Vec<(usize, u64)>) };
    v.push((unsafe { (*id).value }, count));
}

impl ListenerSide for CListener {
    fn alive(&self) -> bool {
        self.port.is_some()
    }
    fn try_wait(&mut self) -> Result<(u64, Vec<(usize, u64)>), String> {
        unsafe {
            let mut v: Vec<(usize, u64)> = Vec::new();
            let mut n: u64 = 0;
            let rc = iox2_listener_try_wait(self.port.as_ref().unwrap(), &mut n, collect, &mut v as *mut _ as *mut c_void);
            if rc != IOX2_OK {
                return Err(cerr!(iox2_listener_wait_error_e, iox2_listener_wait_error_string, rc));
            }
            Ok((n, v))
        }
    }
    fn drop_port(&mut self) {
        if let Some(p) = self.port.take() {
            unsafe { iox2_listener_drop(p) }
        }
    }
}

impl Drop for CListener {
    fn drop(&mut self) {
        self.drop_port();
    }
}

// ------------------------------------------------------------------------------------------
// request-response
// ------------------------------------------------------------------------------------------
use crate::rr::{ClientSide, Layout, RrCfg, RrWorld, ServerSide};

struct CRrWorld {
    node: iox2_node_h,
    factory: iox2_port_factory_request_response_h,
    req: usize,
    resp: usize,
}

fn cvariant(l: &Layout) -> iox2_type_variant_e {
    if l.dynamic {
        iox2_type_variant_e::DYNAMIC
    } else {
        iox2_type_variant_e::FIXED_SIZE
    }
}

pub fn rr_world(cfg: &RrCfg, svc: &str, node: &str) -> Result<Box<dyn RrWorld>, String> {
    unsafe {
        let nh = c_node(cfg.local, node)?;
        let sb = match c_service_builder(&nh, svc) {
            Ok(s) => s,
            Err(e) => {
                iox2_node_drop(nh);
                return Err(e);
            }
        };
        let b = iox2_service_builder_request_response(sb);
        let rc = iox2_service_builder_request_response_set_request_payload_type_details(&b, cvariant(&cfg.req), cfg.req.name.as_ptr() as *const c_char, cfg.req.name.len() as _, cfg.req.size as _, cfg.req.align as _);
        if rc != IOX2_OK {
            iox2_node_drop(nh);
            return Err(format!("E:iox2_type_detail_error_e:{}:-", rc));
        }
        let rc = iox2_service_builder_request_response_set_response_payload_type_details(&b, cvariant(&cfg.resp), cfg.resp.name.as_ptr() as *const c_char, cfg.resp.name.len() as _, cfg.resp.size as _, cfg.resp.align as _);
        if rc != IOX2_OK {
            iox2_node_drop(nh);
            return Err(format!("E:iox2_type_detail_error_e:{}:-", rc));
        }
        iox2_service_builder_request_response_max_active_requests_per_client(&b, cfg.active as _);
        iox2_service_builder_request_response_max_loaned_requests(&b, cfg.loans as _);
        iox2_service_builder_request_response_max_response_buffer_size(&b, cfg.resp_buf as _);
        iox2_service_builder_request_response_max_borrowed_responses_per_pending_response(&b, cfg.borrow as _);
        iox2_service_builder_request_response_enable_safe_overflow_for_requests(&b, cfg.ovf_req);
        iox2_service_builder_request_response_enable_safe_overflow_for_responses(&b, cfg.ovf_resp);
        iox2_service_builder_request_response_max_servers(&b, 2);
        iox2_service_builder_request_response_max_clients(&b, 2);
        iox2_service_builder_request_response_set_max_nodes(&b, 8);
        let mut f: iox2_port_factory_request_response_h = null_mut();
        let rc = iox2_service_builder_request_response_open_or_create(b, null_mut(), &mut f);
        if rc != IOX2_OK {
            iox2_node_drop(nh);
            return Err(cerr!(iox2_request_response_open_or_create_error_e, iox2_request_response_open_or_create_error_string, rc));
        }
        Ok(Box::new(CRrWorld { node: nh, factory: f, req: cfg.req.size, resp: cfg.resp.size }))
    }
}

impl RrWorld for CRrWorld {
    fn make_client(&self, cfg: &RrCfg) -> Result<Box<dyn ClientSide>, String> {
        unsafe {
            let b = iox2_port_factory_request_response_client_builder(&self.factory, null_mut());
            iox2_port_factory_client_builder_backpressure_strategy(&b, iox2_backpressure_strategy_e::DISCARD_DATA);
            if cfg.req.dynamic {
                iox2_port_factory_client_builder_set_initial_max_slice_len(&b, cfg.req.slice_len as _);
            }
            let mut c: iox2_client_h = null_mut();
            let rc = iox2_port_factory_client_builder_create(b, null_mut(), &mut c);
            if rc != IOX2_OK {
                return Err(cerr!(iox2_client_create_error_e, iox2_client_create_error_string, rc));
            }
            Ok(Box::new(CClient { port: Some(c), loans: Vec::new(), pendings: Vec::new(), responses: Vec::new(), req: self.req, resp: self.resp }))
        }
    }
    fn make_server(&self, cfg: &RrCfg) -> Result<Box<dyn ServerSide>, String> {
        unsafe {
            let b = iox2_port_factory_request_response_server_builder(&self.factory, null_mut());
            iox2_port_factory_server_builder_backpressure_strategy(&b, iox2_backpressure_strategy_e::DISCARD_DATA);
            iox2_port_factory_server_builder_set_max_loaned_responses_per_request(&b, cfg.resp_loans as _);
            if cfg.resp.dynamic {
                iox2_port_factory_server_builder_set_initial_max_slice_len(&b, cfg.resp.slice_len as _);
            }
            let mut s: iox2_server_h = null_mut();
            let rc = iox2_port_factory_server_builder_create(b, null_mut(), &mut s);
            if rc != IOX2_OK {
                return Err(cerr!(iox2_server_create_error_e, iox2_server_create_error_string, rc));
            }
            Ok(Box::new(CServer { port: Some(s), active: Vec::new(), loans: Vec::new(), req: self.req, resp: self.resp }))
        }
    }
    fn counts(&self) -> (usize, usize) {
        unsafe {
            (
                iox2_port_factory_request_response_dynamic_config_number_of_clients(&self.factory),
                iox2_port_factory_request_response_dynamic_config_number_of_servers(&self.factory),
            )
        }
    }
    fn teardown(self: Box<Self>, node_first: bool) {
        unsafe {
            if node_first {
                iox2_node_drop(self.node);
                iox2_port_factory_request_response_drop(self.factory);
            } else {
                iox2_port_factory_request_response_drop(self.factory);
                iox2_node_drop(self.node);
            }
        }
    }
}

struct CClient {
    port: Option<iox2_client_h>,
    loans: Vec<iox2_request_mut_h>,
    pendings: Vec<iox2_pending_response_h>,
    responses: Vec<iox2_response_h>,
    req: usize,
    resp: usize,
}

impl CClient {
    unsafe fn payload(&self, slot: usize) -> (*mut u8, usize) {
        let mut p: *mut c_void = null_mut();
        let mut n: usize = 0;
        iox2_request_mut_payload_mut(&self.loans[slot], &mut p, &mut n);
        (p as *mut u8, n * self.req)
    }
}

impl ClientSide for CClient {
    fn alive(&self) -> bool {
        self.port.is_some()
    }
    fn loan(&mut self, n: usize) -> Result<(), String> {
        unsafe {
            let mut r: iox2_request_mut_h = null_mut();
            let rc = iox2_client_loan_slice_uninit(self.port.as_ref().unwrap(), null_mut(), &mut r, n);
            if rc != IOX2_OK {
                return Err(cerr!(iox2_loan_error_e, iox2_loan_error_string, rc));
            }
            self.loans.push(r);
            let (p, nb) = self.payload(self.loans.len() - 1);
            for i in 0..nb {
                p.add(i).write(0);
            }
            Ok(())
        }
    }
    fn nloans(&self) -> usize {
        self.loans.len()
    }
    fn write(&mut self, slot: usize, seed: u64) -> usize {
        unsafe {
            let (p, nb) = self.payload(slot);
            for i in 0..nb {
                p.add(i).write(pattern(seed, i));
            }
            nb
        }
    }
    fn send(&mut self, slot: usize) -> Result<(), String> {
        unsafe {
            let r = self.loans.remove(slot);
            let mut p: iox2_pending_response_h = null_mut();
            let rc = iox2_request_mut_send(r, null_mut(), &mut p);
            if rc != IOX2_OK {
                return Err(cerr!(iox2_request_send_error_e, iox2_request_send_error_string, rc));
            }
            self.pendings.push(p);
            Ok(())
        }
    }
    fn send_copy(&mut self, n: usize, seed: u64) -> Result<(), String> {
        unsafe {
            let data: Vec<u8> = (0..n * self.req).map(|i| pattern(seed, i)).collect();
            let mut p: iox2_pending_response_h = null_mut();
            let rc = iox2_client_send_copy(self.port.as_ref().unwrap(), data.as_ptr() as *const c_void, self.req, n, null_mut(), &mut p);
            if rc != IOX2_OK {
                // the documentation names iox2_send_error_e; the Rust API returns RequestSendError
                return Err(cerr!(iox2_request_send_error_e, iox2_request_send_error_string, rc));
            }
            self.pendings.push(p);
            Ok(())
        }
    }
    fn drop_loan(&mut self, slot: usize) {
        unsafe { iox2_request_mut_drop(self.loans.remove(slot)) }
    }
    fn npending(&self) -> usize {
        self.pendings.len()
    }
    fn p_recv(&mut self, p: usize) -> Result<Option<String>, String> {
        unsafe {
            let mut r: iox2_response_h = null_mut();
            let rc = iox2_pending_response_receive(&self.pendings[p], null_mut(), &mut r);
            if rc != IOX2_OK {
                return Err(cerr!(iox2_receive_error_e, iox2_receive_error_string, rc));
            }
            if r.is_null() {
                return Ok(None);
            }
            let mut pp: *const c_void = core::ptr::null();
            let mut n: usize = 0;
            iox2_response_payload(&r, &mut pp, &mut n);
            let nb = n * self.resp;
            let bytes = core::slice::from_raw_parts(pp as *const u8, nb);
            let d = format!("n={} len={} {}", n, nb, hex(bytes));
            self.responses.push(r);
            Ok(Some(d))
        }
    }
    fn p_has(&mut self, p: usize) -> bool {
        unsafe { iox2_pending_response_has_response(&self.pendings[p]) }
    }
    fn p_connected(&mut self, p: usize) -> bool {
        unsafe { iox2_pending_response_is_connected(&self.pendings[p]) }
    }
    fn p_drop(&mut self, p: usize) {
        unsafe { iox2_pending_response_drop(self.pendings.remove(p)) }
    }
    fn nresponses(&self) -> usize {
        self.responses.len()
    }
    fn release(&mut self, slot: usize) {
        unsafe { iox2_response_drop(self.responses.remove(slot)) }
    }
    fn drop_port(&mut self) {
        if let Some(p) = self.port.take() {
            unsafe { iox2_client_drop(p) }
        }
    }
}

impl Drop for CClient {
    fn drop(&mut self) {
        unsafe {
            for r in self.loans.drain(..) {
                iox2_request_mut_drop(r);
            }
            for r in self.responses.drain(..) {
                iox2_response_drop(r);
            }
            for p in self.pendings.drain(..) {
                iox2_pending_response_drop(p);
            }
            if let Some(p) = self.port.take() {
                iox2_client_drop(p);
            }
        }
    }
}

struct CServer {
    port: Option<iox2_server_h>,
    active: Vec<iox2_active_request_h>,
    loans: Vec<iox2_response_mut_h>,
    req: usize,
    resp: usize,
}

impl CServer {
    unsafe fn payload(&self, slot: usize) -> (*mut u8, usize) {
        let mut p: *mut c_void = null_mut();
        let mut n: usize = 0;
        iox2_response_mut_payload_mut(&self.loans[slot], &mut p, &mut n);
        (p as *mut u8, n * self.resp)
    }
}

impl ServerSide for CServer {
    fn alive(&self) -> bool {
        self.port.is_some()
    }
    fn recv(&mut self) -> Result<Option<String>, String> {
        unsafe {
            let mut a: iox2_active_request_h = null_mut();
            let rc = iox2_server_receive(self.port.as_ref().unwrap(), null_mut(), &mut a);
            if rc != IOX2_OK {
                return Err(cerr!(iox2_receive_error_e, iox2_receive_error_string, rc));
            }
            if a.is_null() {
                return Ok(None);
            }
            let mut pp: *const c_void = core::ptr::null();
            let mut n: usize = 0;
            iox2_active_request_payload(&a, &mut pp, &mut n);
            let nb = n * self.req;
            let bytes = core::slice::from_raw_parts(pp as *const u8, nb);
            let d = format!("n={} len={} {}", n, nb, hex(bytes));
            self.active.push(a);
            Ok(Some(d))
        }
    }
    fn has(&mut self) -> Result<bool, String> {
        unsafe {
            let mut r = false;
            let rc = iox2_server_has_requests(self.port.as_ref().unwrap(), &mut r);
            if rc != IOX2_OK {
                return Err(cerr!(iox2_connection_failure_e, iox2_connection_failure_string, rc));
            }
            Ok(r)
        }
    }
    fn nactive(&self) -> usize {
        self.active.len()
    }
    fn a_loan(&mut self, a: usize, n: usize) -> Result<(), String> {
        unsafe {
            let mut r: iox2_response_mut_h = null_mut();
            let rc = iox2_active_request_loan_slice_uninit(&self.active[a], null_mut(), &mut r, n);
            if rc != IOX2_OK {
                return Err(cerr!(iox2_loan_error_e, iox2_loan_error_string, rc));
            }
            self.loans.push(r);
            let (p, nb) = self.payload(self.loans.len() - 1);
            for i in 0..nb {
                p.add(i).write(0);
            }
            Ok(())
        }
    }
    fn a_send_copy(&mut self, a: usize, n: usize, seed: u64) -> Result<(), String> {
        unsafe {
            let data: Vec<u8> = (0..n * self.resp).map(|i| pattern(seed, i)).collect();
            let rc = iox2_active_request_send_copy(&self.active[a], data.as_ptr() as *const c_void, self.resp, n);
            if rc != IOX2_OK {
                return Err(cerr!(iox2_send_error_e, iox2_send_error_string, rc));
            }
            Ok(())
        }
    }
    fn a_connected(&mut self, a: usize) -> bool {
        unsafe { iox2_active_request_is_connected(&self.active[a]) }
    }
    fn a_drop(&mut self, a: usize) {
        unsafe { iox2_active_request_drop(self.active.remove(a)) }
    }
    fn nloans(&self) -> usize {
        self.loans.len()
    }
    fn write(&mut self, slot: usize, seed: u64) -> usize {
        unsafe {
            let (p, nb) = self.payload(slot);
            for i in 0..nb {
                p.add(i).write(pattern(seed, i));
            }
            nb
        }
    }
    fn send(&mut self, slot: usize) -> Result<(), String> {
        unsafe {
            let r = self.loans.remove(slot);
            let rc = iox2_response_mut_send(r);
            if rc != IOX2_OK {
                return Err(cerr!(iox2_send_error_e, iox2_send_error_string, rc));
            }
            Ok(())
        }
    }
    fn drop_loan(&mut self, slot: usize) {
        unsafe { iox2_response_mut_drop(self.loans.remove(slot)) }
    }
    fn drop_port(&mut self) {
        if let Some(p) = self.port.take() {
            unsafe { iox2_server_drop(p) }
        }
    }
}

impl Drop for CServer {
    fn drop(&mut self) {
        unsafe {
            for r in self.loans.drain(..) {
                iox2_response_mut_drop(r);
            }
            for a in self.active.drain(..) {
                iox2_active_request_drop(a);
            }
            if let Some(p) = self.port.take() {
                iox2_server_drop(p);
            }
        }
    }
}
