//! request-response programs: client loan/write/send/send_copy, server receive, active request
//! loan/write/send/send_copy, pending response receive, drops -- through both APIs and mixed
//! (C client + Rust server and vice versa).  Rust side = runtime type-detail API (the one the C
//! binding wraps); request and response payload type details are generated independently.
use crate::rside::{type_detail, Ipc, Loc};
use crate::{cside, hex, pattern, rust_err, Rng};
use core::mem::MaybeUninit;
use iceoryx2::active_request::ActiveRequest;
use iceoryx2::node::NodeView as _;
use iceoryx2::pending_response::PendingResponse;
use iceoryx2::port::client::Client;
use iceoryx2::port::server::Server;
use iceoryx2::prelude::PortFactory as _;
use iceoryx2::prelude::*;
use iceoryx2::request_mut_uninit::RequestMutUninit;
use iceoryx2::response::Response;
use iceoryx2::response_mut_uninit::ResponseMutUninit;
use iceoryx2::service::marker::{CustomHeaderMarker, CustomPayloadMarker};
use iceoryx2::service::port_factory::request_response::PortFactory;
use iceoryx2::service::static_config::message_type_details::TypeVariant;

#[derive(Clone, Debug)]
pub struct Layout {
    pub dynamic: bool,
    pub size: usize,
    pub align: usize,
    pub name: String,
    pub slice_len: usize,
}

#[derive(Clone, Debug)]
pub struct RrCfg {
    pub local: bool,
    pub req: Layout,
    pub resp: Layout,
    pub active: usize,
    pub loans: usize,
    pub resp_buf: usize,
    pub borrow: usize,
    pub ovf_req: bool,
    pub ovf_resp: bool,
    pub resp_loans: usize,
    /// (request, response) element types of TYPED_ELEMS when both layouts are slices of them:
    /// the TYPED Rust API (`request_response::<[T], [U]>()`) then runs as modes TT/CT/TC
    pub typed: Option<(usize, usize)>,
    /// request-cycle programs: many send/receive/drop cycles so that the client's response
    /// channel ids wrap while stale responses are still queued
    pub cycles: bool,
}

pub const TYPED_ELEMS: [(&str, usize); 3] = [("u8", 1), ("u32", 4), ("u64", 8)];

#[derive(Clone, Debug)]
pub enum RrOp {
    CLoan(usize),
    CWrite(usize, u64),
    CSend(usize),
    CSendCopy(usize, u64),
    CDropLoan(usize),
    SRecv,
    SHas,
    ALoan(usize, usize),
    AWrite(usize, u64),
    ASend(usize),
    ASendCopy(usize, usize, u64),
    ADropLoan(usize),
    ADrop(usize),
    AConnected(usize),
    PRecv(usize),
    PHas(usize),
    PConnected(usize),
    PDrop(usize),
    RRelease(usize),
    Counts,
    DropClient,
    DropServer,
    DropAllReqLoans,
    DropAllPendings,
    DropAllActive,
    DropAllRespLoans,
    ReleaseAllResponses,
}

/// everything a client side owns: the port, loaned requests, pending responses, received responses
pub trait ClientSide {
    fn alive(&self) -> bool;
    fn loan(&mut self, n: usize) -> Result<(), String>;
    fn nloans(&self) -> usize;
    fn write(&mut self, slot: usize, seed: u64) -> usize;
    fn send(&mut self, slot: usize) -> Result<(), String>;
    fn send_copy(&mut self, n: usize, seed: u64) -> Result<(), String>;
    fn drop_loan(&mut self, slot: usize);
    fn npending(&self) -> usize;
    fn p_recv(&mut self, p: usize) -> Result<Option<String>, String>;
    fn p_has(&mut self, p: usize) -> bool;
    fn p_connected(&mut self, p: usize) -> bool;
    fn p_drop(&mut self, p: usize);
    fn nresponses(&self) -> usize;
    fn release(&mut self, slot: usize);
    fn drop_port(&mut self);
}

/// everything a server side owns: the port, active requests, loaned responses
pub trait ServerSide {
    fn alive(&self) -> bool;
    fn recv(&mut self) -> Result<Option<String>, String>;
    fn has(&mut self) -> Result<bool, String>;
    fn nactive(&self) -> usize;
    fn a_loan(&mut self, a: usize, n: usize) -> Result<(), String>;
    fn a_send_copy(&mut self, a: usize, n: usize, seed: u64) -> Result<(), String>;
    fn a_connected(&mut self, a: usize) -> bool;
    fn a_drop(&mut self, a: usize);
    fn nloans(&self) -> usize;
    fn write(&mut self, slot: usize, seed: u64) -> usize;
    fn send(&mut self, slot: usize) -> Result<(), String>;
    fn drop_loan(&mut self, slot: usize);
    fn drop_port(&mut self);
}

pub trait RrWorld {
    fn make_client(&self, cfg: &RrCfg) -> Result<Box<dyn ClientSide>, String>;
    fn make_server(&self, cfg: &RrCfg) -> Result<Box<dyn ServerSide>, String>;
    fn counts(&self) -> (usize, usize);
    fn teardown(self: Box<Self>, node_first: bool);
}

// ------------------------------------------------------------------------------------------
// Rust API
// ------------------------------------------------------------------------------------------
type CP = [CustomPayloadMarker];
type CH = CustomHeaderMarker;

struct RWorld<S: Service> {
    node: Option<Node<S>>,
    factory: Option<PortFactory<S, CP, CH, CP, CH>>,
    req: usize,
    resp: usize,
}

fn variant(l: &Layout) -> TypeVariant {
    if l.dynamic {
        TypeVariant::Dynamic
    } else {
        TypeVariant::FixedSize
    }
}

fn rworld<S: Service + 'static>(cfg: &RrCfg, svc: &str, node: &str) -> Result<Box<dyn RrWorld>, String> {
    let name = NodeName::new(node).map_err(rust_err)?;
    let node = NodeBuilder::new().name(&name).create::<S>().map_err(rust_err)?;
    let sname = ServiceName::new(svc).map_err(rust_err)?;
    let rq = type_detail(variant(&cfg.req), &cfg.req.name, cfg.req.size, cfg.req.align);
    let rs = type_detail(variant(&cfg.resp), &cfg.resp.name, cfg.resp.size, cfg.resp.align);
    let hd = type_detail(TypeVariant::FixedSize, "()", 0, 1);
    let b = node.service_builder(&sname).request_response::<CP, CP>().request_user_header::<CH>().response_user_header::<CH>();
    let b = unsafe {
        b.__internal_set_request_payload_type_details(&rq)
            .__internal_set_response_payload_type_details(&rs)
            .__internal_set_request_header_type_details(&hd)
            .__internal_set_response_header_type_details(&hd)
    };
    let factory = b
        .max_active_requests_per_client(cfg.active)
        .max_loaned_requests(cfg.loans)
        .max_response_buffer_size(cfg.resp_buf)
        .max_borrowed_responses_per_pending_response(cfg.borrow)
        .enable_safe_overflow_for_requests(cfg.ovf_req)
        .enable_safe_overflow_for_responses(cfg.ovf_resp)
        .max_servers(2)
        .max_clients(2)
        .max_nodes(8)
        .open_or_create()
        .map_err(rust_err)?;
    Ok(Box::new(RWorld::<S> { node: Some(node), factory: Some(factory), req: cfg.req.size, resp: cfg.resp.size }))
}

pub fn rust_world(cfg: &RrCfg, svc: &str, node: &str) -> Result<Box<dyn RrWorld>, String> {
    if cfg.local {
        rworld::<Loc>(cfg, svc, node)
    } else {
        rworld::<Ipc>(cfg, svc, node)
    }
}

impl<S: Service + 'static> RrWorld for RWorld<S> {
    fn make_client(&self, cfg: &RrCfg) -> Result<Box<dyn ClientSide>, String> {
        let mut b = self.factory.as_ref().unwrap().client_builder().backpressure_strategy(BackpressureStrategy::DiscardData);
        if cfg.req.dynamic {
            b = b.initial_max_slice_len(cfg.req.slice_len);
        }
        let c = b.create().map_err(rust_err)?;
        Ok(Box::new(RClient::<S> { port: Some(c), loans: Vec::new(), pendings: Vec::new(), responses: Vec::new(), req: self.req, resp: self.resp }))
    }
    fn make_server(&self, cfg: &RrCfg) -> Result<Box<dyn ServerSide>, String> {
        let mut b = self.factory.as_ref().unwrap().server_builder().backpressure_strategy(BackpressureStrategy::DiscardData).max_loaned_responses_per_request(cfg.resp_loans);
        if cfg.resp.dynamic {
            b = b.initial_max_slice_len(cfg.resp.slice_len);
        }
        let s = b.create().map_err(rust_err)?;
        Ok(Box::new(RServer::<S> { port: Some(s), active: Vec::new(), loans: Vec::new(), req: self.req, resp: self.resp }))
    }
    fn counts(&self) -> (usize, usize) {
        let f = self.factory.as_ref().unwrap();
        (f.dynamic_config().number_of_clients(), f.dynamic_config().number_of_servers())
    }
    fn teardown(mut self: Box<Self>, node_first: bool) {
        if node_first {
            self.node.take();
            self.factory.take();
        } else {
            self.factory.take();
            self.node.take();
        }
    }
}

struct RClient<S: Service> {
    port: Option<Client<S, CP, CH, CP, CH>>,
    loans: Vec<RequestMutUninit<S, [MaybeUninit<CustomPayloadMarker>], CH, CP, CH>>,
    pendings: Vec<PendingResponse<S, CP, CH, CP, CH>>,
    responses: Vec<Response<S, CP, CH>>,
    req: usize,
    resp: usize,
}

impl<S: Service> ClientSide for RClient<S> {
    fn alive(&self) -> bool {
        self.port.is_some()
    }
    fn loan(&mut self, n: usize) -> Result<(), String> {
        let mut r = unsafe { self.port.as_ref().unwrap().loan_custom_payload(n) }.map_err(rust_err)?;
        let nb = r.header().number_of_elements() as usize * self.req;
        let p = r.payload_mut().as_mut_ptr() as *mut u8;
        for i in 0..nb {
            unsafe { p.add(i).write(0) };
        }
        self.loans.push(r);
        Ok(())
    }
    fn nloans(&self) -> usize {
        self.loans.len()
    }
    fn write(&mut self, slot: usize, seed: u64) -> usize {
        let r = &mut self.loans[slot];
        let nb = r.header().number_of_elements() as usize * self.req;
        let p = r.payload_mut().as_mut_ptr() as *mut u8;
        for i in 0..nb {
            unsafe { p.add(i).write(pattern(seed, i)) };
        }
        nb
    }
    fn send(&mut self, slot: usize) -> Result<(), String> {
        let r = self.loans.remove(slot);
        let p = unsafe { r.assume_init() }.send().map_err(rust_err)?;
        self.pendings.push(p);
        Ok(())
    }
    fn send_copy(&mut self, n: usize, seed: u64) -> Result<(), String> {
        // no send_copy in the runtime type-detail API: loan + copy + send; a failing loan reported the
        // way Client::send_copy reports it (RequestSendError::SendError(SendError::LoanError))
        let mut r = unsafe { self.port.as_ref().unwrap().loan_custom_payload(n) }
            .map_err(|e| rust_err(iceoryx2::port::client::RequestSendError::SendError(iceoryx2::port::SendError::LoanError(e))))?;
        let nb = r.header().number_of_elements() as usize * self.req;
        let p = r.payload_mut().as_mut_ptr() as *mut u8;
        for i in 0..nb {
            unsafe { p.add(i).write(pattern(seed, i)) };
        }
        let p = unsafe { r.assume_init() }.send().map_err(rust_err)?;
        self.pendings.push(p);
        Ok(())
    }
    fn drop_loan(&mut self, slot: usize) {
        drop(self.loans.remove(slot));
    }
    fn npending(&self) -> usize {
        self.pendings.len()
    }
    fn p_recv(&mut self, p: usize) -> Result<Option<String>, String> {
        match unsafe { self.pendings[p].receive_custom_payload() }.map_err(rust_err)? {
            None => Ok(None),
            Some(r) => {
                let ne = r.header().number_of_elements() as usize;
                let nb = ne * self.resp;
                let bytes = unsafe { core::slice::from_raw_parts(r.payload().as_ptr() as *const u8, nb) };
                let d = format!("n={} len={} {}", ne, nb, hex(bytes));
                self.responses.push(r);
                Ok(Some(d))
            }
        }
    }
    fn p_has(&mut self, p: usize) -> bool {
        self.pendings[p].has_response()
    }
    fn p_connected(&mut self, p: usize) -> bool {
        self.pendings[p].is_connected()
    }
    fn p_drop(&mut self, p: usize) {
        drop(self.pendings.remove(p));
    }
    fn nresponses(&self) -> usize {
        self.responses.len()
    }
    fn release(&mut self, slot: usize) {
        drop(self.responses.remove(slot));
    }
    fn drop_port(&mut self) {
        self.port.take();
    }
}

struct RServer<S: Service> {
    port: Option<Server<S, CP, CH, CP, CH>>,
    active: Vec<ActiveRequest<S, CP, CH, CP, CH>>,
    loans: Vec<ResponseMutUninit<S, [MaybeUninit<CustomPayloadMarker>], CH>>,
    req: usize,
    resp: usize,
}

impl<S: Service> ServerSide for RServer<S> {
    fn alive(&self) -> bool {
        self.port.is_some()
    }
    fn recv(&mut self) -> Result<Option<String>, String> {
        match self.port.as_ref().unwrap().receive().map_err(rust_err)? {
            None => Ok(None),
            Some(a) => {
                let ne = a.header().number_of_elements() as usize;
                let nb = ne * self.req;
                let bytes = unsafe { core::slice::from_raw_parts(a.payload().as_ptr() as *const u8, nb) };
                let d = format!("n={} len={} {}", ne, nb, hex(bytes));
                self.active.push(a);
                Ok(Some(d))
            }
        }
    }
    fn has(&mut self) -> Result<bool, String> {
        self.port.as_ref().unwrap().has_requests().map_err(rust_err)
    }
    fn nactive(&self) -> usize {
        self.active.len()
    }
    fn a_loan(&mut self, a: usize, n: usize) -> Result<(), String> {
        let mut r = unsafe { self.active[a].loan_custom_payload(n) }.map_err(rust_err)?;
        let nb = r.header().number_of_elements() as usize * self.resp;
        let p = r.payload_mut().as_mut_ptr() as *mut u8;
        for i in 0..nb {
            unsafe { p.add(i).write(0) };
        }
        self.loans.push(r);
        Ok(())
    }
    fn a_send_copy(&mut self, a: usize, n: usize, seed: u64) -> Result<(), String> {
        let mut r = unsafe { self.active[a].loan_custom_payload(n) }.map_err(|e| rust_err(iceoryx2::port::SendError::LoanError(e)))?;
        let nb = r.header().number_of_elements() as usize * self.resp;
        let p = r.payload_mut().as_mut_ptr() as *mut u8;
        for i in 0..nb {
            unsafe { p.add(i).write(pattern(seed, i)) };
        }
        unsafe { r.assume_init() }.send().map_err(rust_err)
    }
    fn a_connected(&mut self, a: usize) -> bool {
        self.active[a].is_connected()
    }
    fn a_drop(&mut self, a: usize) {
        drop(self.active.remove(a));
    }
    fn nloans(&self) -> usize {
        self.loans.len()
    }
    fn write(&mut self, slot: usize, seed: u64) -> usize {
        let r = &mut self.loans[slot];
        let nb = r.header().number_of_elements() as usize * self.resp;
        let p = r.payload_mut().as_mut_ptr() as *mut u8;
        for i in 0..nb {
            unsafe { p.add(i).write(pattern(seed, i)) };
        }
        nb
    }
    fn send(&mut self, slot: usize) -> Result<(), String> {
        let r = self.loans.remove(slot);
        unsafe { r.assume_init() }.send().map_err(rust_err)
    }
    fn drop_loan(&mut self, slot: usize) {
        drop(self.loans.remove(slot));
    }
    fn drop_port(&mut self) {
        self.port.take();
    }
}


// ------------------------------------------------------------------------------------------
// typed Rust API: request_response::<[T], [U]>()  (the API a Rust application uses; its receive
// paths are NOT the `*_custom_payload` functions the C binding goes through)
// ------------------------------------------------------------------------------------------
use crate::rside::Pod;

struct TWorld<S: Service, T: Pod, U: Pod> {
    node: Option<Node<S>>,
    factory: Option<PortFactory<S, [T], (), [U], ()>>,
}

fn tworld<S: Service + 'static, T: Pod, U: Pod>(cfg: &RrCfg, svc: &str, node: &str) -> Result<Box<dyn RrWorld>, String> {
    let name = NodeName::new(node).map_err(rust_err)?;
    let node = NodeBuilder::new().name(&name).create::<S>().map_err(rust_err)?;
    let sname = ServiceName::new(svc).map_err(rust_err)?;
    let factory = node
        .service_builder(&sname)
        .request_response::<[T], [U]>()
        .max_active_requests_per_client(cfg.active)
        .max_loaned_requests(cfg.loans)
        .max_response_buffer_size(cfg.resp_buf)
        .max_borrowed_responses_per_pending_response(cfg.borrow)
        .enable_safe_overflow_for_requests(cfg.ovf_req)
        .enable_safe_overflow_for_responses(cfg.ovf_resp)
        .max_servers(2)
        .max_clients(2)
        .max_nodes(8)
        .open_or_create()
        .map_err(rust_err)?;
    Ok(Box::new(TWorld::<S, T, U> { node: Some(node), factory: Some(factory) }))
}

pub fn typed_world(cfg: &RrCfg, svc: &str, node: &str) -> Result<Box<dyn RrWorld>, String> {
    macro_rules! pick {
        ($t:ty, $u:ty) => {
            if cfg.local {
                tworld::<Loc, $t, $u>(cfg, svc, node)
            } else {
                tworld::<Ipc, $t, $u>(cfg, svc, node)
            }
        };
    }
    match cfg.typed.expect("typed layouts") {
        (0, 0) => pick!(u8, u8),
        (0, 1) => pick!(u8, u32),
        (0, 2) => pick!(u8, u64),
        (1, 0) => pick!(u32, u8),
        (1, 1) => pick!(u32, u32),
        (1, 2) => pick!(u32, u64),
        (2, 0) => pick!(u64, u8),
        (2, 1) => pick!(u64, u32),
        (2, 2) => pick!(u64, u64),
        _ => unreachable!(),
    }
}

impl<S: Service + 'static, T: Pod, U: Pod> RrWorld for TWorld<S, T, U> {
    fn make_client(&self, cfg: &RrCfg) -> Result<Box<dyn ClientSide>, String> {
        let c = self
            .factory
            .as_ref()
            .unwrap()
            .client_builder()
            .backpressure_strategy(BackpressureStrategy::DiscardData)
            .initial_max_slice_len(cfg.req.slice_len)
            .create()
            .map_err(rust_err)?;
        Ok(Box::new(TClient::<S, T, U> { port: Some(c), loans: Vec::new(), pendings: Vec::new(), responses: Vec::new() }))
    }
    fn make_server(&self, cfg: &RrCfg) -> Result<Box<dyn ServerSide>, String> {
        let s = self
            .factory
            .as_ref()
            .unwrap()
            .server_builder()
            .backpressure_strategy(BackpressureStrategy::DiscardData)
            .max_loaned_responses_per_request(cfg.resp_loans)
            .initial_max_slice_len(cfg.resp.slice_len)
            .create()
            .map_err(rust_err)?;
        Ok(Box::new(TServer::<S, T, U> { port: Some(s), active: Vec::new(), loans: Vec::new() }))
    }
    fn counts(&self) -> (usize, usize) {
        let f = self.factory.as_ref().unwrap();
        (f.dynamic_config().number_of_clients(), f.dynamic_config().number_of_servers())
    }
    fn teardown(mut self: Box<Self>, node_first: bool) {
        if node_first {
            self.node.take();
            self.factory.take();
        } else {
            self.factory.take();
            self.node.take();
        }
    }
}

fn fill<X: Pod>(pl: &mut [MaybeUninit<X>], seed: Option<u64>) -> usize {
    let nb = pl.len() * core::mem::size_of::<X>();
    let p = pl.as_mut_ptr() as *mut u8;
    for i in 0..nb {
        unsafe { p.add(i).write(seed.map(|s| pattern(s, i)).unwrap_or(0)) };
    }
    nb
}

fn show<X: Pod>(pl: &[X], ne: u64) -> String {
    let nb = pl.len() * core::mem::size_of::<X>();
    let bytes = unsafe { core::slice::from_raw_parts(pl.as_ptr() as *const u8, nb) };
    format!("n={} len={} {}", ne, nb, hex(bytes))
}

struct TClient<S: Service, T: Pod, U: Pod> {
    port: Option<Client<S, [T], (), [U], ()>>,
    loans: Vec<RequestMutUninit<S, [MaybeUninit<T>], (), [U], ()>>,
    pendings: Vec<PendingResponse<S, [T], (), [U], ()>>,
    responses: Vec<Response<S, [U], ()>>,
}

impl<S: Service, T: Pod, U: Pod> ClientSide for TClient<S, T, U> {
    fn alive(&self) -> bool {
        self.port.is_some()
    }
    fn loan(&mut self, n: usize) -> Result<(), String> {
        let mut r = self.port.as_ref().unwrap().loan_slice_uninit(n).map_err(rust_err)?;
        fill(r.payload_mut(), None);
        self.loans.push(r);
        Ok(())
    }
    fn nloans(&self) -> usize {
        self.loans.len()
    }
    fn write(&mut self, slot: usize, seed: u64) -> usize {
        fill(self.loans[slot].payload_mut(), Some(seed))
    }
    fn send(&mut self, slot: usize) -> Result<(), String> {
        let r = self.loans.remove(slot);
        let p = unsafe { r.assume_init() }.send().map_err(rust_err)?;
        self.pendings.push(p);
        Ok(())
    }
    fn send_copy(&mut self, n: usize, seed: u64) -> Result<(), String> {
        // no slice send_copy in the typed API: loan + write + send, a failing loan reported the way
        // Client::send_copy reports it
        let mut r = self
            .port
            .as_ref()
            .unwrap()
            .loan_slice_uninit(n)
            .map_err(|e| rust_err(iceoryx2::port::client::RequestSendError::SendError(iceoryx2::port::SendError::LoanError(e))))?;
        fill(r.payload_mut(), Some(seed));
        let p = unsafe { r.assume_init() }.send().map_err(rust_err)?;
        self.pendings.push(p);
        Ok(())
    }
    fn drop_loan(&mut self, slot: usize) {
        drop(self.loans.remove(slot));
    }
    fn npending(&self) -> usize {
        self.pendings.len()
    }
    fn p_recv(&mut self, p: usize) -> Result<Option<String>, String> {
        match self.pendings[p].receive().map_err(rust_err)? {
            None => Ok(None),
            Some(r) => {
                let d = show(r.payload(), r.header().number_of_elements());
                self.responses.push(r);
                Ok(Some(d))
            }
        }
    }
    fn p_has(&mut self, p: usize) -> bool {
        self.pendings[p].has_response()
    }
    fn p_connected(&mut self, p: usize) -> bool {
        self.pendings[p].is_connected()
    }
    fn p_drop(&mut self, p: usize) {
        drop(self.pendings.remove(p));
    }
    fn nresponses(&self) -> usize {
        self.responses.len()
    }
    fn release(&mut self, slot: usize) {
        drop(self.responses.remove(slot));
    }
    fn drop_port(&mut self) {
        self.port.take();
    }
}

struct TServer<S: Service, T: Pod, U: Pod> {
    port: Option<Server<S, [T], (), [U], ()>>,
    active: Vec<ActiveRequest<S, [T], (), [U], ()>>,
    loans: Vec<ResponseMutUninit<S, [MaybeUninit<U>], ()>>,
}

impl<S: Service, T: Pod, U: Pod> ServerSide for TServer<S, T, U> {
    fn alive(&self) -> bool {
        self.port.is_some()
    }
    fn recv(&mut self) -> Result<Option<String>, String> {
        match self.port.as_ref().unwrap().receive().map_err(rust_err)? {
            None => Ok(None),
            Some(a) => {
                let d = show(a.payload(), a.header().number_of_elements());
                self.active.push(a);
                Ok(Some(d))
            }
        }
    }
    fn has(&mut self) -> Result<bool, String> {
        self.port.as_ref().unwrap().has_requests().map_err(rust_err)
    }
    fn nactive(&self) -> usize {
        self.active.len()
    }
    fn a_loan(&mut self, a: usize, n: usize) -> Result<(), String> {
        let mut r = self.active[a].loan_slice_uninit(n).map_err(rust_err)?;
        fill(r.payload_mut(), None);
        self.loans.push(r);
        Ok(())
    }
    fn a_send_copy(&mut self, a: usize, n: usize, seed: u64) -> Result<(), String> {
        let mut r = self.active[a].loan_slice_uninit(n).map_err(|e| rust_err(iceoryx2::port::SendError::LoanError(e)))?;
        fill(r.payload_mut(), Some(seed));
        unsafe { r.assume_init() }.send().map_err(rust_err)
    }
    fn a_connected(&mut self, a: usize) -> bool {
        self.active[a].is_connected()
    }
    fn a_drop(&mut self, a: usize) {
        drop(self.active.remove(a));
    }
    fn nloans(&self) -> usize {
        self.loans.len()
    }
    fn write(&mut self, slot: usize, seed: u64) -> usize {
        fill(self.loans[slot].payload_mut(), Some(seed))
    }
    fn send(&mut self, slot: usize) -> Result<(), String> {
        let r = self.loans.remove(slot);
        unsafe { r.assume_init() }.send().map_err(rust_err)
    }
    fn drop_loan(&mut self, slot: usize) {
        drop(self.loans.remove(slot));
    }
    fn drop_port(&mut self) {
        self.port.take();
    }
}

// ------------------------------------------------------------------------------------------
// generator / executor
// ------------------------------------------------------------------------------------------
const LAYOUTS: [(usize, usize); 10] = [(1, 1), (2, 2), (4, 4), (8, 8), (16, 16), (3, 1), (12, 4), (24, 8), (32, 32), (7, 1)];

fn gen_layout(rng: &mut Rng, tag: &str) -> Layout {
    let (s, a) = LAYOUTS[rng.below(LAYOUTS.len())];
    let dynamic = rng.chance(50);
    Layout { dynamic, size: s, align: a, name: format!("verif_{}_{}_{}", tag, s, a), slice_len: if dynamic { 1 + rng.below(4) } else { 1 } }
}

fn typed_layout(rng: &mut Rng) -> (usize, Layout) {
    let i = rng.below(TYPED_ELEMS.len());
    let (n, s) = TYPED_ELEMS[i];
    (i, Layout { dynamic: true, size: s, align: s, name: n.to_string(), slice_len: 1 + rng.below(4) })
}

pub fn gen_cfg(rng: &mut Rng) -> RrCfg {
    let cycles = rng.chance(50);
    let typed = rng.chance(if cycles { 80 } else { 40 });
    let (req, resp, ty) = if typed {
        let (a, rq) = typed_layout(rng);
        let (b, rs) = typed_layout(rng);
        (rq, rs, Some((a, b)))
    } else {
        (gen_layout(rng, "rq"), gen_layout(rng, "rs"), None)
    };
    if cycles {
        // small limits: the pool of response channel ids of a client has
        // max_servers * 2 * max_active_requests_per_client + max_loaned_requests = 5..6 entries
        RrCfg {
            local: rng.chance(50),
            req,
            resp,
            active: 1,
            loans: 1 + rng.below(2),
            resp_buf: 2 + rng.below(3),
            borrow: 1 + rng.below(3),
            ovf_req: rng.chance(50),
            ovf_resp: rng.chance(50),
            resp_loans: 1 + rng.below(2),
            typed: ty,
            cycles,
        }
    } else {
        RrCfg {
            local: rng.chance(50),
            req,
            resp,
            active: 1 + rng.below(2),
            loans: 1 + rng.below(2),
            resp_buf: 1 + rng.below(3),
            borrow: 1 + rng.below(2),
            ovf_req: rng.chance(50),
            ovf_resp: rng.chance(50),
            resp_loans: 1 + rng.below(2),
            typed: ty,
            cycles,
        }
    }
}

fn elems(l: &Layout, rng: &mut Rng) -> usize {
    if l.dynamic {
        if rng.chance(85) {
            1 + rng.below(l.slice_len)
        } else {
            l.slice_len + 1 + rng.below(3)
        }
    } else {
        1
    }
}

fn elems_ok(l: &Layout, rng: &mut Rng) -> usize {
    if l.dynamic {
        1 + rng.below(l.slice_len)
    } else {
        1
    }
}

fn teardown_tail(rng: &mut Rng, ops: &mut Vec<RrOp>) {
    let mut tail = vec![RrOp::DropClient, RrOp::DropServer, RrOp::DropAllReqLoans, RrOp::DropAllPendings, RrOp::DropAllActive, RrOp::DropAllRespLoans, RrOp::ReleaseAllResponses];
    for i in (1..tail.len()).rev() {
        let j = rng.below(i + 1);
        tail.swap(i, j);
    }
    for t in tail {
        ops.push(t);
        ops.push(RrOp::Counts);
    }
}

/// request cycles: send a request, the server answers with 1..3 responses, the client receives
/// 0..n of them and drops the pending response (responses stay queued), and so on for at least
/// twice as many requests as the client has response channel ids
fn gen_cycles(cfg: &RrCfg, rng: &mut Rng) -> Vec<RrOp> {
    let pool = 2 * 2 * cfg.active + cfg.loans;
    let ncycles = 2 * pool + 1 + rng.below(pool);
    let mut ops = Vec::new();
    for _ in 0..ncycles {
        // request
        if rng.chance(50) {
            ops.push(RrOp::CSendCopy(elems_ok(&cfg.req, rng), rng.next() % 1000));
        } else {
            ops.push(RrOp::CLoan(elems_ok(&cfg.req, rng)));
            ops.push(RrOp::CWrite(0, rng.next() % 1000));
            ops.push(RrOp::CSend(0));
        }
        ops.push(RrOp::SRecv);
        // responses
        let nresp = 1 + rng.below(3);
        for _ in 0..nresp {
            if rng.chance(60) {
                ops.push(RrOp::ASendCopy(0, elems_ok(&cfg.resp, rng), rng.next() % 1000));
            } else {
                ops.push(RrOp::ALoan(0, elems_ok(&cfg.resp, rng)));
                ops.push(RrOp::AWrite(0, rng.next() % 1000));
                ops.push(RrOp::ASend(0));
            }
        }
        // the server keeps or drops the active request before the client looks
        let drop_active_first = rng.chance(50);
        if drop_active_first {
            ops.push(RrOp::ADrop(0));
        }
        // the client receives 0..nresp+1 of them (one more = a receive on an empty queue)
        let nrecv = rng.below(nresp + 2);
        if rng.chance(30) {
            ops.push(RrOp::PHas(0));
        }
        for _ in 0..nrecv {
            ops.push(RrOp::PRecv(0));
            if rng.chance(70) {
                ops.push(RrOp::RRelease(0));
            }
        }
        ops.push(RrOp::PDrop(0));
        if !drop_active_first {
            // a response sent after the pending response is gone
            if rng.chance(30) {
                ops.push(RrOp::ASendCopy(0, elems_ok(&cfg.resp, rng), rng.next() % 1000));
            }
            ops.push(RrOp::ADrop(0));
        }
        if rng.chance(20) {
            ops.push(RrOp::ReleaseAllResponses);
        }
        if rng.chance(10) {
            ops.push(RrOp::Counts);
        }
    }
    teardown_tail(rng, &mut ops);
    ops
}

pub fn gen_ops(cfg: &RrCfg, rng: &mut Rng, maxops: usize) -> Vec<RrOp> {
    if cfg.cycles {
        return gen_cycles(cfg, rng);
    }
    let n = 8 + rng.below(maxops.max(9) - 8);
    let mut ops = Vec::new();
    for _ in 0..n {
        let r = rng.below(100);
        let op = if r < 12 {
            RrOp::CLoan(elems(&cfg.req, rng))
        } else if r < 17 {
            RrOp::CWrite(rng.below(3), rng.next() % 1000)
        } else if r < 27 {
            RrOp::CSend(rng.below(3))
        } else if r < 33 {
            RrOp::CSendCopy(elems(&cfg.req, rng), rng.next() % 1000)
        } else if r < 35 {
            RrOp::CDropLoan(rng.below(3))
        } else if r < 47 {
            RrOp::SRecv
        } else if r < 49 {
            RrOp::SHas
        } else if r < 58 {
            RrOp::ALoan(rng.below(3), elems(&cfg.resp, rng))
        } else if r < 62 {
            RrOp::AWrite(rng.below(3), rng.next() % 1000)
        } else if r < 70 {
            RrOp::ASend(rng.below(3))
        } else if r < 75 {
            RrOp::ASendCopy(rng.below(3), elems(&cfg.resp, rng), rng.next() % 1000)
        } else if r < 77 {
            RrOp::ADropLoan(rng.below(3))
        } else if r < 80 {
            RrOp::ADrop(rng.below(3))
        } else if r < 81 {
            RrOp::AConnected(rng.below(3))
        } else if r < 91 {
            RrOp::PRecv(rng.below(3))
        } else if r < 93 {
            RrOp::PHas(rng.below(3))
        } else if r < 94 {
            RrOp::PConnected(rng.below(3))
        } else if r < 96 {
            RrOp::PDrop(rng.below(3))
        } else if r < 99 {
            RrOp::RRelease(rng.below(3))
        } else {
            RrOp::Counts
        };
        let c_follow = matches!(op, RrOp::CLoan(_)) && rng.chance(75);
        let a_follow = matches!(op, RrOp::ALoan(_, _)) && rng.chance(75);
        ops.push(op);
        if c_follow {
            ops.push(RrOp::CWrite(rng.below(3), rng.next() % 1000));
            ops.push(RrOp::CSend(rng.below(3)));
        }
        if a_follow {
            ops.push(RrOp::AWrite(rng.below(3), rng.next() % 1000));
            ops.push(RrOp::ASend(rng.below(3)));
        }
    }
    teardown_tail(rng, &mut ops);
    ops
}

#[derive(Clone, Copy, PartialEq, Eq)]
pub enum Api {
    Rust,
    Typed,
    C,
}

fn make(api: Api, cfg: &RrCfg, svc: &str, node: &str) -> Result<Box<dyn RrWorld>, String> {
    match api {
        Api::C => cside::rr_world(cfg, svc, node),
        Api::Rust => rust_world(cfg, svc, node),
        Api::Typed => typed_world(cfg, svc, node),
    }
}

fn res(r: Result<(), String>) -> String {
    match r {
        Ok(()) => "ok".into(),
        Err(e) => e,
    }
}

fn leftovers<S: Service>(svc: &str, nodes: &[&str]) -> (usize, String) {
    let left = crate::rside::node_names_left::<S>(nodes);
    let rec = (|| -> Result<(), String> {
        let name = NodeName::new(&format!("{}_x", svc)).map_err(rust_err)?;
        let node = NodeBuilder::new().name(&name).create::<S>().map_err(rust_err)?;
        let sname = ServiceName::new(svc).map_err(rust_err)?;
        let f = node.service_builder(&sname).request_response::<u64, u64>().create().map_err(rust_err)?;
        drop(f);
        Ok(())
    })();
    (left, match rec {
        Ok(()) => "ok".into(),
        Err(e) => e,
    })
}

fn run_mode(mode: &str, a_c: Api, b_c: Api, cfg: &RrCfg, ops: &[RrOp], case: usize, nf: (bool, bool)) -> usize {
    println!("M {}", mode);
    let svc = format!("c18r_{}_{}_{}", std::process::id(), case, mode);
    let node_a = format!("{}_a", svc);
    let node_b = format!("{}_b", svc);
    let mut k = 0usize;
    let mut line = |op: String, obs: String| {
        println!("O {} {} = {}", k, op, obs);
        k += 1;
    };
    let wa = make(a_c, cfg, &svc, &node_a);
    line("open_a".into(), match &wa {
        Ok(_) => "ok".into(),
        Err(e) => e.clone(),
    });
    let wb = make(b_c, cfg, &svc, &node_b);
    line("open_b".into(), match &wb {
        Ok(_) => "ok".into(),
        Err(e) => e.clone(),
    });
    if let (Ok(wa), Ok(wb)) = (wa, wb) {
        let cl = wa.make_client(cfg);
        line("make_client".into(), match &cl {
            Ok(_) => "ok".into(),
            Err(e) => e.clone(),
        });
        let sv = wb.make_server(cfg);
        line("make_server".into(), match &sv {
            Ok(_) => "ok".into(),
            Err(e) => e.clone(),
        });
        if let (Ok(mut c), Ok(mut s)) = (cl, sv) {
            for op in ops {
                match op {
                    RrOp::CLoan(n) => line(format!("cloan {}", n), if c.alive() { res(c.loan(*n)) } else { "skip".into() }),
                    RrOp::CWrite(sl, seed) => {
                        let obs = if c.nloans() > 0 {
                            let slot = sl % c.nloans();
                            format!("slot={} bytes={}", slot, c.write(slot, *seed))
                        } else {
                            "skip".into()
                        };
                        line(format!("cwrite {} {}", sl, seed), obs);
                    }
                    RrOp::CSend(sl) => {
                        let obs = if c.nloans() > 0 {
                            let slot = sl % c.nloans();
                            res(c.send(slot))
                        } else {
                            "skip".into()
                        };
                        line(format!("csend {}", sl), obs);
                    }
                    RrOp::CSendCopy(n, seed) => line(format!("csendcopy {} {}", n, seed), if c.alive() { res(c.send_copy(*n, *seed)) } else { "skip".into() }),
                    RrOp::CDropLoan(sl) => {
                        let obs = if c.nloans() > 0 {
                            let slot = sl % c.nloans();
                            c.drop_loan(slot);
                            format!("dropped slot={}", slot)
                        } else {
                            "skip".into()
                        };
                        line(format!("cdroploan {}", sl), obs);
                    }
                    RrOp::SRecv => {
                        let obs = if s.alive() {
                            match s.recv() {
                                Ok(Some(d)) => d,
                                Ok(None) => "none".into(),
                                Err(e) => e,
                            }
                        } else {
                            "skip".into()
                        };
                        line("srecv".into(), obs);
                    }
                    RrOp::SHas => line("shas".into(), if s.alive() { s.has().map(|b| format!("ok:{}", b)).unwrap_or_else(|e| e) } else { "skip".into() }),
                    RrOp::ALoan(a, n) => {
                        let obs = if s.nactive() > 0 { res(s.a_loan(a % s.nactive(), *n)) } else { "skip".into() };
                        line(format!("aloan {} {}", a, n), obs);
                    }
                    RrOp::AWrite(sl, seed) => {
                        let obs = if s.nloans() > 0 {
                            let slot = sl % s.nloans();
                            format!("slot={} bytes={}", slot, s.write(slot, *seed))
                        } else {
                            "skip".into()
                        };
                        line(format!("awrite {} {}", sl, seed), obs);
                    }
                    RrOp::ASend(sl) => {
                        let obs = if s.nloans() > 0 {
                            let slot = sl % s.nloans();
                            res(s.send(slot))
                        } else {
                            "skip".into()
                        };
                        line(format!("asend {}", sl), obs);
                    }
                    RrOp::ASendCopy(a, n, seed) => {
                        let obs = if s.nactive() > 0 { res(s.a_send_copy(a % s.nactive(), *n, *seed)) } else { "skip".into() };
                        line(format!("asendcopy {} {} {}", a, n, seed), obs);
                    }
                    RrOp::ADropLoan(sl) => {
                        let obs = if s.nloans() > 0 {
                            let slot = sl % s.nloans();
                            s.drop_loan(slot);
                            format!("dropped slot={}", slot)
                        } else {
                            "skip".into()
                        };
                        line(format!("adroploan {}", sl), obs);
                    }
                    RrOp::ADrop(a) => {
                        let obs = if s.nactive() > 0 {
                            let i = a % s.nactive();
                            s.a_drop(i);
                            format!("dropped {}", i)
                        } else {
                            "skip".into()
                        };
                        line(format!("adrop {}", a), obs);
                    }
                    RrOp::AConnected(a) => {
                        let obs = if s.nactive() > 0 { format!("{}", s.a_connected(a % s.nactive())) } else { "skip".into() };
                        line(format!("aconnected {}", a), obs);
                    }
                    RrOp::PRecv(p) => {
                        let obs = if c.npending() > 0 {
                            match c.p_recv(p % c.npending()) {
                                Ok(Some(d)) => d,
                                Ok(None) => "none".into(),
                                Err(e) => e,
                            }
                        } else {
                            "skip".into()
                        };
                        line(format!("precv {}", p), obs);
                    }
                    RrOp::PHas(p) => {
                        let obs = if c.npending() > 0 { format!("{}", c.p_has(p % c.npending())) } else { "skip".into() };
                        line(format!("phas {}", p), obs);
                    }
                    RrOp::PConnected(p) => {
                        let obs = if c.npending() > 0 { format!("{}", c.p_connected(p % c.npending())) } else { "skip".into() };
                        line(format!("pconnected {}", p), obs);
                    }
                    RrOp::PDrop(p) => {
                        let obs = if c.npending() > 0 {
                            let i = p % c.npending();
                            c.p_drop(i);
                            format!("dropped {}", i)
                        } else {
                            "skip".into()
                        };
                        line(format!("pdrop {}", p), obs);
                    }
                    RrOp::RRelease(sl) => {
                        let obs = if c.nresponses() > 0 {
                            let i = sl % c.nresponses();
                            c.release(i);
                            format!("released {}", i)
                        } else {
                            "skip".into()
                        };
                        line(format!("rrelease {}", sl), obs);
                    }
                    RrOp::Counts => {
                        let (ca, sa) = wa.counts();
                        let (cb, sb) = wb.counts();
                        line("counts".into(), format!("a:c={},s={} b:c={},s={}", ca, sa, cb, sb));
                    }
                    RrOp::DropClient => {
                        let obs = if c.alive() {
                            c.drop_port();
                            "dropped".to_string()
                        } else {
                            "skip".into()
                        };
                        line("dropclient".into(), obs);
                    }
                    RrOp::DropServer => {
                        let obs = if s.alive() {
                            s.drop_port();
                            "dropped".to_string()
                        } else {
                            "skip".into()
                        };
                        line("dropserver".into(), obs);
                    }
                    RrOp::DropAllReqLoans => {
                        let mut n = 0;
                        while c.nloans() > 0 {
                            c.drop_loan(0);
                            n += 1;
                        }
                        line("dropallreqloans".into(), format!("dropped={}", n));
                    }
                    RrOp::DropAllPendings => {
                        let mut n = 0;
                        while c.npending() > 0 {
                            c.p_drop(0);
                            n += 1;
                        }
                        line("dropallpendings".into(), format!("dropped={}", n));
                    }
                    RrOp::DropAllActive => {
                        let mut n = 0;
                        while s.nactive() > 0 {
                            s.a_drop(0);
                            n += 1;
                        }
                        line("dropallactive".into(), format!("dropped={}", n));
                    }
                    RrOp::DropAllRespLoans => {
                        let mut n = 0;
                        while s.nloans() > 0 {
                            s.drop_loan(0);
                            n += 1;
                        }
                        line("dropallresploans".into(), format!("dropped={}", n));
                    }
                    RrOp::ReleaseAllResponses => {
                        let mut n = 0;
                        while c.nresponses() > 0 {
                            c.release(0);
                            n += 1;
                        }
                        line("releaseallresponses".into(), format!("released={}", n));
                    }
                }
            }
            drop(c);
            drop(s);
        }
        wa.teardown(nf.0);
        wb.teardown(nf.1);
    }
    let (left, rec) = if cfg.local { leftovers::<Loc>(&svc, &[&node_a, &node_b]) } else { leftovers::<Ipc>(&svc, &[&node_a, &node_b]) };
    println!("F {} nodes_left={} recreate={}", mode, left, rec);
    k
}

pub fn run_case(case: usize, rng: &mut Rng, maxops: usize) -> usize {
    let cfg = gen_cfg(rng);
    let ops = gen_ops(&cfg, rng, maxops);
    let nf = (rng.chance(50), rng.chance(50));
    println!(
        "C {} reqres local={} req={}/{}/{}/{} resp={}/{}/{}/{} active={} loans={} resp_buf={} borrow={} ovf={}/{} resp_loans={} typed={} cycles={} nops={}",
        case,
        cfg.local,
        cfg.req.size,
        cfg.req.align,
        if cfg.req.dynamic { "dyn" } else { "fix" },
        cfg.req.slice_len,
        cfg.resp.size,
        cfg.resp.align,
        if cfg.resp.dynamic { "dyn" } else { "fix" },
        cfg.resp.slice_len,
        cfg.active,
        cfg.loans,
        cfg.resp_buf,
        cfg.borrow,
        cfg.ovf_req,
        cfg.ovf_resp,
        cfg.resp_loans,
        cfg.typed.is_some(),
        cfg.cycles,
        ops.len()
    );
    let mut n = 0;
    n += run_mode("RR", Api::Rust, Api::Rust, &cfg, &ops, case, nf);
    n += run_mode("CC", Api::C, Api::C, &cfg, &ops, case, nf);
    n += run_mode("CR", Api::C, Api::Rust, &cfg, &ops, case, nf);
    n += run_mode("RC", Api::Rust, Api::C, &cfg, &ops, case, nf);
    if cfg.typed.is_some() {
        n += run_mode("TT", Api::Typed, Api::Typed, &cfg, &ops, case, nf);
        n += run_mode("CT", Api::C, Api::Typed, &cfg, &ops, case, nf);
        n += run_mode("TC", Api::Typed, Api::C, &cfg, &ops, case, nf);
    }
    n
}
