//! publish-subscribe programs: configuration, operations, generator, executor
use crate::{cside, rside, Rng};

#[derive(Clone, Debug)]
pub struct PsCfg {
    pub local: bool,
    pub dynamic: bool,
    pub size: usize,
    pub align: usize,
    pub type_name: String,
    /// index into rside::TYPED when a Rust type with exactly this layout/name exists
    pub typed: Option<usize>,
    pub buf: usize,
    pub borrow: usize,
    pub overflow: bool,
    pub loans: usize,
    pub slice_len: usize,
    pub nsubs: usize,
    /// user header type details ("()" / 0 / 1 = none)
    pub hdr_name: String,
    pub hdr_size: usize,
    pub hdr_align: usize,
    pub history: usize,
}

#[derive(Clone, Debug)]
pub enum PsOp {
    /// (publisher, elements)
    Loan(usize, usize),
    /// (publisher, slot, seed)
    Write(usize, usize, u64),
    Send(usize, usize),
    DropLoan(usize, usize),
    /// (publisher, elements, seed): iox2_publisher_send_copy / send_slice_copy
    SendCopy(usize, usize, u64),
    Recv(usize),
    Release(usize, usize),
    Has(usize),
    Update(usize),
    Counts,
    DropPub(usize),
    DropSub(usize),
    DropAllLoans,
    ReleaseAll(usize),
    /// one more publisher / subscriber than the program needs (may exceed the service limits)
    ExtraPub,
    ExtraSub,
    /// subscriber whose buffer is larger than the service supports
    BadSub,
    /// open/create the same service again with a deviating requirement (side a|b, kind)
    Probe(bool, usize),
    /// drop a port in the middle of the program (loans / borrowed samples it handed out stay
    /// alive, undelivered samples stay queued) and create a new one
    RecyclePub(usize),
    RecycleSub(usize),
}

pub const NPROBE: usize = 9;

pub trait PubSide {
    fn alive(&self) -> bool;
    fn loan(&mut self, n: usize) -> Result<(), String>;
    fn nloans(&self) -> usize;
    /// fills the whole payload of loan `slot` with pattern(seed, i); returns the byte count
    fn write(&mut self, slot: usize, seed: u64) -> usize;
    fn send(&mut self, slot: usize) -> Result<usize, String>;
    /// one call: copy `n` elements filled with pattern(seed, i) and send them
    fn send_copy(&mut self, n: usize, seed: u64) -> Result<usize, String>;
    fn drop_loan(&mut self, slot: usize);
    fn update(&mut self) -> Result<(), String>;
    fn drop_port(&mut self);
}

pub trait SubSide {
    fn alive(&self) -> bool;
    /// Ok(Some("n=<elements> len=<bytes> <hex>"))
    fn recv(&mut self) -> Result<Option<String>, String>;
    fn nheld(&self) -> usize;
    fn release(&mut self, slot: usize);
    fn has(&mut self) -> Result<bool, String>;
    fn drop_port(&mut self);
}

pub trait PsWorld {
    fn make_pub(&self, cfg: &PsCfg) -> Result<Box<dyn PubSide>, String>;
    fn make_sub(&self, cfg: &PsCfg, history_request: Option<usize>) -> Result<Box<dyn SubSide>, String>;
    fn counts(&self) -> (usize, usize);
    /// subscriber with buffer size cfg.buf + 1: must be refused
    fn bad_sub(&self, cfg: &PsCfg) -> String;
    /// kind 0 other payload type, 1 larger min buffer, 2 more publishers, 3 other overflow
    /// behaviour, 4 service does not exist, 5 create although it exists, 6 more subscribers,
    /// 7 more borrowed samples, 8 plain open (succeeds)
    fn probe(&self, cfg: &PsCfg, svc: &str, kind: usize) -> String;
    fn teardown(self: Box<Self>, node_first: bool);
}

#[derive(Clone, Copy, PartialEq, Eq, Debug)]
pub enum Api {
    RustCustom,
    RustTyped,
    C,
}

pub fn make_world(api: Api, cfg: &PsCfg, svc: &str, node: &str) -> Result<Box<dyn PsWorld>, String> {
    match api {
        Api::RustCustom => rside::custom_world(cfg, svc, node),
        Api::RustTyped => rside::typed_world(cfg, svc, node),
        Api::C => cside::ps_world(cfg, svc, node),
    }
}

const LAYOUTS: [(usize, usize); 14] = [(1, 1), (2, 2), (4, 4), (8, 8), (16, 16), (3, 1), (5, 1), (6, 2), (12, 4), (24, 8), (32, 32), (64, 64), (7, 1), (40, 8)];

pub fn gen_cfg(rng: &mut Rng) -> PsCfg {
    let dynamic = rng.chance(50);
    let local = rng.chance(50);
    // half of the cases: a layout for which a Rust type exists (typed modes run too)
    let (size, align, type_name, typed) = if rng.chance(50) {
        let cands: Vec<usize> = (0..rside::TYPED.len()).filter(|&i| rside::TYPED[i].dynamic == dynamic).collect();
        let i = cands[rng.below(cands.len())];
        (rside::TYPED[i].size, rside::TYPED[i].align, rside::TYPED[i].name.to_string(), Some(i))
    } else {
        let (s, a) = LAYOUTS[rng.below(LAYOUTS.len())];
        (s, a, format!("verif_t_{}_{}", s, a), None)
    };
    const HDRS: [(usize, usize); 6] = [(0, 1), (4, 4), (8, 8), (3, 1), (16, 16), (2, 2)];
    let (hs, ha) = if typed.is_some() { (0, 1) } else { HDRS[rng.below(HDRS.len())] };
    PsCfg {
        hdr_name: if hs == 0 { "()".to_string() } else { format!("verif_h_{}_{}", hs, ha) },
        hdr_size: hs,
        hdr_align: ha,
        history: rng.below(3),
        local,
        dynamic,
        size,
        align,
        type_name,
        typed,
        buf: 1 + rng.below(3),
        borrow: 1 + rng.below(2),
        overflow: rng.chance(50),
        loans: 1 + rng.below(2),
        slice_len: if dynamic { 1 + rng.below(5) } else { 1 },
        nsubs: 1 + rng.below(2),
    }
}

pub const MAX_PUBS: usize = 5;
pub const MAX_SUBS: usize = 6;

pub fn gen_ops(cfg: &PsCfg, rng: &mut Rng, maxops: usize) -> Vec<PsOp> {
    let n = 6 + rng.below(maxops.max(7) - 6);
    let mut ops = Vec::new();
    let elems = |rng: &mut Rng| {
        if cfg.dynamic {
            // mostly within the initial max slice length, sometimes beyond it
            if rng.chance(85) {
                1 + rng.below(cfg.slice_len)
            } else {
                cfg.slice_len + 1 + rng.below(3)
            }
        } else {
            1
        }
    };
    // publisher 0 is used most of the time; others only exist after an ExtraPub
    let pubi = |rng: &mut Rng| if rng.chance(60) { 0 } else { rng.below(MAX_PUBS) };
    let subi = |rng: &mut Rng| if rng.chance(65) { rng.below(cfg.nsubs) } else { rng.below(MAX_SUBS) };
    for _ in 0..n {
        let r = rng.below(100);
        let op = if r < 20 {
            PsOp::Loan(pubi(rng), elems(rng))
        } else if r < 28 {
            PsOp::Write(pubi(rng), rng.below(4), rng.next() % 1000)
        } else if r < 44 {
            PsOp::Send(pubi(rng), rng.below(4))
        } else if r < 50 {
            PsOp::SendCopy(pubi(rng), elems(rng), rng.next() % 1000)
        } else if r < 53 {
            PsOp::DropLoan(pubi(rng), rng.below(4))
        } else if r < 75 {
            PsOp::Recv(subi(rng))
        } else if r < 81 {
            PsOp::Release(subi(rng), rng.below(4))
        } else if r < 84 {
            PsOp::Has(subi(rng))
        } else if r < 87 {
            PsOp::Update(pubi(rng))
        } else if r < 89 {
            PsOp::ExtraPub
        } else if r < 91 {
            PsOp::ExtraSub
        } else if r < 92 {
            PsOp::RecyclePub(pubi(rng))
        } else if r < 93 {
            PsOp::RecycleSub(subi(rng))
        } else if r < 94 {
            PsOp::BadSub
        } else if r < 98 {
            PsOp::Probe(rng.chance(50), rng.below(NPROBE))
        } else {
            PsOp::Counts
        };
        // a loan is usually written and sent right away so that data flows
        let follow = if let PsOp::Loan(p, _) = &op { if rng.chance(70) { Some(*p) } else { None } } else { None };
        ops.push(op);
        if let Some(p) = follow {
            ops.push(PsOp::Write(p, rng.below(4), rng.next() % 1000));
            if rng.chance(80) {
                ops.push(PsOp::Send(p, rng.below(4)));
            }
        }
    }
    // teardown in a generated order
    let mut tail = vec![PsOp::DropAllLoans];
    for i in 0..MAX_PUBS {
        tail.push(PsOp::DropPub(i));
    }
    for i in 0..MAX_SUBS {
        tail.push(PsOp::DropSub(i));
        tail.push(PsOp::ReleaseAll(i));
    }
    for i in (1..tail.len()).rev() {
        let j = rng.below(i + 1);
        tail.swap(i, j);
    }
    for t in tail {
        ops.push(t);
        ops.push(PsOp::Counts);
    }
    ops
}

fn res<T: core::fmt::Display>(r: Result<T, String>) -> String {
    match r {
        Ok(v) => format!("ok:{}", v),
        Err(e) => e,
    }
}

pub fn run_mode(mode: &str, a: Api, b: Api, cfg: &PsCfg, ops: &[PsOp], case: usize, node_first: (bool, bool)) -> usize {
    println!("M {}", mode);
    let svc = format!("c18_{}_{}_{}", std::process::id(), case, mode);
    let node_a = format!("{}_a", svc);
    let node_b = format!("{}_b", svc);
    let mut k = 0usize;
    let mut line = |op: String, obs: String| {
        println!("O {} {} = {}", k, op, obs);
        k += 1;
    };
    let wa = make_world(a, cfg, &svc, &node_a);
    line("open_a".into(), match &wa {
        Ok(_) => "ok".into(),
        Err(e) => e.clone(),
    });
    let wb = make_world(b, cfg, &svc, &node_b);
    line("open_b".into(), match &wb {
        Ok(_) => "ok".into(),
        Err(e) => e.clone(),
    });
    if let (Ok(wa), Ok(wb)) = (wa, wb) {
        let mut pubs: Vec<Box<dyn PubSide>> = Vec::new();
        let mut subs: Vec<Box<dyn SubSide>> = Vec::new();
        match wa.make_pub(cfg) {
            Ok(p) => {
                line("make_pub".into(), "ok".into());
                pubs.push(p);
            }
            Err(e) => line("make_pub".into(), e),
        }
        for i in 0..cfg.nsubs {
            match wb.make_sub(cfg, None) {
                Ok(s) => {
                    line(format!("make_sub {}", i), "ok".into());
                    subs.push(s);
                }
                Err(e) => line(format!("make_sub {}", i), e),
            }
        }
        let mut late = 0usize;
        for op in ops {
            match op {
                PsOp::ExtraPub => {
                    let obs = if pubs.len() >= MAX_PUBS {
                        "skip".to_string()
                    } else {
                        match wa.make_pub(cfg) {
                            Ok(p) => {
                                pubs.push(p);
                                "ok".to_string()
                            }
                            Err(e) => e,
                        }
                    };
                    line("extrapub".into(), obs);
                }
                PsOp::ExtraSub => {
                    // late joiners alternate between the default history request and an explicit one
                    late += 1;
                    let hr = if late % 2 == 0 { Some(late % 3) } else { None };
                    let obs = if subs.len() >= MAX_SUBS {
                        "skip".to_string()
                    } else {
                        match wb.make_sub(cfg, hr) {
                            Ok(p) => {
                                subs.push(p);
                                "ok".to_string()
                            }
                            Err(e) => e,
                        }
                    };
                    line(format!("extrasub {:?}", hr).replace(' ', ""), obs);
                }
                PsOp::RecyclePub(pi) => {
                    let room = pubs.len() < MAX_PUBS;
                    let obs = match pubs.get_mut(*pi) {
                        Some(p) if p.alive() && room => {
                            p.drop_port();
                            match wa.make_pub(cfg) {
                                Ok(n) => {
                                    pubs.push(n);
                                    format!("recreated as {}", pubs.len() - 1)
                                }
                                Err(e) => e,
                            }
                        }
                        _ => "skip".into(),
                    };
                    line(format!("recyclepub {}", pi), obs);
                }
                PsOp::RecycleSub(i) => {
                    let room = subs.len() < MAX_SUBS;
                    let obs = match subs.get_mut(*i) {
                        Some(sb) if sb.alive() && room => {
                            sb.drop_port();
                            match wb.make_sub(cfg, None) {
                                Ok(n) => {
                                    subs.push(n);
                                    format!("recreated as {}", subs.len() - 1)
                                }
                                Err(e) => e,
                            }
                        }
                        _ => "skip".into(),
                    };
                    line(format!("recyclesub {}", i), obs);
                }
                PsOp::BadSub => line("badsub".into(), wb.bad_sub(cfg)),
                PsOp::Probe(side_a, kind) => {
                    let obs = if *side_a { wa.probe(cfg, &svc, *kind) } else { wb.probe(cfg, &svc, *kind) };
                    line(format!("probe {} {}", if *side_a { "a" } else { "b" }, kind), obs);
                }
                PsOp::Loan(pi, n) => {
                    let obs = match pubs.get_mut(*pi) {
                        Some(p) if p.alive() => res(p.loan(*n).map(|_| "")),
                        _ => "skip".into(),
                    };
                    line(format!("loan {} {}", pi, n), obs);
                }
                PsOp::Write(pi, s, seed) => {
                    let obs = match pubs.get_mut(*pi) {
                        Some(p) if p.nloans() > 0 => {
                            let slot = s % p.nloans();
                            format!("slot={} bytes={}", slot, p.write(slot, *seed))
                        }
                        _ => "skip".into(),
                    };
                    line(format!("write {} {} {}", pi, s, seed), obs);
                }
                PsOp::Send(pi, s) => {
                    let obs = match pubs.get_mut(*pi) {
                        Some(p) if p.nloans() > 0 => {
                            let slot = s % p.nloans();
                            res(p.send(slot))
                        }
                        _ => "skip".into(),
                    };
                    line(format!("send {} {}", pi, s), obs);
                }
                PsOp::SendCopy(pi, n, seed) => {
                    // with a user header the C send_copy functions cannot initialise it (the subscriber
                    // would read uninitialised memory in either API): only exercised without one
                    let obs = match pubs.get_mut(*pi) {
                        Some(p) if p.alive() && cfg.hdr_size == 0 => res(p.send_copy(*n, *seed)),
                        _ => "skip".into(),
                    };
                    line(format!("sendcopy {} {} {}", pi, n, seed), obs);
                }
                PsOp::DropLoan(pi, s) => {
                    let obs = match pubs.get_mut(*pi) {
                        Some(p) if p.nloans() > 0 => {
                            let slot = s % p.nloans();
                            p.drop_loan(slot);
                            format!("dropped slot={}", slot)
                        }
                        _ => "skip".into(),
                    };
                    line(format!("droploan {} {}", pi, s), obs);
                }
                PsOp::DropAllLoans => {
                    let mut n = 0;
                    for p in pubs.iter_mut() {
                        while p.nloans() > 0 {
                            p.drop_loan(0);
                            n += 1;
                        }
                    }
                    line("dropallloans".into(), format!("dropped={}", n));
                }
                PsOp::Recv(i) => {
                    let obs = match subs.get_mut(*i) {
                        Some(s) if s.alive() => match s.recv() {
                            Ok(Some(d)) => d,
                            Ok(None) => "none".into(),
                            Err(e) => e,
                        },
                        _ => "skip".into(),
                    };
                    line(format!("recv {}", i), obs);
                }
                PsOp::Release(i, s) => {
                    let obs = match subs.get_mut(*i) {
                        Some(sb) if sb.nheld() > 0 => {
                            let slot = s % sb.nheld();
                            sb.release(slot);
                            format!("released slot={}", slot)
                        }
                        _ => "skip".into(),
                    };
                    line(format!("release {} {}", i, s), obs);
                }
                PsOp::ReleaseAll(i) => {
                    let mut n = 0;
                    if let Some(sb) = subs.get_mut(*i) {
                        while sb.nheld() > 0 {
                            sb.release(0);
                            n += 1;
                        }
                    }
                    line(format!("releaseall {}", i), format!("released={}", n));
                }
                PsOp::Has(i) => {
                    let obs = match subs.get_mut(*i) {
                        Some(s) if s.alive() => res(s.has()),
                        _ => "skip".into(),
                    };
                    line(format!("has {}", i), obs);
                }
                PsOp::Update(pi) => {
                    let obs = match pubs.get_mut(*pi) {
                        Some(p) if p.alive() => res(p.update().map(|_| "")),
                        _ => "skip".into(),
                    };
                    line(format!("update {}", pi), obs);
                }
                PsOp::Counts => {
                    let (pa, sa) = wa.counts();
                    let (pb, sb) = wb.counts();
                    line("counts".into(), format!("a:p={},s={} b:p={},s={}", pa, sa, pb, sb));
                }
                PsOp::DropPub(pi) => {
                    let obs = match pubs.get_mut(*pi) {
                        Some(p) if p.alive() => {
                            p.drop_port();
                            "dropped".to_string()
                        }
                        _ => "skip".into(),
                    };
                    line(format!("droppub {}", pi), obs);
                }
                PsOp::DropSub(i) => {
                    let obs = match subs.get_mut(*i) {
                        Some(s) if s.alive() => {
                            s.drop_port();
                            "dropped".to_string()
                        }
                        _ => "skip".into(),
                    };
                    line(format!("dropsub {}", i), obs);
                }
            }
        }
        drop(pubs);
        drop(subs);
        wa.teardown(node_first.0);
        wb.teardown(node_first.1);
    }
    // what is left behind (observed through the Rust API)
    let (nodes_left, recreate) = rside::leftovers(cfg, &svc, &[&node_a, &node_b]);
    println!("F {} nodes_left={} recreate={}", mode, nodes_left, recreate);
    k
}

pub fn run_case(case: usize, rng: &mut Rng, maxops: usize) -> usize {
    let cfg = gen_cfg(rng);
    let ops = gen_ops(&cfg, rng, maxops);
    let nf = (rng.chance(50), rng.chance(50));
    println!(
        "C {} pubsub local={} dynamic={} size={} align={} type={} typed={} buf={} borrow={} overflow={} loans={} slice_len={} nsubs={} hdr={}/{} history={} nops={}",
        case,
        cfg.local,
        cfg.dynamic,
        cfg.size,
        cfg.align,
        cfg.type_name.replace(' ', ""),
        cfg.typed.is_some(),
        cfg.buf,
        cfg.borrow,
        cfg.overflow,
        cfg.loans,
        cfg.slice_len,
        cfg.nsubs,
        cfg.hdr_size,
        cfg.hdr_align,
        cfg.history,
        ops.len()
    );
    let mut n = 0;
    n += run_mode("RR", Api::RustCustom, Api::RustCustom, &cfg, &ops, case, nf);
    n += run_mode("CC", Api::C, Api::C, &cfg, &ops, case, nf);
    n += run_mode("CR", Api::C, Api::RustCustom, &cfg, &ops, case, nf);
    n += run_mode("RC", Api::RustCustom, Api::C, &cfg, &ops, case, nf);
    if cfg.typed.is_some() {
        n += run_mode("TT", Api::RustTyped, Api::RustTyped, &cfg, &ops, case, nf);
        n += run_mode("CT", Api::C, Api::RustTyped, &cfg, &ops, case, nf);
        n += run_mode("TC", Api::RustTyped, Api::C, &cfg, &ops, case, nf);
    }
    n
}
