//! publish-subscribe programs: configuration, operations, generator, executor
use crate::{cside, rside, Rng};

#[derive(Clone, Debug)]
pub struct PsCfg {
    pub local: bool,
    pub dynamic: bool,
    pub size: usize,
    pub align: usize,
    pub type_name: String,
    /// index into rside::TYPED when a Rust type with exactly this layout/name exists
    pub typed: Option<usize>,
    pub buf: usize,
    pub borrow: usize,
    pub overflow: bool,
    pub loans: usize,
    pub slice_len: usize,
    pub nsubs: usize,
}

#[derive(Clone, Debug)]
pub enum PsOp {
    Loan(usize),
    Write(usize, u64),
    Send(usize),
    DropLoan(usize),
    Recv(usize),
    Release(usize, usize),
    Has(usize),
    Update,
    Counts,
    DropPub,
    DropSub(usize),
    DropAllLoans,
    ReleaseAll(usize),
}

pub trait PubSide {
    fn alive(&self) -> bool;
    fn loan(&mut self, n: usize) -> Result<(), String>;
    fn nloans(&self) -> usize;
    /// fills the whole payload of loan `slot` with pattern(seed, i); returns the byte count
    fn write(&mut self, slot: usize, seed: u64) -> usize;
    fn send(&mut self, slot: usize) -> Result<usize, String>;
    fn drop_loan(&mut self, slot: usize);
    fn update(&mut self) -> Result<(), String>;
    fn drop_port(&mut self);
}

pub trait SubSide {
    fn alive(&self) -> bool;
    /// Ok(Some("n=<elements> len=<bytes> <hex>"))
    fn recv(&mut self) -> Result<Option<String>, String>;
    fn nheld(&self) -> usize;
    fn release(&mut self, slot: usize);
    fn has(&mut self) -> Result<bool, String>;
    fn drop_port(&mut self);
}

pub trait PsWorld {
    fn make_pub(&self, cfg: &PsCfg) -> Result<Box<dyn PubSide>, String>;
    fn make_sub(&self, cfg: &PsCfg) -> Result<Box<dyn SubSide>, String>;
    fn counts(&self) -> (usize, usize);
    fn teardown(self: Box<Self>, node_first: bool);
}

#[derive(Clone, Copy, PartialEq, Eq, Debug)]
pub enum Api {
    RustCustom,
    RustTyped,
    C,
}

pub fn make_world(api: Api, cfg: &PsCfg, svc: &str, node: &str) -> Result<Box<dyn PsWorld>, String> {
    match api {
        Api::RustCustom => rside::custom_world(cfg, svc, node),
        Api::RustTyped => rside::typed_world(cfg, svc, node),
        Api::C => cside::ps_world(cfg, svc, node),
    }
}

const LAYOUTS: [(usize, usize); 14] = [(1, 1), (2, 2), (4, 4), (8, 8), (16, 16), (3, 1), (5, 1), (6, 2), (12, 4), (24, 8), (32, 32), (64, 64), (7, 1), (40, 8)];

pub fn gen_cfg(rng: &mut Rng) -> PsCfg {
    let dynamic = rng.chance(50);
    let local = rng.chance(50);
    // half of the cases: a layout for which a Rust type exists (typed modes run too)
    let (size, align, type_name, typed) = if rng.chance(50) {
        let cands: Vec<usize> = (0..rside::TYPED.len()).filter(|&i| rside::TYPED[i].dynamic == dynamic).collect();
        let i = cands[rng.below(cands.len())];
        (rside::TYPED[i].size, rside::TYPED[i].align, rside::TYPED[i].name.to_string(), Some(i))
    } else {
        let (s, a) = LAYOUTS[rng.below(LAYOUTS.len())];
        (s, a, format!("verif_t_{}_{}", s, a), None)
    };
    PsCfg {
        local,
        dynamic,
        size,
        align,
        type_name,
        typed,
        buf: 1 + rng.below(3),
        borrow: 1 + rng.below(2),
        overflow: rng.chance(50),
        loans: 1 + rng.below(2),
        slice_len: if dynamic { 1 + rng.below(5) } else { 1 },
        nsubs: 1 + rng.below(2),
    }
}

pub fn gen_ops(cfg: &PsCfg, rng: &mut Rng, maxops: usize) -> Vec<PsOp> {
    let n = 6 + rng.below(maxops.max(7) - 6);
    let mut ops = Vec::new();
    for _ in 0..n {
        let r = rng.below(100);
        let op = if r < 24 {
            let k = if cfg.dynamic {
                // mostly within the initial max slice length, sometimes beyond it
                if rng.chance(85) {
                    1 + rng.below(cfg.slice_len)
                } else {
                    cfg.slice_len + 1 + rng.below(3)
                }
            } else {
                1
            };
            PsOp::Loan(k)
        } else if r < 34 {
            PsOp::Write(rng.below(4), rng.next() % 1000)
        } else if r < 54 {
            PsOp::Send(rng.below(4))
        } else if r < 58 {
            PsOp::DropLoan(rng.below(4))
        } else if r < 80 {
            PsOp::Recv(rng.below(cfg.nsubs))
        } else if r < 88 {
            PsOp::Release(rng.below(cfg.nsubs), rng.below(4))
        } else if r < 93 {
            PsOp::Has(rng.below(cfg.nsubs))
        } else if r < 96 {
            PsOp::Update
        } else {
            PsOp::Counts
        };
        // a loan is usually written and sent right away so that data flows
        let follow = matches!(op, PsOp::Loan(_)) && rng.chance(70);
        ops.push(op);
        if follow {
            ops.push(PsOp::Write(rng.below(4), rng.next() % 1000));
            if rng.chance(80) {
                ops.push(PsOp::Send(rng.below(4)));
            }
        }
    }
    // teardown in a generated order
    let mut tail = vec![PsOp::DropPub, PsOp::DropAllLoans];
    for i in 0..cfg.nsubs {
        tail.push(PsOp::DropSub(i));
        tail.push(PsOp::ReleaseAll(i));
    }
    for i in (1..tail.len()).rev() {
        let j = rng.below(i + 1);
        tail.swap(i, j);
    }
    for t in tail {
        ops.push(t);
        ops.push(PsOp::Counts);
    }
    ops
}

fn res<T: core::fmt::Display>(r: Result<T, String>) -> String {
    match r {
        Ok(v) => format!("ok:{}", v),
        Err(e) => e,
    }
}

pub fn run_mode(mode: &str, a: Api, b: Api, cfg: &PsCfg, ops: &[PsOp], case: usize, node_first: (bool, bool)) -> usize {
    println!("M {}", mode);
    let svc = format!("c18_{}_{}_{}", std::process::id(), case, mode);
    let node_a = format!("{}_a", svc);
    let node_b = format!("{}_b", svc);
    let mut k = 0usize;
    let mut line = |op: String, obs: String| {
        println!("O {} {} = {}", k, op, obs);
        k += 1;
    };
    let wa = make_world(a, cfg, &svc, &node_a);
    line("open_a".into(), match &wa {
        Ok(_) => "ok".into(),
        Err(e) => e.clone(),
    });
    let wb = make_world(b, cfg, &svc, &node_b);
    line("open_b".into(), match &wb {
        Ok(_) => "ok".into(),
        Err(e) => e.clone(),
    });
    if let (Ok(wa), Ok(wb)) = (wa, wb) {
        let mut publ = match wa.make_pub(cfg) {
            Ok(p) => {
                line("make_pub".into(), "ok".into());
                Some(p)
            }
            Err(e) => {
                line("make_pub".into(), e);
                None
            }
        };
        let mut subs: Vec<Option<Box<dyn SubSide>>> = Vec::new();
        for i in 0..cfg.nsubs {
            match wb.make_sub(cfg) {
                Ok(s) => {
                    line(format!("make_sub {}", i), "ok".into());
                    subs.push(Some(s));
                }
                Err(e) => {
                    line(format!("make_sub {}", i), e);
                    subs.push(None);
                }
            }
        }
        for op in ops {
            match op {
                PsOp::Loan(n) => {
                    let obs = match publ.as_mut() {
                        Some(p) if p.alive() => res(p.loan(*n).map(|_| "")),
                        _ => "skip".into(),
                    };
                    line(format!("loan {}", n), obs);
                }
                PsOp::Write(s, seed) => {
                    let obs = match publ.as_mut() {
                        Some(p) if p.nloans() > 0 => {
                            let slot = s % p.nloans();
                            format!("slot={} bytes={}", slot, p.write(slot, *seed))
                        }
                        _ => "skip".into(),
                    };
                    line(format!("write {} {}", s, seed), obs);
                }
                PsOp::Send(s) => {
                    let obs = match publ.as_mut() {
                        Some(p) if p.nloans() > 0 => {
                            let slot = s % p.nloans();
                            res(p.send(slot))
                        }
                        _ => "skip".into(),
                    };
                    line(format!("send {}", s), obs);
                }
                PsOp::DropLoan(s) => {
                    let obs = match publ.as_mut() {
                        Some(p) if p.nloans() > 0 => {
                            let slot = s % p.nloans();
                            p.drop_loan(slot);
                            format!("dropped slot={}", slot)
                        }
                        _ => "skip".into(),
                    };
                    line(format!("droploan {}", s), obs);
                }
                PsOp::DropAllLoans => {
                    let mut n = 0;
                    if let Some(p) = publ.as_mut() {
                        while p.nloans() > 0 {
                            p.drop_loan(0);
                            n += 1;
                        }
                    }
                    line("dropallloans".into(), format!("dropped={}", n));
                }
                PsOp::Recv(i) => {
                    let obs = match subs[*i].as_mut() {
                        Some(s) if s.alive() => match s.recv() {
                            Ok(Some(d)) => d,
                            Ok(None) => "none".into(),
                            Err(e) => e,
                        },
                        _ => "skip".into(),
                    };
                    line(format!("recv {}", i), obs);
                }
                PsOp::Release(i, s) => {
                    let obs = match subs[*i].as_mut() {
                        Some(sb) if sb.nheld() > 0 => {
                            let slot = s % sb.nheld();
                            sb.release(slot);
                            format!("released slot={}", slot)
                        }
                        _ => "skip".into(),
                    };
                    line(format!("release {} {}", i, s), obs);
                }
                PsOp::ReleaseAll(i) => {
                    let mut n = 0;
                    if let Some(sb) = subs[*i].as_mut() {
                        while sb.nheld() > 0 {
                            sb.release(0);
                            n += 1;
                        }
                    }
                    line(format!("releaseall {}", i), format!("released={}", n));
                }
                PsOp::Has(i) => {
                    let obs = match subs[*i].as_mut() {
                        Some(s) if s.alive() => res(s.has()),
                        _ => "skip".into(),
                    };
                    line(format!("has {}", i), obs);
                }
                PsOp::Update => {
                    let obs = match publ.as_mut() {
                        Some(p) if p.alive() => res(p.update().map(|_| "")),
                        _ => "skip".into(),
                    };
                    line("update".into(), obs);
                }
                PsOp::Counts => {
                    let (pa, sa) = wa.counts();
                    let (pb, sb) = wb.counts();
                    line("counts".into(), format!("a:p={},s={} b:p={},s={}", pa, sa, pb, sb));
                }
                PsOp::DropPub => {
                    let obs = match publ.as_mut() {
                        Some(p) if p.alive() => {
                            p.drop_port();
                            "dropped".to_string()
                        }
                        _ => "skip".into(),
                    };
                    line("droppub".into(), obs);
                }
                PsOp::DropSub(i) => {
                    let obs = match subs[*i].as_mut() {
                        Some(s) if s.alive() => {
                            s.drop_port();
                            "dropped".to_string()
                        }
                        _ => "skip".into(),
                    };
                    line(format!("dropsub {}", i), obs);
                }
            }
        }
        drop(publ);
        drop(subs);
        wa.teardown(node_first.0);
        wb.teardown(node_first.1);
    }
    // what is left behind (observed through the Rust API)
    let (nodes_left, recreate) = rside::leftovers(cfg, &svc, &[&node_a, &node_b]);
    println!("F {} nodes_left={} recreate={}", mode, nodes_left, recreate);
    k
}

pub fn run_case(case: usize, rng: &mut Rng, maxops: usize) -> usize {
    let cfg = gen_cfg(rng);
    let ops = gen_ops(&cfg, rng, maxops);
    let nf = (rng.chance(50), rng.chance(50));
    println!(
        "C {} pubsub local={} dynamic={} size={} align={} type={} typed={} buf={} borrow={} overflow={} loans={} slice_len={} nsubs={} nops={}",
        case,
        cfg.local,
        cfg.dynamic,
        cfg.size,
        cfg.align,
        cfg.type_name.replace(' ', ""),
        cfg.typed.is_some(),
        cfg.buf,
        cfg.borrow,
        cfg.overflow,
        cfg.loans,
        cfg.slice_len,
        cfg.nsubs,
        ops.len()
    );
    let mut n = 0;
    n += run_mode("RR", Api::RustCustom, Api::RustCustom, &cfg, &ops, case, nf);
    n += run_mode("CC", Api::C, Api::C, &cfg, &ops, case, nf);
    n += run_mode("CR", Api::C, Api::RustCustom, &cfg, &ops, case, nf);
    n += run_mode("RC", Api::RustCustom, Api::C, &cfg, &ops, case, nf);
    if cfg.typed.is_some() {
        n += run_mode("TT", Api::RustTyped, Api::RustTyped, &cfg, &ops, case, nf);
        n += run_mode("CT", Api::C, Api::RustTyped, &cfg, &ops, case, nf);
        n += run_mode("TC", Api::RustTyped, Api::C, &cfg, &ops, case, nf);
    }
    n
}
