//! event programs: notify / notify_with_custom_event_id / try_wait through both APIs and mixed
use crate::rside::{Ipc, Loc};
use crate::{cside, rust_err, Rng};
use iceoryx2::port::listener::Listener;
use iceoryx2::port::notifier::Notifier;
use iceoryx2::prelude::*;
use iceoryx2::prelude::PortFactory as _;
use iceoryx2::service::port_factory::event::PortFactory;

#[derive(Clone, Debug)]
pub struct EvCfg {
    pub local: bool,
    pub max_id: usize,
    pub default_id: usize,
    pub nlisteners: usize,
    pub nnotifiers: usize,
}

#[derive(Clone, Debug)]
pub enum EvOp {
    Notify(usize),
    NotifyId(usize, usize),
    TryWait(usize),
    Counts,
    DropNotifier(usize),
    DropListener(usize),
    ExtraNotifier,
    ExtraListener,
    Probe(bool, usize),
    DropExtras,
    /// drop a port in the middle of the program (notifications stay pending / undelivered) and
    /// create a new one in its place
    RecycleNotifier(usize),
    RecycleListener(usize),
}

pub const NPROBE: usize = 6;

pub trait NotifierSide {
    fn alive(&self) -> bool;
    fn notify(&mut self) -> Result<usize, String>;
    fn notify_id(&mut self, id: usize) -> Result<usize, String>;
    fn drop_port(&mut self);
}

pub trait ListenerSide {
    fn alive(&self) -> bool;
    /// (returned number of notifications, activations (event id, count) in callback order)
    fn try_wait(&mut self) -> Result<(u64, Vec<(usize, u64)>), String>;
    fn drop_port(&mut self);
}

pub trait EvWorld {
    fn make_notifier(&self, cfg: &EvCfg) -> Result<Box<dyn NotifierSide>, String>;
    fn make_listener(&self, cfg: &EvCfg) -> Result<Box<dyn ListenerSide>, String>;
    fn counts(&self) -> (usize, usize);
    /// kind 0 larger event id range, 1 more notifiers, 2 more listeners, 3 service does not exist,
    /// 4 create although it exists, 5 plain open (succeeds)
    fn probe(&self, cfg: &EvCfg, svc: &str, kind: usize) -> String;
    fn teardown(self: Box<Self>, node_first: bool);
}

// ---- Rust API ----
struct RWorld<S: Service> {
    node: Option<Node<S>>,
    factory: Option<PortFactory<S>>,
}

fn rworld<S: Service + 'static>(cfg: &EvCfg, svc: &str, node: &str) -> Result<Box<dyn EvWorld>, String> {
    let name = NodeName::new(node).map_err(rust_err)?;
    let node = NodeBuilder::new().name(&name).create::<S>().map_err(rust_err)?;
    let sname = ServiceName::new(svc).map_err(rust_err)?;
    let factory = node
        .service_builder(&sname)
        .event()
        .event_id_max_value(cfg.max_id)
        .max_notifiers(4)
        .max_listeners(4)
        .max_nodes(8)
        .open_or_create()
        .map_err(rust_err)?;
    Ok(Box::new(RWorld::<S> { node: Some(node), factory: Some(factory) }))
}

pub fn rust_world(cfg: &EvCfg, svc: &str, node: &str) -> Result<Box<dyn EvWorld>, String> {
    if cfg.local {
        rworld::<Loc>(cfg, svc, node)
    } else {
        rworld::<Ipc>(cfg, svc, node)
    }
}

impl<S: Service + 'static> EvWorld for RWorld<S> {
    fn make_notifier(&self, cfg: &EvCfg) -> Result<Box<dyn NotifierSide>, String> {
        let n = self.factory.as_ref().unwrap().notifier_builder().default_event_id(EventId::new(cfg.default_id)).create().map_err(rust_err)?;
        Ok(Box::new(RNotifier::<S> { port: Some(n) }))
    }
    fn make_listener(&self, _cfg: &EvCfg) -> Result<Box<dyn ListenerSide>, String> {
        let l = self.factory.as_ref().unwrap().listener_builder().create().map_err(rust_err)?;
        Ok(Box::new(RListener::<S> { port: Some(l) }))
    }
    fn counts(&self) -> (usize, usize) {
        let f = self.factory.as_ref().unwrap();
        (f.dynamic_config().number_of_notifiers(), f.dynamic_config().number_of_listeners())
    }
    fn probe(&self, cfg: &EvCfg, svc: &str, kind: usize) -> String {
        let node = self.node.as_ref().unwrap();
        let name = ServiceName::new(svc).unwrap();
        let nx = ServiceName::new(&format!("{}_nx", svc)).unwrap();
        let b = || node.service_builder(&name).event();
        let r = match kind {
            0 => b().event_id_max_value(cfg.max_id + 1).open().map(|f| drop(f)).map_err(rust_err),
            1 => b().max_notifiers(5).open().map(|f| drop(f)).map_err(rust_err),
            2 => b().max_listeners(5).open().map(|f| drop(f)).map_err(rust_err),
            3 => node.service_builder(&nx).event().open().map(|f| drop(f)).map_err(rust_err),
            4 => b().create().map(|f| drop(f)).map_err(rust_err),
            _ => b().open().map(|f| drop(f)).map_err(rust_err),
        };
        match r {
            Ok(()) => "ok".into(),
            Err(e) => e,
        }
    }
    fn teardown(mut self: Box<Self>, node_first: bool) {
        if node_first {
            self.node.take();
            self.factory.take();
        } else {
            self.factory.take();
            self.node.take();
        }
    }
}

struct RNotifier<S: Service> {
    port: Option<Notifier<S>>,
}
impl<S: Service> NotifierSide for RNotifier<S> {
    fn alive(&self) -> bool {
        self.port.is_some()
    }
    fn notify(&mut self) -> Result<usize, String> {
        self.port.as_ref().unwrap().notify().map_err(rust_err)
    }
    fn notify_id(&mut self, id: usize) -> Result<usize, String> {
        self.port.as_ref().unwrap().notify_with_custom_event_id(EventId::new(id)).map_err(rust_err)
    }
    fn drop_port(&mut self) {
        self.port.take();
    }
}

struct RListener<S: Service> {
    port: Option<Listener<S>>,
}
impl<S: Service> ListenerSide for RListener<S> {
    fn alive(&self) -> bool {
        self.port.is_some()
    }
    fn try_wait(&mut self) -> Result<(u64, Vec<(usize, u64)>), String> {
        let mut v = Vec::new();
        let n = self.port.as_ref().unwrap().try_wait(|a| v.push((a.id.as_value(), a.count))).map_err(rust_err)?;
        Ok((n, v))
    }
    fn drop_port(&mut self) {
        self.port.take();
    }
}

// ---- generator / executor ----
pub fn gen_cfg(rng: &mut Rng) -> EvCfg {
    let max_id = rng.below(9);
    EvCfg { local: rng.chance(50), max_id, default_id: rng.below(max_id + 2), nlisteners: 1 + rng.below(2), nnotifiers: 1 + rng.below(2) }
}

pub fn gen_ops(cfg: &EvCfg, rng: &mut Rng, maxops: usize) -> Vec<EvOp> {
    let n = 6 + rng.below(maxops.max(7) - 6);
    let mut ops = Vec::new();
    for _ in 0..n {
        let r = rng.below(100);
        ops.push(if r < 25 {
            EvOp::Notify(rng.below(cfg.nnotifiers))
        } else if r < 60 {
            EvOp::NotifyId(rng.below(cfg.nnotifiers), rng.below(cfg.max_id + 3))
        } else if r < 86 {
            EvOp::TryWait(rng.below(cfg.nlisteners))
        } else if r < 89 {
            EvOp::ExtraNotifier
        } else if r < 92 {
            EvOp::ExtraListener
        } else if r < 94 {
            EvOp::Probe(rng.chance(50), rng.below(NPROBE))
        } else if r < 95 {
            EvOp::RecycleNotifier(rng.below(cfg.nnotifiers))
        } else if r < 97 {
            EvOp::RecycleListener(rng.below(cfg.nlisteners))
        } else {
            EvOp::Counts
        });
    }
    let mut tail = vec![EvOp::DropExtras];
    for i in 0..cfg.nnotifiers {
        tail.push(EvOp::DropNotifier(i));
    }
    for i in 0..cfg.nlisteners {
        tail.push(EvOp::DropListener(i));
    }
    for i in (1..tail.len()).rev() {
        let j = rng.below(i + 1);
        tail.swap(i, j);
    }
    for (i, t) in tail.into_iter().enumerate() {
        ops.push(t);
        ops.push(EvOp::Counts);
        if i % 2 == 0 {
            ops.push(EvOp::Notify(0));
            ops.push(EvOp::TryWait(0));
        }
    }
    ops
}

fn make(api_c: bool, cfg: &EvCfg, svc: &str, node: &str) -> Result<Box<dyn EvWorld>, String> {
    if api_c {
        cside::ev_world(cfg, svc, node)
    } else {
        rust_world(cfg, svc, node)
    }
}

fn res<T: core::fmt::Display>(r: Result<T, String>) -> String {
    match r {
        Ok(v) => format!("ok:{}", v),
        Err(e) => e,
    }
}

fn leftovers<S: Service>(svc: &str, nodes: &[&str]) -> (usize, String) {
    let left = crate::rside::node_names_left::<S>(nodes);
    let rec = (|| -> Result<(), String> {
        let name = NodeName::new(&format!("{}_x", svc)).map_err(rust_err)?;
        let node = NodeBuilder::new().name(&name).create::<S>().map_err(rust_err)?;
        let sname = ServiceName::new(svc).map_err(rust_err)?;
        let f = node.service_builder(&sname).event().create().map_err(rust_err)?;
        drop(f);
        Ok(())
    })();
    (left, match rec {
        Ok(()) => "ok".into(),
        Err(e) => e,
    })
}

fn run_mode(mode: &str, a_c: bool, b_c: bool, cfg: &EvCfg, ops: &[EvOp], case: usize, nf: (bool, bool)) -> usize {
    println!("M {}", mode);
    let svc = format!("c18e_{}_{}_{}", std::process::id(), case, mode);
    let node_a = format!("{}_a", svc);
    let node_b = format!("{}_b", svc);
    let mut k = 0usize;
    let mut line = |op: String, obs: String| {
        println!("O {} {} = {}", k, op, obs);
        k += 1;
    };
    let wa = make(a_c, cfg, &svc, &node_a);
    line("open_a".into(), match &wa {
        Ok(_) => "ok".into(),
        Err(e) => e.clone(),
    });
    let wb = make(b_c, cfg, &svc, &node_b);
    line("open_b".into(), match &wb {
        Ok(_) => "ok".into(),
        Err(e) => e.clone(),
    });
    if let (Ok(wa), Ok(wb)) = (wa, wb) {
        let mut nots: Vec<Option<Box<dyn NotifierSide>>> = Vec::new();
        for i in 0..cfg.nnotifiers {
            match wa.make_notifier(cfg) {
                Ok(n) => {
                    line(format!("make_notifier {}", i), "ok".into());
                    nots.push(Some(n));
                }
                Err(e) => {
                    line(format!("make_notifier {}", i), e);
                    nots.push(None);
                }
            }
        }
        let mut lis: Vec<Option<Box<dyn ListenerSide>>> = Vec::new();
        for i in 0..cfg.nlisteners {
            match wb.make_listener(cfg) {
                Ok(l) => {
                    line(format!("make_listener {}", i), "ok".into());
                    lis.push(Some(l));
                }
                Err(e) => {
                    line(format!("make_listener {}", i), e);
                    lis.push(None);
                }
            }
        }
        let mut extra_n: Vec<Box<dyn NotifierSide>> = Vec::new();
        let mut extra_l: Vec<Box<dyn ListenerSide>> = Vec::new();
        for op in ops {
            match op {
                EvOp::ExtraNotifier => {
                    let obs = match wa.make_notifier(cfg) {
                        Ok(p) => {
                            extra_n.push(p);
                            "ok".to_string()
                        }
                        Err(e) => e,
                    };
                    line("extranotifier".into(), obs);
                }
                EvOp::ExtraListener => {
                    let obs = match wb.make_listener(cfg) {
                        Ok(p) => {
                            extra_l.push(p);
                            "ok".to_string()
                        }
                        Err(e) => e,
                    };
                    line("extralistener".into(), obs);
                }
                EvOp::Probe(side_a, kind) => {
                    let obs = if *side_a { wa.probe(cfg, &svc, *kind) } else { wb.probe(cfg, &svc, *kind) };
                    line(format!("probe {} {}", if *side_a { "a" } else { "b" }, kind), obs);
                }
                EvOp::RecycleNotifier(i) => {
                    let obs = match nots[*i].as_mut() {
                        Some(n) if n.alive() => {
                            n.drop_port();
                            match wa.make_notifier(cfg) {
                                Ok(p) => {
                                    nots[*i] = Some(p);
                                    "recreated".to_string()
                                }
                                Err(e) => e,
                            }
                        }
                        _ => "skip".into(),
                    };
                    line(format!("recyclenotifier {}", i), obs);
                }
                EvOp::RecycleListener(i) => {
                    let obs = match lis[*i].as_mut() {
                        Some(l) if l.alive() => {
                            l.drop_port();
                            match wb.make_listener(cfg) {
                                Ok(p) => {
                                    lis[*i] = Some(p);
                                    "recreated".to_string()
                                }
                                Err(e) => e,
                            }
                        }
                        _ => "skip".into(),
                    };
                    line(format!("recyclelistener {}", i), obs);
                }
                EvOp::DropExtras => {
                    let n = extra_n.len() + extra_l.len();
                    extra_n.clear();
                    extra_l.clear();
                    line("dropextras".into(), format!("dropped={}", n));
                }
                EvOp::Notify(i) => {
                    let obs = match nots[*i].as_mut() {
                        Some(n) if n.alive() => res(n.notify()),
                        _ => "skip".into(),
                    };
                    line(format!("notify {}", i), obs);
                }
                EvOp::NotifyId(i, id) => {
                    let obs = match nots[*i].as_mut() {
                        Some(n) if n.alive() => res(n.notify_id(*id)),
                        _ => "skip".into(),
                    };
                    line(format!("notify_id {} {}", i, id), obs);
                }
                EvOp::TryWait(i) => {
                    let obs = match lis[*i].as_mut() {
                        Some(l) if l.alive() => match l.try_wait() {
                            Ok((n, v)) => format!("ok:{}:{}", n, v.iter().map(|(id, c)| format!("{}x{}", id, c)).collect::<Vec<_>>().join(",")),
                            Err(e) => e,
                        },
                        _ => "skip".into(),
                    };
                    line(format!("try_wait {}", i), obs);
                }
                EvOp::Counts => {
                    let (na, la) = wa.counts();
                    let (nb, lb) = wb.counts();
                    line("counts".into(), format!("a:n={},l={} b:n={},l={}", na, la, nb, lb));
                }
                EvOp::DropNotifier(i) => {
                    let obs = match nots[*i].as_mut() {
                        Some(n) if n.alive() => {
                            n.drop_port();
                            "dropped".to_string()
                        }
                        _ => "skip".into(),
                    };
                    line(format!("dropnotifier {}", i), obs);
                }
                EvOp::DropListener(i) => {
                    let obs = match lis[*i].as_mut() {
                        Some(l) if l.alive() => {
                            l.drop_port();
                            "dropped".to_string()
                        }
                        _ => "skip".into(),
                    };
                    line(format!("droplistener {}", i), obs);
                }
            }
        }
        drop(nots);
        drop(lis);
        drop(extra_n);
        drop(extra_l);
        wa.teardown(nf.0);
        wb.teardown(nf.1);
    }
    let (left, rec) = if cfg.local { leftovers::<Loc>(&svc, &[&node_a, &node_b]) } else { leftovers::<Ipc>(&svc, &[&node_a, &node_b]) };
    println!("F {} nodes_left={} recreate={}", mode, left, rec);
    k
}

pub fn run_case(case: usize, rng: &mut Rng, maxops: usize) -> usize {
    let cfg = gen_cfg(rng);
    let ops = gen_ops(&cfg, rng, maxops);
    let nf = (rng.chance(50), rng.chance(50));
    println!(
        "C {} event local={} max_id={} default_id={} nlisteners={} nnotifiers={} nops={}",
        case,
        cfg.local,
        cfg.max_id,
        cfg.default_id,
        cfg.nlisteners,
        cfg.nnotifiers,
        ops.len()
    );
    let mut n = 0;
    n += run_mode("RR", false, false, &cfg, &ops, case, nf);
    n += run_mode("CC", true, true, &cfg, &ops, case, nf);
    n += run_mode("CR", true, false, &cfg, &ops, case, nf);
    n += run_mode("RC", false, true, &cfg, &ops, case, nf);
    n
}
