//! C18 part B -- translation validation between the Rust API and the C API of iceoryx2.
//!
//! Generated call sequences (publish-subscribe with custom payload type details of arbitrary
//! size/alignment, fixed and slice; event notify/try_wait) are executed once per MODE on the
//! real implementation and every operation prints one canonical observation line:
//!   RR  publisher side and subscriber side through the Rust API
//!   CC  both through the iox2_* C ABI (the `extern "C"` functions of iceoryx2-ffi-c, called here)
//!   CR  C publisher/notifier + Rust subscribers/listeners on ONE service
//!   RC  Rust publisher/notifier + C subscribers/listeners on ONE service
//!   TT/TC/CT (only when a Rust type with the generated size/alignment exists): the same with
//!       the TYPED Rust API (`publish_subscribe::<u64>()`, `::<[u8]>()`, ...) instead of the
//!       runtime type-detail API
//! The check compares the streams of all modes line by line; Rust errors are printed as
//! `E:<Enum>:<leaf>`, C errors as `E:<iox2_*_e>:<code>:<iox2_*_string(code)>` and are compared
//! through the table generated for part A.
//! After the teardown (drop order generated) every mode prints what is left behind: nodes with
//! this case's names still listed, and whether the service can be CREATED again (it cannot if any
//! handle leaked its object).
//!
//! Output: `C <n> <kind> <config>` per case, `M <mode>`, `O <k> <op> = <obs>`, `F <mode> ...`.
#![allow(non_camel_case_types, clippy::missing_safety_doc)]
extern crate iceoryx2_bb_loggers;

mod cside;
mod ev;
mod ps;
mod rr;
mod rside;

pub struct Rng(pub u64);
impl Rng {
    pub fn next(&mut self) -> u64 {
        self.0 = self.0.wrapping_add(0x9E3779B97F4A7C15);
        let mut z = self.0;
        z = (z ^ (z >> 30)).wrapping_mul(0xBF58476D1CE4E5B9);
        z = (z ^ (z >> 27)).wrapping_mul(0x94D049BB133111EB);
        z ^ (z >> 31)
    }
    pub fn below(&mut self, n: usize) -> usize {
        if n == 0 {
            0
        } else {
            (self.next() % n as u64) as usize
        }
    }
    pub fn chance(&mut self, pct: usize) -> bool {
        self.below(100) < pct
    }
}

pub fn pattern(seed: u64, i: usize) -> u8 {
    (seed.wrapping_mul(31).wrapping_add((i as u64).wrapping_mul(7)).wrapping_add(1) & 0xff) as u8
}

pub fn hex(b: &[u8]) -> String {
    let mut s = String::with_capacity(b.len() * 2);
    for x in b {
        s.push_str(&format!("{:02x}", x));
    }
    s
}

/// `E:<Enum>:<Debug of the value>` -- the Debug text of the (nested) enum is the leaf name of the
/// generated table
pub fn rust_err<E: core::fmt::Debug>(e: E) -> String {
    let full = core::any::type_name::<E>();
    let name = full.rsplit("::").next().unwrap_or(full);
    format!("E:{}:{:?}", name, e).replace(' ', "")
}

fn main() {
    let args: Vec<String> = std::env::args().collect();
    if args.len() < 7 {
        eprintln!("usage: c18 pubsub|event|reqres <seed> <shard> <nshards> <ncases> <maxops>");
        std::process::exit(2);
    }
    iceoryx2_log::set_log_level(iceoryx2_log::LogLevel::Fatal);
    let kind = args[1].as_str();
    let seed: u64 = args[2].parse().unwrap();
    let shard: usize = args[3].parse().unwrap();
    let nshards: usize = args[4].parse().unwrap();
    let ncases: usize = args[5].parse().unwrap();
    let maxops: usize = args[6].parse().unwrap();
    let mut total_ops = 0usize;
    let mut cases = 0usize;
    for case in 0..ncases {
        if case % nshards != shard {
            continue;
        }
        let mut rng = Rng(seed ^ ((case as u64 + 1).wrapping_mul(0xA24BAED4963EE407)) ^ if kind == "event" { 0x5555 } else if kind == "reqres" { 0xAAAA } else { 0 });
        cases += 1;
        match kind {
            "pubsub" => total_ops += ps::run_case(case, &mut rng, maxops),
            "event" => total_ops += ev::run_case(case, &mut rng, maxops),
            "reqres" => total_ops += rr::run_case(case, &mut rng, maxops),
            _ => {
                eprintln!("unknown kind");
                std::process::exit(2);
            }
        }
    }
    println!("DONE cases={} ops={}", cases, total_ops);
}
