//! Rust-API participants.
//!   custom: the runtime type-detail API (`[CustomPayloadMarker]` + `__internal_set_payload_type_details`,
//!           `loan_custom_payload`) -- the only Rust API that takes an arbitrary size/alignment at run time
//!   typed : the ordinary typed API `publish_subscribe::<T>()` / `::<[T]>()` for the layouts in TYPED
use crate::ps::{PsCfg, PsWorld, PubSide, SubSide};
use crate::{hex, pattern, rust_err};
use core::mem::MaybeUninit;
use iceoryx2::port::publisher::Publisher;
use iceoryx2::port::subscriber::Subscriber;
use iceoryx2::prelude::*;
use iceoryx2::prelude::PortFactory as _;
use iceoryx2::node::NodeView as _;
use iceoryx2::port::update_connections::UpdateConnections as _;
use iceoryx2::sample::Sample;
use iceoryx2::sample_mut_uninit::SampleMutUninit;
use iceoryx2::service::marker::{CustomHeaderMarker, CustomPayloadMarker};
use iceoryx2::service::port_factory::publish_subscribe::PortFactory;
use iceoryx2::service::static_config::message_type_details::{TypeDetail, TypeName, TypeVariant};

pub type Ipc = ipc_threadsafe::Service;
pub type Loc = local_threadsafe::Service;

pub struct TypedInfo {
    pub name: &'static str,
    pub size: usize,
    pub align: usize,
    pub dynamic: bool,
}

pub const TYPED: [TypedInfo; 7] = [
    TypedInfo { name: "u8", size: 1, align: 1, dynamic: false },
    TypedInfo { name: "u32", size: 4, align: 4, dynamic: false },
    TypedInfo { name: "u64", size: 8, align: 8, dynamic: false },
    TypedInfo { name: "u128", size: 16, align: 16, dynamic: false },
    TypedInfo { name: "u8", size: 1, align: 1, dynamic: true },
    TypedInfo { name: "u32", size: 4, align: 4, dynamic: true },
    TypedInfo { name: "u64", size: 8, align: 8, dynamic: true },
];

pub fn type_detail(variant: TypeVariant, name: &str, size: usize, align: usize) -> TypeDetail {
    let mut td = TypeDetail::new::<()>(variant);
    iceoryx2::testing::type_detail_set_name(&mut td, TypeName::try_from(name).expect("type name"));
    iceoryx2::testing::type_detail_set_size(&mut td, size);
    iceoryx2::testing::type_detail_set_alignment(&mut td, align);
    td
}

fn mk_node<S: Service>(node: &str) -> Result<Node<S>, String> {
    let name = NodeName::new(node).map_err(rust_err)?;
    NodeBuilder::new().name(&name).create::<S>().map_err(rust_err)
}


/// open/create the service once more with a deviating requirement; `$b` is a fresh builder with the
/// CORRECT payload type, `$other` one with a DIFFERENT payload type, `$nx` one for a service name
/// that does not exist
macro_rules! probe_impl {
    ($cfg:expr, $kind:expr, $b:expr, $other:expr, $nx:expr) => {{
        let cfg: &PsCfg = $cfg;
        match $kind {
            0 => $other.open().map(|f| drop(f)).map_err(rust_err),
            1 => $b.subscriber_max_buffer_size(cfg.buf + 1).open().map(|f| drop(f)).map_err(rust_err),
            2 => $b.max_publishers(3).open().map(|f| drop(f)).map_err(rust_err),
            3 => $b.enable_safe_overflow(!cfg.overflow).open().map(|f| drop(f)).map_err(rust_err),
            4 => $nx.open().map(|f| drop(f)).map_err(rust_err),
            5 => $b.create().map(|f| drop(f)).map_err(rust_err),
            6 => $b.max_subscribers(5).open().map(|f| drop(f)).map_err(rust_err),
            7 => $b.subscriber_max_borrowed_samples(cfg.borrow + 1).open().map(|f| drop(f)).map_err(rust_err),
            _ => $b.open().map(|f| drop(f)).map_err(rust_err),
        }
    }};
}

fn show(r: Result<(), String>) -> String {
    match r {
        Ok(()) => "ok".into(),
        Err(e) => e,
    }
}

// ------------------------------------------------------------------------------------------
// custom (runtime type detail)
// ------------------------------------------------------------------------------------------
type CP = [CustomPayloadMarker];
type CH = CustomHeaderMarker;

struct CustomWorld<S: Service> {
    node: Option<Node<S>>,
    factory: Option<PortFactory<S, CP, CH>>,
    size: usize,
    hdr: usize,
}

fn custom_world_s<S: Service + 'static>(cfg: &PsCfg, svc: &str, node: &str) -> Result<Box<dyn PsWorld>, String> {
    let node = mk_node::<S>(node)?;
    let td = type_detail(if cfg.dynamic { TypeVariant::Dynamic } else { TypeVariant::FixedSize }, &cfg.type_name, cfg.size, cfg.align);
    let hd = type_detail(TypeVariant::FixedSize, &cfg.hdr_name, cfg.hdr_size, cfg.hdr_align);
    let name = ServiceName::new(svc).map_err(rust_err)?;
    let b = node.service_builder(&name).publish_subscribe::<CP>().user_header::<CH>();
    let b = unsafe { b.__internal_set_payload_type_details(&td).__internal_set_user_header_type_details(&hd) };
    let factory = b
        .subscriber_max_buffer_size(cfg.buf)
        .subscriber_max_borrowed_samples(cfg.borrow)
        .enable_safe_overflow(cfg.overflow)
        .history_size(cfg.history)
        .max_publishers(2)
        .max_subscribers(3)
        .max_nodes(8)
        .open_or_create()
        .map_err(rust_err)?;
    Ok(Box::new(CustomWorld::<S> { node: Some(node), factory: Some(factory), size: cfg.size, hdr: cfg.hdr_size }))
}

pub fn custom_world(cfg: &PsCfg, svc: &str, node: &str) -> Result<Box<dyn PsWorld>, String> {
    if cfg.local {
        custom_world_s::<Loc>(cfg, svc, node)
    } else {
        custom_world_s::<Ipc>(cfg, svc, node)
    }
}

impl<S: Service + 'static> PsWorld for CustomWorld<S> {
    fn make_pub(&self, cfg: &PsCfg) -> Result<Box<dyn PubSide>, String> {
        let f = self.factory.as_ref().unwrap();
        let mut b = f.publisher_builder().max_loaned_samples(cfg.loans).backpressure_strategy(BackpressureStrategy::DiscardData);
        if cfg.dynamic {
            b = b.initial_max_slice_len(cfg.slice_len);
        }
        let p = b.create().map_err(rust_err)?;
        Ok(Box::new(CustomPub::<S> { port: Some(p), loans: Vec::new(), size: self.size, hdr: self.hdr }))
    }
    fn make_sub(&self, cfg: &PsCfg, history_request: Option<usize>) -> Result<Box<dyn SubSide>, String> {
        let f = self.factory.as_ref().unwrap();
        let mut sb = f.subscriber_builder().buffer_size(cfg.buf);
        if let Some(h) = history_request {
            sb = sb.history_request(h);
        }
        let s = sb.create().map_err(rust_err)?;
        Ok(Box::new(CustomSub::<S> { port: Some(s), held: Vec::new(), size: self.size, hdr: self.hdr }))
    }
    fn counts(&self) -> (usize, usize) {
        let f = self.factory.as_ref().unwrap();
        (f.dynamic_config().number_of_publishers(), f.dynamic_config().number_of_subscribers())
    }
    fn bad_sub(&self, cfg: &PsCfg) -> String {
        show(self.factory.as_ref().unwrap().subscriber_builder().buffer_size(cfg.buf + 1).create().map(|p| drop(p)).map_err(rust_err))
    }
    fn probe(&self, cfg: &PsCfg, svc: &str, kind: usize) -> String {
        let node = self.node.as_ref().unwrap();
        let name = ServiceName::new(svc).unwrap();
        let nx = ServiceName::new(&format!("{}_nx", svc)).unwrap();
        let variant = if cfg.dynamic { TypeVariant::Dynamic } else { TypeVariant::FixedSize };
        let td = type_detail(variant, &cfg.type_name, cfg.size, cfg.align);
        let td2 = type_detail(variant, "verif_other", cfg.size * 2, cfg.align);
        let hd = type_detail(TypeVariant::FixedSize, &cfg.hdr_name, cfg.hdr_size, cfg.hdr_align);
        let mk = |n: &ServiceName, t: &TypeDetail| unsafe {
            node.service_builder(n).publish_subscribe::<CP>().user_header::<CH>().__internal_set_payload_type_details(t).__internal_set_user_header_type_details(&hd)
        };
        show(probe_impl!(cfg, kind, mk(&name, &td), mk(&name, &td2), mk(&nx, &td)))
    }
    fn teardown(mut self: Box<Self>, node_first: bool) {
        if node_first {
            self.node.take();
            self.factory.take();
        } else {
            self.factory.take();
            self.node.take();
        }
    }
}

struct CustomPub<S: Service> {
    port: Option<Publisher<S, CP, CH>>,
    loans: Vec<SampleMutUninit<S, [MaybeUninit<CustomPayloadMarker>], CH>>,
    size: usize,
    hdr: usize,
}

impl<S: Service> PubSide for CustomPub<S> {
    fn alive(&self) -> bool {
        self.port.is_some()
    }
    fn loan(&mut self, n: usize) -> Result<(), String> {
        let mut s = unsafe { self.port.as_ref().unwrap().loan_custom_payload(n) }.map_err(rust_err)?;
        // loaned memory is uninitialised; every participant zero-fills so that a send without a
        // write is a defined observation
        let nb = s.header().number_of_elements() as usize * self.size;
        let p = s.payload_mut().as_mut_ptr() as *mut u8;
        for i in 0..nb {
            unsafe { p.add(i).write(0) };
        }
        let h = s.user_header_mut() as *mut CH as *mut u8;
        for i in 0..self.hdr {
            unsafe { h.add(i).write(0) };
        }
        self.loans.push(s);
        Ok(())
    }
    fn nloans(&self) -> usize {
        self.loans.len()
    }
    fn write(&mut self, slot: usize, seed: u64) -> usize {
        let s = &mut self.loans[slot];
        let n = s.header().number_of_elements() as usize * self.size;
        let p = s.payload_mut().as_mut_ptr() as *mut u8;
        for i in 0..n {
            unsafe { p.add(i).write(pattern(seed, i)) };
        }
        let h = s.user_header_mut() as *mut CH as *mut u8;
        for i in 0..self.hdr {
            unsafe { h.add(i).write(pattern(seed + 77, i)) };
        }
        n
    }
    fn send(&mut self, slot: usize) -> Result<usize, String> {
        let s = self.loans.remove(slot);
        unsafe { s.assume_init() }.send().map_err(rust_err)
    }
    fn send_copy(&mut self, n: usize, seed: u64) -> Result<usize, String> {
        // the runtime type-detail API has no send_copy: loan + copy + send, a failing loan reported
        // the way Publisher::send_copy reports it (SendError::LoanError)
        let mut s = unsafe { self.port.as_ref().unwrap().loan_custom_payload(n) }.map_err(|e| rust_err(iceoryx2::port::SendError::LoanError(e)))?;
        let nb = s.header().number_of_elements() as usize * self.size;
        let p = s.payload_mut().as_mut_ptr() as *mut u8;
        for i in 0..nb {
            unsafe { p.add(i).write(pattern(seed, i)) };
        }
        // the user header is left as it is: iox2_publisher_send_copy cannot set it either
        unsafe { s.assume_init() }.send().map_err(rust_err)
    }
    fn drop_loan(&mut self, slot: usize) {
        drop(self.loans.remove(slot));
    }
    fn update(&mut self) -> Result<(), String> {
        self.port.as_ref().unwrap().update_connections().map_err(rust_err)
    }
    fn drop_port(&mut self) {
        self.port.take();
    }
}

struct CustomSub<S: Service> {
    port: Option<Subscriber<S, CP, CH>>,
    held: Vec<Sample<S, CP, CH>>,
    size: usize,
    hdr: usize,
}

impl<S: Service> SubSide for CustomSub<S> {
    fn alive(&self) -> bool {
        self.port.is_some()
    }
    fn recv(&mut self) -> Result<Option<String>, String> {
        match self.port.as_ref().unwrap().receive().map_err(rust_err)? {
            None => Ok(None),
            Some(s) => {
                let ne = s.header().number_of_elements() as usize;
                let n = ne * self.size;
                let p = s.payload().as_ptr() as *const u8;
                let bytes = unsafe { core::slice::from_raw_parts(p, n) };
                let hb = unsafe { core::slice::from_raw_parts(s.user_header() as *const CH as *const u8, self.hdr) };
                let d = format!("n={} len={} {} hdr={}", ne, n, hex(bytes), hex(hb));
                self.held.push(s);
                Ok(Some(d))
            }
        }
    }
    fn nheld(&self) -> usize {
        self.held.len()
    }
    fn release(&mut self, slot: usize) {
        drop(self.held.remove(slot));
    }
    fn has(&mut self) -> Result<bool, String> {
        self.port.as_ref().unwrap().has_samples().map_err(rust_err)
    }
    fn drop_port(&mut self) {
        self.port.take();
    }
}

// ------------------------------------------------------------------------------------------
// typed
// ------------------------------------------------------------------------------------------
/// a payload type no generated service uses
type Other = i16;

pub trait Pod: Copy + core::fmt::Debug + ZeroCopySend + Default + 'static {}
impl Pod for u8 {}
impl Pod for u32 {}
impl Pod for u64 {}
impl Pod for u128 {}

struct FixedWorld<S: Service, T: Pod> {
    node: Option<Node<S>>,
    factory: Option<PortFactory<S, T, ()>>,
}
struct SliceWorld<S: Service, T: Pod> {
    node: Option<Node<S>>,
    factory: Option<PortFactory<S, [T], ()>>,
}

fn fixed_world<S: Service + 'static, T: Pod>(cfg: &PsCfg, svc: &str, node: &str) -> Result<Box<dyn PsWorld>, String> {
    let node = mk_node::<S>(node)?;
    let name = ServiceName::new(svc).map_err(rust_err)?;
    let factory = node
        .service_builder(&name)
        .publish_subscribe::<T>()
        .subscriber_max_buffer_size(cfg.buf)
        .subscriber_max_borrowed_samples(cfg.borrow)
        .enable_safe_overflow(cfg.overflow)
        .history_size(cfg.history)
        .max_publishers(2)
        .max_subscribers(3)
        .max_nodes(8)
        .open_or_create()
        .map_err(rust_err)?;
    Ok(Box::new(FixedWorld::<S, T> { node: Some(node), factory: Some(factory) }))
}

fn slice_world<S: Service + 'static, T: Pod>(cfg: &PsCfg, svc: &str, node: &str) -> Result<Box<dyn PsWorld>, String> {
    let node = mk_node::<S>(node)?;
    let name = ServiceName::new(svc).map_err(rust_err)?;
    let factory = node
        .service_builder(&name)
        .publish_subscribe::<[T]>()
        .subscriber_max_buffer_size(cfg.buf)
        .subscriber_max_borrowed_samples(cfg.borrow)
        .enable_safe_overflow(cfg.overflow)
        .history_size(cfg.history)
        .max_publishers(2)
        .max_subscribers(3)
        .max_nodes(8)
        .open_or_create()
        .map_err(rust_err)?;
    Ok(Box::new(SliceWorld::<S, T> { node: Some(node), factory: Some(factory) }))
}

pub fn typed_world(cfg: &PsCfg, svc: &str, node: &str) -> Result<Box<dyn PsWorld>, String> {
    macro_rules! pick {
        ($f:ident, $t:ty) => {
            if cfg.local {
                $f::<Loc, $t>(cfg, svc, node)
            } else {
                $f::<Ipc, $t>(cfg, svc, node)
            }
        };
    }
    match cfg.typed.expect("typed layout") {
        0 => pick!(fixed_world, u8),
        1 => pick!(fixed_world, u32),
        2 => pick!(fixed_world, u64),
        3 => pick!(fixed_world, u128),
        4 => pick!(slice_world, u8),
        5 => pick!(slice_world, u32),
        6 => pick!(slice_world, u64),
        _ => unreachable!(),
    }
}

impl<S: Service + 'static, T: Pod> PsWorld for FixedWorld<S, T> {
    fn make_pub(&self, cfg: &PsCfg) -> Result<Box<dyn PubSide>, String> {
        let f = self.factory.as_ref().unwrap();
        let p = f.publisher_builder().max_loaned_samples(cfg.loans).backpressure_strategy(BackpressureStrategy::DiscardData).create().map_err(rust_err)?;
        Ok(Box::new(FixedPub::<S, T> { port: Some(p), loans: Vec::new() }))
    }
    fn make_sub(&self, cfg: &PsCfg, history_request: Option<usize>) -> Result<Box<dyn SubSide>, String> {
        let f = self.factory.as_ref().unwrap();
        let mut sb = f.subscriber_builder().buffer_size(cfg.buf);
        if let Some(h) = history_request {
            sb = sb.history_request(h);
        }
        let s = sb.create().map_err(rust_err)?;
        Ok(Box::new(FixedSub::<S, T> { port: Some(s), held: Vec::new() }))
    }
    fn counts(&self) -> (usize, usize) {
        let f = self.factory.as_ref().unwrap();
        (f.dynamic_config().number_of_publishers(), f.dynamic_config().number_of_subscribers())
    }
    fn bad_sub(&self, cfg: &PsCfg) -> String {
        show(self.factory.as_ref().unwrap().subscriber_builder().buffer_size(cfg.buf + 1).create().map(|p| drop(p)).map_err(rust_err))
    }
    fn probe(&self, cfg: &PsCfg, svc: &str, kind: usize) -> String {
        let node = self.node.as_ref().unwrap();
        let name = ServiceName::new(svc).unwrap();
        let nx = ServiceName::new(&format!("{}_nx", svc)).unwrap();
        show(probe_impl!(cfg, kind, node.service_builder(&name).publish_subscribe::<T>(), node.service_builder(&name).publish_subscribe::<Other>(), node.service_builder(&nx).publish_subscribe::<T>()))
    }
    fn teardown(mut self: Box<Self>, node_first: bool) {
        if node_first {
            self.node.take();
            self.factory.take();
        } else {
            self.factory.take();
            self.node.take();
        }
    }
}

impl<S: Service + 'static, T: Pod> PsWorld for SliceWorld<S, T> {
    fn make_pub(&self, cfg: &PsCfg) -> Result<Box<dyn PubSide>, String> {
        let f = self.factory.as_ref().unwrap();
        let p = f
            .publisher_builder()
            .max_loaned_samples(cfg.loans)
            .backpressure_strategy(BackpressureStrategy::DiscardData)
            .initial_max_slice_len(cfg.slice_len)
            .create()
            .map_err(rust_err)?;
        Ok(Box::new(SlicePub::<S, T> { port: Some(p), loans: Vec::new() }))
    }
    fn make_sub(&self, cfg: &PsCfg, history_request: Option<usize>) -> Result<Box<dyn SubSide>, String> {
        let f = self.factory.as_ref().unwrap();
        let mut sb = f.subscriber_builder().buffer_size(cfg.buf);
        if let Some(h) = history_request {
            sb = sb.history_request(h);
        }
        let s = sb.create().map_err(rust_err)?;
        Ok(Box::new(SliceSub::<S, T> { port: Some(s), held: Vec::new() }))
    }
    fn counts(&self) -> (usize, usize) {
        let f = self.factory.as_ref().unwrap();
        (f.dynamic_config().number_of_publishers(), f.dynamic_config().number_of_subscribers())
    }
    fn bad_sub(&self, cfg: &PsCfg) -> String {
        show(self.factory.as_ref().unwrap().subscriber_builder().buffer_size(cfg.buf + 1).create().map(|p| drop(p)).map_err(rust_err))
    }
    fn probe(&self, cfg: &PsCfg, svc: &str, kind: usize) -> String {
        let node = self.node.as_ref().unwrap();
        let name = ServiceName::new(svc).unwrap();
        let nx = ServiceName::new(&format!("{}_nx", svc)).unwrap();
        show(probe_impl!(cfg, kind, node.service_builder(&name).publish_subscribe::<[T]>(), node.service_builder(&name).publish_subscribe::<[Other]>(), node.service_builder(&nx).publish_subscribe::<[T]>()))
    }
    fn teardown(mut self: Box<Self>, node_first: bool) {
        if node_first {
            self.node.take();
            self.factory.take();
        } else {
            self.factory.take();
            self.node.take();
        }
    }
}

struct FixedPub<S: Service, T: Pod> {
    port: Option<Publisher<S, T, ()>>,
    loans: Vec<SampleMutUninit<S, MaybeUninit<T>, ()>>,
}

impl<S: Service, T: Pod> PubSide for FixedPub<S, T> {
    fn alive(&self) -> bool {
        self.port.is_some()
    }
    fn loan(&mut self, _n: usize) -> Result<(), String> {
        let mut s = self.port.as_ref().unwrap().loan_uninit().map_err(rust_err)?;
        // the typed API hands out uninitialised memory; the custom/C path does too, but every
        // program writes before it sends only if the generator says so: make unwritten bytes defined
        s.payload_mut().write(T::default());
        self.loans.push(s);
        Ok(())
    }
    fn nloans(&self) -> usize {
        self.loans.len()
    }
    fn write(&mut self, slot: usize, seed: u64) -> usize {
        let n = core::mem::size_of::<T>();
        let p = self.loans[slot].payload_mut().as_mut_ptr() as *mut u8;
        for i in 0..n {
            unsafe { p.add(i).write(pattern(seed, i)) };
        }
        n
    }
    fn send(&mut self, slot: usize) -> Result<usize, String> {
        let s = self.loans.remove(slot);
        unsafe { s.assume_init() }.send().map_err(rust_err)
    }
    fn send_copy(&mut self, _n: usize, seed: u64) -> Result<usize, String> {
        let mut v = T::default();
        let p = &mut v as *mut T as *mut u8;
        for i in 0..core::mem::size_of::<T>() {
            unsafe { p.add(i).write(pattern(seed, i)) };
        }
        self.port.as_ref().unwrap().send_copy(v).map_err(rust_err)
    }
    fn drop_loan(&mut self, slot: usize) {
        drop(self.loans.remove(slot));
    }
    fn update(&mut self) -> Result<(), String> {
        self.port.as_ref().unwrap().update_connections().map_err(rust_err)
    }
    fn drop_port(&mut self) {
        self.port.take();
    }
}

struct FixedSub<S: Service, T: Pod> {
    port: Option<Subscriber<S, T, ()>>,
    held: Vec<Sample<S, T, ()>>,
}

impl<S: Service, T: Pod> SubSide for FixedSub<S, T> {
    fn alive(&self) -> bool {
        self.port.is_some()
    }
    fn recv(&mut self) -> Result<Option<String>, String> {
        match self.port.as_ref().unwrap().receive().map_err(rust_err)? {
            None => Ok(None),
            Some(s) => {
                let n = core::mem::size_of::<T>();
                let p = s.payload() as *const T as *const u8;
                let bytes = unsafe { core::slice::from_raw_parts(p, n) };
                let d = format!("n={} len={} {} hdr=", s.header().number_of_elements(), n, hex(bytes));
                self.held.push(s);
                Ok(Some(d))
            }
        }
    }
    fn nheld(&self) -> usize {
        self.held.len()
    }
    fn release(&mut self, slot: usize) {
        drop(self.held.remove(slot));
    }
    fn has(&mut self) -> Result<bool, String> {
        self.port.as_ref().unwrap().has_samples().map_err(rust_err)
    }
    fn drop_port(&mut self) {
        self.port.take();
    }
}

struct SlicePub<S: Service, T: Pod> {
    port: Option<Publisher<S, [T], ()>>,
    loans: Vec<SampleMutUninit<S, [MaybeUninit<T>], ()>>,
}

impl<S: Service, T: Pod> PubSide for SlicePub<S, T> {
    fn alive(&self) -> bool {
        self.port.is_some()
    }
    fn loan(&mut self, n: usize) -> Result<(), String> {
        let mut s = self.port.as_ref().unwrap().loan_slice_uninit(n).map_err(rust_err)?;
        for e in s.payload_mut().iter_mut() {
            e.write(T::default());
        }
        self.loans.push(s);
        Ok(())
    }
    fn nloans(&self) -> usize {
        self.loans.len()
    }
    fn write(&mut self, slot: usize, seed: u64) -> usize {
        let pl = self.loans[slot].payload_mut();
        let n = pl.len() * core::mem::size_of::<T>();
        let p = pl.as_mut_ptr() as *mut u8;
        for i in 0..n {
            unsafe { p.add(i).write(pattern(seed, i)) };
        }
        n
    }
    fn send(&mut self, slot: usize) -> Result<usize, String> {
        let s = self.loans.remove(slot);
        unsafe { s.assume_init() }.send().map_err(rust_err)
    }
    fn send_copy(&mut self, n: usize, seed: u64) -> Result<usize, String> {
        // no send_slice_copy in the typed API: loan_slice_uninit + write_from_fn + send, a failing
        // loan reported the way Publisher::send_copy reports it (SendError::LoanError)
        let s = self.port.as_ref().unwrap().loan_slice_uninit(n).map_err(|e| rust_err(iceoryx2::port::SendError::LoanError(e)))?;
        let sz = core::mem::size_of::<T>();
        let s = s.write_from_fn(|k| {
            let mut v = T::default();
            let p = &mut v as *mut T as *mut u8;
            for i in 0..sz {
                unsafe { p.add(i).write(pattern(seed, k * sz + i)) };
            }
            v
        });
        s.send().map_err(rust_err)
    }
    fn drop_loan(&mut self, slot: usize) {
        drop(self.loans.remove(slot));
    }
    fn update(&mut self) -> Result<(), String> {
        self.port.as_ref().unwrap().update_connections().map_err(rust_err)
    }
    fn drop_port(&mut self) {
        self.port.take();
    }
}

struct SliceSub<S: Service, T: Pod> {
    port: Option<Subscriber<S, [T], ()>>,
    held: Vec<Sample<S, [T], ()>>,
}

impl<S: Service, T: Pod> SubSide for SliceSub<S, T> {
    fn alive(&self) -> bool {
        self.port.is_some()
    }
    fn recv(&mut self) -> Result<Option<String>, String> {
        match self.port.as_ref().unwrap().receive().map_err(rust_err)? {
            None => Ok(None),
            Some(s) => {
                let pl = s.payload();
                let n = pl.len() * core::mem::size_of::<T>();
                let bytes = unsafe { core::slice::from_raw_parts(pl.as_ptr() as *const u8, n) };
                let d = format!("n={} len={} {} hdr=", s.header().number_of_elements(), n, hex(bytes));
                self.held.push(s);
                Ok(Some(d))
            }
        }
    }
    fn nheld(&self) -> usize {
        self.held.len()
    }
    fn release(&mut self, slot: usize) {
        drop(self.held.remove(slot));
    }
    fn has(&mut self) -> Result<bool, String> {
        self.port.as_ref().unwrap().has_samples().map_err(rust_err)
    }
    fn drop_port(&mut self) {
        self.port.take();
    }
}

// ------------------------------------------------------------------------------------------
// what is left after a mode finished
// ------------------------------------------------------------------------------------------
fn leftovers_s<S: Service>(cfg: &PsCfg, svc: &str, node_names: &[&str]) -> (usize, String) {
    let mut left = 0usize;
    let r = Node::<S>::list(Config::global_config(), |st| {
        let name = match &st {
            NodeState::Alive(v) => v.details().as_ref().map(|d| d.name().to_string()),
            NodeState::Dead(v) => v.details().as_ref().map(|d| d.name().to_string()),
            NodeState::Inaccessible(_) | NodeState::Undefined(_) => None,
        };
        if let Some(n) = name {
            if node_names.iter().any(|x| *x == n) {
                left += 1;
            }
        }
        CallbackProgression::Continue
    });
    if let Err(e) = r {
        return (left, rust_err(e));
    }
    // the service must be creatable again (create, not open): only possible if nothing holds it
    let rec = (|| -> Result<(), String> {
        let node = mk_node::<S>(&format!("{}_x", svc))?;
        let td = type_detail(if cfg.dynamic { TypeVariant::Dynamic } else { TypeVariant::FixedSize }, &cfg.type_name, cfg.size, cfg.align);
        let hd = type_detail(TypeVariant::FixedSize, &cfg.hdr_name, cfg.hdr_size, cfg.hdr_align);
        let name = ServiceName::new(svc).map_err(rust_err)?;
        let b = node.service_builder(&name).publish_subscribe::<CP>().user_header::<CH>();
        let b = unsafe { b.__internal_set_payload_type_details(&td).__internal_set_user_header_type_details(&hd) };
        let f = b.create().map_err(rust_err)?;
        drop(f);
        Ok(())
    })();
    (left, match rec {
        Ok(()) => "ok".into(),
        Err(e) => e,
    })
}

pub fn leftovers(cfg: &PsCfg, svc: &str, node_names: &[&str]) -> (usize, String) {
    if cfg.local {
        leftovers_s::<Loc>(cfg, svc, node_names)
    } else {
        leftovers_s::<Ipc>(cfg, svc, node_names)
    }
}

pub fn node_names_left<S: Service>(node_names: &[&str]) -> usize {
    let mut left = 0usize;
    let _ = Node::<S>::list(Config::global_config(), |st| {
        let name = match &st {
            NodeState::Alive(v) => v.details().as_ref().map(|d| d.name().to_string()),
            NodeState::Dead(v) => v.details().as_ref().map(|d| d.name().to_string()),
            NodeState::Inaccessible(_) | NodeState::Undefined(_) => None,
        };
        if let Some(n) = name {
            if node_names.iter().any(|x| *x == n) {
                left += 1;
            }
        }
        CallbackProgression::Continue
    });
    left
}
