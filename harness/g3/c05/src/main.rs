//! G3 port-level stage of C05: histories over listener / notifier ports of one event service
//! (iceoryx2::port::{notifier,listener}, local and ipc) executed on the REAL API; every return
//! value and every delivery is printed and compared with the reference semantics of
//! coq/model/EventPort.v ("notify returns the number of listeners attached at that time and each of
//! them obtains the id from its next drain").
//! usage: c05 <local|ipc> exh <len> <shard> <nshards>
//!        c05 <local|ipc> holes
//!        c05 <local|ipc> rnd <count> <shard> <nshards> <seed>
//!        c05 <local|ipc> hist "cn cl0 cl1 cl2 dl0 n1 w1 w2"
//! ops: cl<k> / dl<k> create / drop listener k, cn / dn create / drop the notifier, n<id>
//!      notify_with_custom_event_id, nd notify() (default id 3), w<k> try_wait on listener k (all ids)
extern crate iceoryx2_bb_loggers;
use iceoryx2::port::listener::Listener;
use iceoryx2::port::notifier::{Notifier, NotifierNotifyError};
use iceoryx2::prelude::*;
use std::io::Write;
use std::sync::atomic::{AtomicUsize, Ordering};

const MAXL: usize = 3;
const IDMAX: usize = 4;
static COUNTER: AtomicUsize = AtomicUsize::new(0);

fn run_history<S: Service>(svc: &str, node: &Node<S>, ops: &[String], out: &mut impl Write) {
    let name = ServiceName::new(&format!("verif_c05_port_{}_{}", std::process::id(), COUNTER.fetch_add(1, Ordering::Relaxed))).unwrap();
    let service = node.service_builder(&name).event().max_listeners(MAXL).max_notifiers(1).event_id_max_value(IDMAX).create().expect("service");
    let _ = writeln!(out, "C port {} {} {}", svc, MAXL, IDMAX);
    let mut listeners: Vec<Option<Listener<S>>> = (0..4).map(|_| None).collect();
    let mut notifier: Option<Notifier<S>> = None;
    for op in ops {
        let r = std::panic::catch_unwind(std::panic::AssertUnwindSafe(|| -> String {
            if op == "cn" {
                if notifier.is_some() { "skip".into() } else {
                    match service.notifier_builder().default_event_id(EventId::new(3)).create() { Ok(n) => { notifier = Some(n); "ok".into() } Err(_) => "err".into() } }
            } else if op == "dn" {
                if notifier.take().is_some() { "ok".into() } else { "skip".into() }
            } else if op == "nd" {
                match &notifier { None => "skip".into(), Some(n) => match n.notify() { Ok(c) => format!("c{}", c), Err(NotifierNotifyError::EventIdOutOfBounds) => "oob".into(), Err(_) => "e".into() } }
            } else if let Some(k) = op.strip_prefix("cl") {
                let k: usize = k.parse().unwrap();
                if listeners[k].is_some() { "skip".into() } else {
                    match service.listener_builder().create() { Ok(l) => { listeners[k] = Some(l); "ok".into() } Err(_) => "err".into() } }
            } else if let Some(k) = op.strip_prefix("dl") {
                let k: usize = k.parse().unwrap();
                if listeners[k].take().is_some() { "ok".into() } else { "skip".into() }
            } else if let Some(k) = op.strip_prefix('w') {
                let k: usize = k.parse().unwrap();
                match &listeners[k] {
                    None => "skip".into(),
                    Some(l) => {
                        let mut v: Vec<(usize, u64)> = vec![];
                        match l.try_wait(|e| v.push((e.id.as_value(), e.count))) {
                            Ok(_) => { if v.is_empty() { "-".into() } else { v.iter().map(|(i, c)| format!("{}:{}", i, c)).collect::<Vec<_>>().join(",") } }
                            Err(_) => "e".into(),
                        }
                    }
                }
            } else if let Some(i) = op.strip_prefix('n') {
                let i: usize = i.parse().unwrap();
                match &notifier { None => "skip".into(), Some(n) => match n.notify_with_custom_event_id(EventId::new(i)) {
                    Ok(c) => format!("c{}", c), Err(NotifierNotifyError::EventIdOutOfBounds) => "oob".into(), Err(_) => "e".into() } }
            } else { panic!("op {}", op) }
        }));
        let _ = writeln!(out, "O {} = {}", op, r.unwrap_or_else(|_| "P".into()));
    }
    drop(notifier); drop(listeners); drop(service);
}

struct Rng(u64);
impl Rng {
    fn next(&mut self) -> u64 { self.0 = self.0.wrapping_add(0x9E3779B97F4A7C15); let mut z = self.0; z = (z ^ (z >> 30)).wrapping_mul(0xBF58476D1CE4E5B9); z = (z ^ (z >> 27)).wrapping_mul(0x94D049BB133111EB); z ^ (z >> 31) }
    fn below(&mut self, n: u64) -> u64 { self.next() % n }
}

fn sv(s: &str) -> Vec<String> { s.split_whitespace().map(|x| x.to_string()).collect() }

fn go<S: Service>(svc: &str, a: &[String], out: &mut impl Write) {
    let node = NodeBuilder::new().create::<S>().expect("node");
    let prologue = "cn cl0 cl1 cl2";
    let epilogue = "n2 w0 w1 w2";
    match a[0].as_str() {
        "exh" => {
            let len: usize = a[1].parse().unwrap(); let shard: usize = a[2].parse().unwrap(); let nsh: usize = a[3].parse().unwrap();
            let alpha = ["dl0", "dl1", "dl2", "cl0", "cl1", "cl2", "n1", "w0", "w1", "w2"];
            let total = alpha.len().pow(len as u32);
            for n in 0..total {
                if n % nsh != shard { continue; }
                let mut ops = sv(prologue); let mut x = n;
                for _ in 0..len { ops.push(alpha[x % alpha.len()].to_string()); x /= alpha.len(); }
                ops.extend(sv(epilogue));
                run_history::<S>(svc, &node, &ops, out);
            }
        }
        "holes" => {
            // drop the lower-slot listener, keep the higher ones; re-fill the hole; drop the highest; holes at every position; notifier created before / after the hole
            for h in [
                "cn cl0 cl1 cl2 n1 w0 w1 w2 dl0 n2 w1 w2", "cn cl0 cl1 cl2 dl1 n2 w0 w2", "cn cl0 cl1 cl2 dl2 n2 w0 w1",
                "cn cl0 cl1 cl2 dl0 dl1 n2 w2", "cn cl0 cl1 cl2 dl0 n1 cl0 n2 w0 w1 w2", "cn cl0 cl1 cl2 dl1 n1 cl1 n2 w0 w1 w2",
                "cl0 cl1 cl2 dl0 cn n2 w1 w2", "cl0 cl1 cl2 dl1 cn nd w0 w2", "cn cl0 cl1 dl0 cl2 n1 w1 w2 cl0 n2 w0 w1 w2",
                "cn cl0 cl1 cl2 dl0 n1 n1 nd w1 w2 dl1 n4 w2 n5", "cn cl0 cl1 cl2 cl3 dl0 n1 dn cn n2 w1 w2", "cn cl0 cl1 cl2 dl2 dl0 n3 w1 dl1 n1 cl2 n1 w2",
            ] { run_history::<S>(svc, &node, &sv(h), out); }
        }
        "rnd" => {
            let count: u64 = a[1].parse().unwrap(); let shard: u64 = a[2].parse().unwrap(); let nsh: u64 = a[3].parse().unwrap(); let seed: u64 = a[4].parse().unwrap();
            let alpha = ["dl0", "dl1", "dl2", "cl0", "cl1", "cl2", "cl3", "dl3", "n1", "n2", "n0", "n4", "n5", "nd", "w0", "w1", "w2", "w3", "cn", "dn"];
            for n in 0..count {
                if n % nsh != shard { continue; }
                let mut rng = Rng(seed ^ n.wrapping_mul(0x2545F4914F6CDD1D));
                let len = 6 + rng.below(10) as usize;
                let mut ops = sv(if rng.below(2) == 0 { prologue } else { "cl0 cn cl1" });
                for _ in 0..len { ops.push(alpha[rng.below(alpha.len() as u64) as usize].to_string()); }
                ops.extend(sv(epilogue));
                run_history::<S>(svc, &node, &ops, out);
            }
        }
        "hist" => run_history::<S>(svc, &node, &sv(&a[1]), out),
        _ => panic!("mode"),
    }
}

fn main() {
    if std::env::var("VERIF_PANIC_VERBOSE").is_err() { std::panic::set_hook(Box::new(|_| {})); }
    set_log_level(LogLevel::Fatal);
    let a: Vec<String> = std::env::args().collect();
    let stdout = std::io::stdout();
    let mut out = std::io::BufWriter::with_capacity(1 << 20, stdout.lock());
    match a[1].as_str() {
        "local" => go::<local::Service>("local", &a[2..], &mut out),
        "ipc" => go::<ipc::Service>("ipc", &a[2..], &mut out),
        _ => panic!("service"),
    }
    let _ = out.flush();
}
