//! G3 harness for C17: builds object graphs of the REAL iceoryx2 API (node(s), service handle(s),
//! two ports, objects in flight) and drops the objects in EVERY order (or a seeded sample of
//! orders); after each drop it lists the resources of the isolated domain and runs a smoke
//! operation on every survivor; at the end the domain must contain only what persists per domain
//! and the same names must be usable again with different settings.
//!
//! usage: c17 exh  <variant> <pattern> <nnodes> <shard> <nshards>
//!        c17 rnd  <variant> <pattern> <nnodes> <shard> <nshards> <seed> <count>
//!        c17 perm <variant> <pattern> <nnodes> <s0,s1,...>           (one drop order, slot numbers)
//!   variant = ipc | local | ipc_threadsafe | local_threadsafe
//!   pattern = pubsub | event | reqres | blackboard
//!
//! slots (drop order refers to these):
//!   pubsub      node.. svc.. publisher subscriber sample_mut sample
//!   event       node.. svc.. notifier listener
//!   reqres      node.. svc.. client server pending_response active_request [response: one node only]
//!   blackboard  node.. svc.. writer reader entry_handle_mut entry_handle
//!   port A (publisher/notifier/client/writer) lives on node 0's service handle, port B on the
//!   last node's.  Objects with a lifetime parameter tied to another object cannot be held in
//!   independent slots and are therefore not part of any order (see `excluded` in the C header).
//!
//! output (read by ocaml/c17/driver):
//!   C <variant> <pattern> nodes=<n> slots=<k> fs=<0|1> order=<s0,s1,..> names=<slot names>
//!   S <counts>                                   resources after construction
//!   O drop <slot> = <ok|P> ; <counts> ; <slot>:<smoke result> ...
//!   O end = left=<leftovers|-> nodes=<n> svcs=<n> recreate=<ok|err..> left2=<..>
//! Every permutation runs in its own root /dev/shm/verif-c17-<pid>-<n> with its own prefix.
extern crate iceoryx2_bb_loggers;

use std::io::Write;
use std::panic::{catch_unwind, AssertUnwindSafe};

use iceoryx2::active_request::ActiveRequest;
use iceoryx2::pending_response::PendingResponse;
use iceoryx2::port::client::Client;
use iceoryx2::port::listener::Listener;
use iceoryx2::port::notifier::Notifier;
use iceoryx2::port::publisher::Publisher;
use iceoryx2::port::reader::{EntryHandle, Reader};
use iceoryx2::port::server::Server;
use iceoryx2::port::subscriber::Subscriber;
use iceoryx2::port::writer::{EntryHandleMut, Writer};
use iceoryx2::prelude::*;
use iceoryx2::response::Response;
use iceoryx2::sample::Sample;
use iceoryx2::sample_mut::SampleMut;
use iceoryx2::service::port_factory::{blackboard, event, publish_subscribe, request_response};
use iceoryx2::service::Service;
use iceoryx2_bb_container::semantic_string::SemanticString;
use iceoryx2_bb_system_types::file_name::FileName;
use iceoryx2_bb_system_types::path::Path;

const CANARY_LOAN: u64 = 0xC17A_0000_0000_0001;
const CANARY_SENT: u64 = 0xC17B_0000_0000_0002;
const CANARY_REQ: u64 = 0xC17C_0000_0000_0003;
const CANARY_RESP: u64 = 0xC17D_0000_0000_0004;
const CANARY_BB: u64 = 0xC17E_0000_0000_0005;

pub struct Rng(pub u64);
impl Rng {
    pub fn next(&mut self) -> u64 {
        self.0 = self.0.wrapping_add(0x9E3779B97F4A7C15);
        let mut z = self.0;
        z = (z ^ (z >> 30)).wrapping_mul(0xBF58476D1CE4E5B9);
        z = (z ^ (z >> 27)).wrapping_mul(0x94D049BB133111EB);
        z ^ (z >> 31)
    }
    pub fn below(&mut self, n: u64) -> u64 {
        if n == 0 { 0 } else { self.next() % n }
    }
}

fn out(s: &str) {
    let so = std::io::stdout();
    let mut l = so.lock();
    let _ = l.write_all(s.as_bytes());
    let _ = l.write_all(b"\n");
    let _ = l.flush();
}

fn res<T, E: core::fmt::Debug>(r: Result<T, E>) -> Result<T, String> {
    r.map_err(|e| format!("err:{:?}", e).replace(' ', "_"))
}

/// one object graph: slots that can be dropped individually and probed while alive
trait Scenario {
    fn names(&self) -> Vec<&'static str>;
    fn alive(&self, k: usize) -> bool;
    fn drop_slot(&mut self, k: usize);
    fn smoke(&mut self, k: usize, round: u64) -> Result<(), String>;
}

/// Reads a u64 that lives in memory owned by another port (zero-copy payload).  The read is
/// first done in a forked child: if the segment behind the pointer has been unmapped the child
/// dies of SIGSEGV/SIGBUS and the probe reports it instead of killing the harness.
fn safe_read_u64(p: *const u64) -> Result<u64, String> {
    unsafe {
        let pid = libc::fork();
        if pid < 0 {
            return Err("fork-failed".into());
        }
        if pid == 0 {
            let v = core::ptr::read_volatile(p);
            libc::_exit(if v == 0 { 0 } else { 0 });
        }
        let mut status: libc::c_int = 0;
        loop {
            let r = libc::waitpid(pid, &mut status, 0);
            if r == pid { break; }
            if r < 0 && *libc::__errno_location() != libc::EINTR { return Err("waitpid-failed".into()); }
        }
        if libc::WIFSIGNALED(status) {
            return Err(format!("payload-unreadable-signal-{}", libc::WTERMSIG(status)));
        }
        Ok(core::ptr::read_volatile(p))
    }
}

fn canary(p: *const u64, expected: u64) -> Result<(), String> {
    let v = safe_read_u64(p)?;
    if v == expected { Ok(()) } else { Err(format!("canary:{:x}", v)) }
}

fn node_smoke<S: Service>(n: &Node<S>) -> Result<(), String> {
    let mut cnt = 0;
    res(Node::<S>::list(n.config(), |_| {
        cnt += 1;
        CallbackProgression::Continue
    }))?;
    if cnt == 0 { Err("node-list-empty".into()) } else { Ok(()) }
}

fn node_name(i: usize) -> NodeName {
    NodeName::new(&format!("c17node{}", i)).unwrap()
}

fn service_name() -> ServiceName {
    "c17/svc".try_into().unwrap()
}

fn make_nodes<S: Service>(cfg: &Config, nn: usize) -> Vec<Option<Node<S>>> {
    (0..nn).map(|i| Some(NodeBuilder::new().name(&node_name(i)).config(cfg).create::<S>().expect("node"))).collect()
}

// ------------------------------------------------------------------------------------------
// publish-subscribe
// ------------------------------------------------------------------------------------------
struct PubSub<S: Service> {
    nodes: Vec<Option<Node<S>>>,
    svcs: Vec<Option<publish_subscribe::PortFactory<S, u64, ()>>>,
    publisher: Option<Publisher<S, u64, ()>>,
    subscriber: Option<Subscriber<S, u64, ()>>,
    sample_mut: Option<SampleMut<S, u64, ()>>,
    sample: Option<Sample<S, u64, ()>>,
}

impl<S: Service> PubSub<S> {
    fn build(cfg: &Config, nn: usize) -> Self {
        let nodes = make_nodes::<S>(cfg, nn);
        let mut svcs = vec![];
        for (i, n) in nodes.iter().enumerate() {
            let b = n.as_ref().unwrap().service_builder(&service_name()).publish_subscribe::<u64>();
            svcs.push(Some(if i == 0 { b.create().expect("create service") } else { b.open().expect("open service") }));
        }
        let publisher = svcs[0].as_ref().unwrap().publisher_builder().max_loaned_samples(4).create().expect("publisher");
        let subscriber = svcs[nn - 1].as_ref().unwrap().subscriber_builder().create().expect("subscriber");
        publisher.loan_uninit().expect("loan").write_payload(CANARY_SENT).send().expect("send");
        let sample = subscriber.receive().expect("receive").expect("a sample");
        let sample_mut = publisher.loan_uninit().expect("loan").write_payload(CANARY_LOAN);
        PubSub { nodes, svcs, publisher: Some(publisher), subscriber: Some(subscriber), sample_mut: Some(sample_mut), sample: Some(sample) }
    }
    fn recreate(cfg: &Config) -> Result<(), String> {
        let node = res(NodeBuilder::new().name(&node_name(0)).config(cfg).create::<S>())?;
        let svc = res(node.service_builder(&service_name()).publish_subscribe::<u32>().max_publishers(3).subscriber_max_buffer_size(5).create())?;
        let p = res(svc.publisher_builder().create())?;
        let s = res(svc.subscriber_builder().create())?;
        res(p.send_copy(17))?;
        match res(s.receive())? {
            Some(x) if *x == 17 => Ok(()),
            Some(x) => Err(format!("recreated-service-delivered-{}", *x)),
            None => Err("recreated-service-delivered-nothing".into()),
        }
    }
}

impl<S: Service> Scenario for PubSub<S> {
    fn names(&self) -> Vec<&'static str> {
        let mut v = vec![];
        for _ in 0..self.nodes.len() { v.push("node"); }
        for _ in 0..self.svcs.len() { v.push("svc"); }
        v.extend(["publisher", "subscriber", "sample_mut", "sample"]);
        v
    }
    fn alive(&self, k: usize) -> bool {
        let nn = self.nodes.len();
        if k < nn { return self.nodes[k].is_some(); }
        if k < 2 * nn { return self.svcs[k - nn].is_some(); }
        match k - 2 * nn { 0 => self.publisher.is_some(), 1 => self.subscriber.is_some(), 2 => self.sample_mut.is_some(), 3 => self.sample.is_some(), _ => false }
    }
    fn drop_slot(&mut self, k: usize) {
        let nn = self.nodes.len();
        if k < nn { drop(self.nodes[k].take()); return; }
        if k < 2 * nn { drop(self.svcs[k - nn].take()); return; }
        match k - 2 * nn { 0 => drop(self.publisher.take()), 1 => drop(self.subscriber.take()), 2 => drop(self.sample_mut.take()), 3 => drop(self.sample.take()), _ => {} }
    }
    fn smoke(&mut self, k: usize, round: u64) -> Result<(), String> {
        let nn = self.nodes.len();
        if k < nn { return node_smoke(self.nodes[k].as_ref().unwrap()); }
        if k < 2 * nn {
            let s = self.svcs[k - nn].as_ref().unwrap();
            let _ = s.dynamic_config().number_of_publishers();
            let mut c = 0;
            res(s.nodes(|_| { c += 1; CallbackProgression::Continue }))?;
            return if c == 0 { Err("service-lists-no-node".into()) } else { Ok(()) };
        }
        match k - 2 * nn {
            0 => {
                // three loans at once: the allocator hands out free chunks LIFO, a chunk that was
                // reclaimed behind a live Sample's back is only reached by the second/third loan
                let p = self.publisher.as_ref().unwrap();
                res(res(p.loan_uninit())?.write_payload(7000 + round).send())?; // lets the publisher update its connections
                let l1 = res(p.loan_uninit())?.write_payload(7000 + round);
                let l2 = res(p.loan_uninit())?.write_payload(7000 + round);
                let l3 = res(p.loan_uninit())?.write_payload(7000 + round);
                res(l1.send())?;
                res(l2.send())?;
                res(l3.send())?;
                Ok(())
            }
            1 => {
                let s = self.subscriber.as_ref().unwrap();
                while let Some(x) = res(s.receive())? {
                    if !(7000..8000).contains(&*x) { return Err(format!("received-{:x}", *x)); }
                }
                Ok(())
            }
            2 => {
                let v = *self.sample_mut.as_ref().unwrap().payload();
                if v == CANARY_LOAN { Ok(()) } else { Err(format!("canary:{:x}", v)) }
            }
            3 => {
                canary(self.sample.as_ref().unwrap().payload() as *const u64, CANARY_SENT)
            }
            _ => Ok(()),
        }
    }
}

// ------------------------------------------------------------------------------------------
// event
// ------------------------------------------------------------------------------------------
struct Ev<S: Service> {
    nodes: Vec<Option<Node<S>>>,
    svcs: Vec<Option<event::PortFactory<S>>>,
    notifier: Option<Notifier<S>>,
    listener: Option<Listener<S>>,
}

impl<S: Service> Ev<S> {
    fn build(cfg: &Config, nn: usize) -> Self {
        let nodes = make_nodes::<S>(cfg, nn);
        let mut svcs = vec![];
        for (i, n) in nodes.iter().enumerate() {
            let b = n.as_ref().unwrap().service_builder(&service_name()).event();
            svcs.push(Some(if i == 0 { b.create().expect("create service") } else { b.open().expect("open service") }));
        }
        let notifier = svcs[0].as_ref().unwrap().notifier_builder().create().expect("notifier");
        let listener = svcs[nn - 1].as_ref().unwrap().listener_builder().create().expect("listener");
        notifier.notify().expect("notify");
        Ev { nodes, svcs, notifier: Some(notifier), listener: Some(listener) }
    }
    fn recreate(cfg: &Config) -> Result<(), String> {
        let node = res(NodeBuilder::new().name(&node_name(0)).config(cfg).create::<S>())?;
        let svc = res(node.service_builder(&service_name()).event().max_notifiers(3).max_listeners(2).event_id_max_value(9).create())?;
        let l = res(svc.listener_builder().create())?;
        let n = res(svc.notifier_builder().create())?;
        res(n.notify_with_custom_event_id(EventId::new(7)))?;
        let mut got = vec![];
        res(l.try_wait(|id| got.push(id.id.as_value())))?;
        if got == vec![7] { Ok(()) } else { Err(format!("recreated-service-delivered-{:?}", got).replace(' ', "")) }
    }
}

impl<S: Service> Scenario for Ev<S> {
    fn names(&self) -> Vec<&'static str> {
        let mut v = vec![];
        for _ in 0..self.nodes.len() { v.push("node"); }
        for _ in 0..self.svcs.len() { v.push("svc"); }
        v.extend(["notifier", "listener"]);
        v
    }
    fn alive(&self, k: usize) -> bool {
        let nn = self.nodes.len();
        if k < nn { return self.nodes[k].is_some(); }
        if k < 2 * nn { return self.svcs[k - nn].is_some(); }
        match k - 2 * nn { 0 => self.notifier.is_some(), 1 => self.listener.is_some(), _ => false }
    }
    fn drop_slot(&mut self, k: usize) {
        let nn = self.nodes.len();
        if k < nn { drop(self.nodes[k].take()); return; }
        if k < 2 * nn { drop(self.svcs[k - nn].take()); return; }
        match k - 2 * nn { 0 => drop(self.notifier.take()), 1 => drop(self.listener.take()), _ => {} }
    }
    fn smoke(&mut self, k: usize, _round: u64) -> Result<(), String> {
        let nn = self.nodes.len();
        if k < nn { return node_smoke(self.nodes[k].as_ref().unwrap()); }
        if k < 2 * nn {
            let s = self.svcs[k - nn].as_ref().unwrap();
            let _ = s.dynamic_config().number_of_listeners();
            let mut c = 0;
            res(s.nodes(|_| { c += 1; CallbackProgression::Continue }))?;
            return if c == 0 { Err("service-lists-no-node".into()) } else { Ok(()) };
        }
        match k - 2 * nn {
            0 => { res(self.notifier.as_ref().unwrap().notify())?; Ok(()) }
            1 => { res(self.listener.as_ref().unwrap().try_wait(|_| {}))?; Ok(()) }
            _ => Ok(()),
        }
    }
}

// ------------------------------------------------------------------------------------------
// request-response
// ------------------------------------------------------------------------------------------
struct ReqRes<S: Service> {
    nodes: Vec<Option<Node<S>>>,
    svcs: Vec<Option<request_response::PortFactory<S, u64, (), u64, ()>>>,
    client: Option<Client<S, u64, (), u64, ()>>,
    server: Option<Server<S, u64, (), u64, ()>>,
    pending: Option<PendingResponse<S, u64, (), u64, ()>>,
    active: Option<ActiveRequest<S, u64, (), u64, ()>>,
    response: Option<Response<S, u64, ()>>,
    has_response: bool,
}

impl<S: Service> ReqRes<S> {
    fn build(cfg: &Config, nn: usize) -> Self {
        let nodes = make_nodes::<S>(cfg, nn);
        let mut svcs = vec![];
        for (i, n) in nodes.iter().enumerate() {
            let b = n.as_ref().unwrap().service_builder(&service_name()).request_response::<u64, u64>().max_loaned_requests(4).max_active_requests_per_client(8);
            svcs.push(Some(if i == 0 { b.create().expect("create service") } else { b.open().expect("open service") }));
        }
        let client = svcs[0].as_ref().unwrap().client_builder().create().expect("client");
        let server = svcs[nn - 1].as_ref().unwrap().server_builder().max_loaned_responses_per_request(4).create().expect("server");
        let pending = client.loan_uninit().expect("loan").write_payload(CANARY_REQ).send().expect("send request");
        let active = server.receive().expect("receive").expect("a request");
        let has_response = nn == 1; // at most 8 objects
        let mut response = None;
        if has_response {
            active.loan_uninit().expect("loan response").write_payload(CANARY_RESP).send().expect("send response");
            response = Some(pending.receive().expect("receive response").expect("a response"));
        }
        ReqRes { nodes, svcs, client: Some(client), server: Some(server), pending: Some(pending), active: Some(active), response, has_response }
    }
    fn recreate(cfg: &Config) -> Result<(), String> {
        let node = res(NodeBuilder::new().name(&node_name(0)).config(cfg).create::<S>())?;
        let svc = res(node.service_builder(&service_name()).request_response::<u32, u32>().max_clients(3).max_servers(3).create())?;
        let c = res(svc.client_builder().create())?;
        let s = res(svc.server_builder().create())?;
        let p = res(c.send_copy(5))?;
        let a = res(s.receive())?.ok_or("recreated-service-delivered-no-request")?;
        if *a != 5 { return Err(format!("recreated-service-delivered-request-{}", *a)); }
        res(a.send_copy(6))?;
        match res(p.receive())? {
            Some(r) if *r == 6 => Ok(()),
            Some(r) => Err(format!("recreated-service-delivered-response-{}", *r)),
            None => Err("recreated-service-delivered-no-response".into()),
        }
    }
}

impl<S: Service> Scenario for ReqRes<S> {
    fn names(&self) -> Vec<&'static str> {
        let mut v = vec![];
        for _ in 0..self.nodes.len() { v.push("node"); }
        for _ in 0..self.svcs.len() { v.push("svc"); }
        v.extend(["client", "server", "pending_response", "active_request"]);
        if self.has_response { v.push("response"); }
        v
    }
    fn alive(&self, k: usize) -> bool {
        let nn = self.nodes.len();
        if k < nn { return self.nodes[k].is_some(); }
        if k < 2 * nn { return self.svcs[k - nn].is_some(); }
        match k - 2 * nn { 0 => self.client.is_some(), 1 => self.server.is_some(), 2 => self.pending.is_some(), 3 => self.active.is_some(), 4 => self.response.is_some(), _ => false }
    }
    fn drop_slot(&mut self, k: usize) {
        let nn = self.nodes.len();
        if k < nn { drop(self.nodes[k].take()); return; }
        if k < 2 * nn { drop(self.svcs[k - nn].take()); return; }
        match k - 2 * nn { 0 => drop(self.client.take()), 1 => drop(self.server.take()), 2 => drop(self.pending.take()), 3 => drop(self.active.take()), 4 => drop(self.response.take()), _ => {} }
    }
    fn smoke(&mut self, k: usize, round: u64) -> Result<(), String> {
        let nn = self.nodes.len();
        if k < nn { return node_smoke(self.nodes[k].as_ref().unwrap()); }
        if k < 2 * nn {
            let s = self.svcs[k - nn].as_ref().unwrap();
            let _ = s.dynamic_config().number_of_clients();
            let mut c = 0;
            res(s.nodes(|_| { c += 1; CallbackProgression::Continue }))?;
            return if c == 0 { Err("service-lists-no-node".into()) } else { Ok(()) };
        }
        match k - 2 * nn {
            0 => {
                let c = self.client.as_ref().unwrap();
                drop(res(res(c.loan_uninit())?.write_payload(8000 + round).send())?);
                let r1 = res(c.loan_uninit())?.write_payload(8000 + round);
                let r2 = res(c.loan_uninit())?.write_payload(8000 + round);
                let r3 = res(c.loan_uninit())?.write_payload(8000 + round);
                drop(res(r1.send())?);
                drop(res(r2.send())?);
                drop(res(r3.send())?);
                Ok(())
            }
            1 => {
                let s = self.server.as_ref().unwrap();
                while let Some(a) = res(s.receive())? {
                    if !(8000..9000).contains(&*a) { return Err(format!("received-{:x}", *a)); }
                    res(res(a.loan_uninit())?.write_payload(9000 + round).send())?;
                }
                Ok(())
            }
            2 => {
                let p = self.pending.as_ref().unwrap();
                if *p.payload() != CANARY_REQ { return Err(format!("canary:{:x}", *p.payload())); }
                while let Some(r) = res(p.receive())? {
                    if !(9000..10000).contains(&*r) && *r != CANARY_RESP { return Err(format!("received-{:x}", *r)); }
                }
                Ok(())
            }
            3 => {
                let a = self.active.as_ref().unwrap();
                if *a.payload() != CANARY_REQ { return Err(format!("canary:{:x}", *a.payload())); }
                res(res(a.loan_uninit())?.write_payload(9000 + round).send())?;
                let r1 = res(a.loan_uninit())?.write_payload(9000 + round);
                let r2 = res(a.loan_uninit())?.write_payload(9000 + round);
                let r3 = res(a.loan_uninit())?.write_payload(9000 + round);
                res(r1.send())?;
                res(r2.send())?;
                res(r3.send())?;
                Ok(())
            }
            4 => {
                canary(self.response.as_ref().unwrap().payload() as *const u64, CANARY_RESP)
            }
            _ => Ok(()),
        }
    }
}

// ------------------------------------------------------------------------------------------
// request-response, two requests of ONE client in flight (multi-channel response connection)
//   slots: node svc client server pending_b pending_a response_b active_a active_b
//   pending_a (channel 0, the older request) and pending_b (channel 1); response_b is a borrowed
//   Response of pending_b.  Probes run in slot order, so in every round pending_b polls before
//   pending_a, and the active requests answer AFTER the pending responses drained: at the end of a
//   round every pending response whose active request is alive has exactly one delivered but
//   unreceived response.  Each pending response must receive exactly what was sent to it.
// ------------------------------------------------------------------------------------------
struct ReqRes2<S: Service> {
    node: Option<Node<S>>,
    svc: Option<request_response::PortFactory<S, u64, (), u64, ()>>,
    client: Option<Client<S, u64, (), u64, ()>>,
    server: Option<Server<S, u64, (), u64, ()>>,
    pending_b: Option<PendingResponse<S, u64, (), u64, ()>>,
    pending_a: Option<PendingResponse<S, u64, (), u64, ()>>,
    response_b: Option<Response<S, u64, ()>>,
    active_a: Option<ActiveRequest<S, u64, (), u64, ()>>,
    active_b: Option<ActiveRequest<S, u64, (), u64, ()>>,
    expected_a: Vec<u64>,
    expected_b: Vec<u64>,
}

const REQ_A: u64 = 0xC17C_0000_0000_000A;
const REQ_B: u64 = 0xC17C_0000_0000_000B;

impl<S: Service> ReqRes2<S> {
    fn build(cfg: &Config, _nn: usize) -> Self {
        let node = NodeBuilder::new().name(&node_name(0)).config(cfg).create::<S>().expect("node");
        let svc = node
            .service_builder(&service_name())
            .request_response::<u64, u64>()
            .max_loaned_requests(4)
            .max_active_requests_per_client(4)
            .max_response_buffer_size(4)
            .max_borrowed_responses_per_pending_response(4)
            .create()
            .expect("create service");
        let client = svc.client_builder().create().expect("client");
        let server = svc.server_builder().max_loaned_responses_per_request(4).create().expect("server");
        let pending_a = client.loan_uninit().expect("loan").write_payload(REQ_A).send().expect("send request a");
        let pending_b = client.loan_uninit().expect("loan").write_payload(REQ_B).send().expect("send request b");
        let active_a = server.receive().expect("receive").expect("request a");
        let active_b = server.receive().expect("receive").expect("request b");
        assert_eq!(*active_a.payload(), REQ_A);
        assert_eq!(*active_b.payload(), REQ_B);
        active_b.loan_uninit().expect("loan response").write_payload(CANARY_RESP).send().expect("send response b");
        let response_b = pending_b.receive().expect("receive response").expect("response b");
        // one delivered, unreceived response for each pending response
        active_a.loan_uninit().expect("loan response").write_payload(0xA000).send().expect("send response a");
        active_b.loan_uninit().expect("loan response").write_payload(0xB000).send().expect("send response b2");
        ReqRes2 {
            node: Some(node), svc: Some(svc), client: Some(client), server: Some(server),
            pending_b: Some(pending_b), pending_a: Some(pending_a), response_b: Some(response_b),
            active_a: Some(active_a), active_b: Some(active_b),
            expected_a: vec![0xA000], expected_b: vec![0xB000],
        }
    }
    fn drain(p: &PendingResponse<S, u64, (), u64, ()>, req: u64, expected: &mut Vec<u64>) -> Result<(), String> {
        canary(p.payload() as *const u64, req)?;
        let mut got = vec![];
        while let Some(r) = res(p.receive())? {
            got.push(safe_read_u64(r.payload() as *const u64)?);
            if got.len() > 16 { break; }
        }
        let want = core::mem::take(expected);
        if got == want { Ok(()) } else {
            Err(format!("received-[{}]-sent-[{}]", got.iter().map(|x| format!("{:x}", x)).collect::<Vec<_>>().join(","), want.iter().map(|x| format!("{:x}", x)).collect::<Vec<_>>().join(",")))
        }
    }
}

impl<S: Service> Scenario for ReqRes2<S> {
    fn names(&self) -> Vec<&'static str> {
        vec!["node", "svc", "client", "server", "pending_b", "pending_a", "response_b", "active_a", "active_b"]
    }
    fn alive(&self, k: usize) -> bool {
        match k { 0 => self.node.is_some(), 1 => self.svc.is_some(), 2 => self.client.is_some(), 3 => self.server.is_some(), 4 => self.pending_b.is_some(), 5 => self.pending_a.is_some(), 6 => self.response_b.is_some(), 7 => self.active_a.is_some(), 8 => self.active_b.is_some(), _ => false }
    }
    fn drop_slot(&mut self, k: usize) {
        match k { 0 => drop(self.node.take()), 1 => drop(self.svc.take()), 2 => drop(self.client.take()), 3 => drop(self.server.take()), 4 => drop(self.pending_b.take()), 5 => drop(self.pending_a.take()), 6 => drop(self.response_b.take()), 7 => drop(self.active_a.take()), 8 => drop(self.active_b.take()), _ => {} }
    }
    fn smoke(&mut self, k: usize, round: u64) -> Result<(), String> {
        match k {
            0 => node_smoke(self.node.as_ref().unwrap()),
            1 => {
                let s = self.svc.as_ref().unwrap();
                let _ = s.dynamic_config().number_of_clients();
                let mut c = 0;
                res(s.nodes(|_| { c += 1; CallbackProgression::Continue }))?;
                if c == 0 { Err("service-lists-no-node".into()) } else { Ok(()) }
            }
            2 => {
                // a third request in flight for the duration of the probe
                let c = self.client.as_ref().unwrap();
                drop(res(res(c.loan_uninit())?.write_payload(8000 + round).send())?);
                Ok(())
            }
            3 => {
                let s = self.server.as_ref().unwrap();
                while let Some(a) = res(s.receive())? {
                    let v = safe_read_u64(a.payload() as *const u64)?;
                    if !(8000..9000).contains(&v) { return Err(format!("received-{:x}", v)); }
                    res(res(a.loan_uninit())?.write_payload(9000 + round).send())?;
                }
                Ok(())
            }
            4 => Self::drain(self.pending_b.as_ref().unwrap(), REQ_B, &mut self.expected_b),
            5 => Self::drain(self.pending_a.as_ref().unwrap(), REQ_A, &mut self.expected_a),
            6 => canary(self.response_b.as_ref().unwrap().payload() as *const u64, CANARY_RESP),
            7 => {
                let a = self.active_a.as_ref().unwrap();
                canary(a.payload() as *const u64, REQ_A)?;
                let v = 0xA001 + round;
                let r = res(res(a.loan_uninit())?.write_payload(v).send());
                if self.pending_a.is_some() { r?; self.expected_a.push(v); }
                Ok(())
            }
            8 => {
                let a = self.active_b.as_ref().unwrap();
                canary(a.payload() as *const u64, REQ_B)?;
                let v = 0xB001 + round;
                let r = res(res(a.loan_uninit())?.write_payload(v).send());
                if self.pending_b.is_some() { r?; self.expected_b.push(v); }
                Ok(())
            }
            _ => Ok(()),
        }
    }
}

// ------------------------------------------------------------------------------------------
// request-response, one client, TWO servers, expired-connection buffer of the client = 1
//   slots: node svc client server1 server2 pending_b pending_a response_b
//   after construction the response connection of server1 has a delivered, unreceived response on
//   channel 0 (pending_a) and the one of server2 has the same plus a borrowed Response on channel 1
//   (response_b).  When both servers go away the client can keep only ONE expired connection: it
//   must keep the one with the borrow (documented: undelivered data of the other one is discarded
//   with a warning).  pending_a never receives here (its data must stay in the connections), so
//   only the canaries are probed: the borrowed Response must stay readable and unchanged.
// ------------------------------------------------------------------------------------------
struct RrOvf<S: Service> {
    node: Option<Node<S>>,
    svc: Option<request_response::PortFactory<S, u64, (), u64, ()>>,
    client: Option<Client<S, u64, (), u64, ()>>,
    server1: Option<Server<S, u64, (), u64, ()>>,
    server2: Option<Server<S, u64, (), u64, ()>>,
    pending_b: Option<PendingResponse<S, u64, (), u64, ()>>,
    pending_a: Option<PendingResponse<S, u64, (), u64, ()>>,
    response_b: Option<Response<S, u64, ()>>,
}

impl<S: Service> RrOvf<S> {
    fn build(cfg: &Config, _nn: usize) -> Self {
        let mut cfg = cfg.clone();
        cfg.defaults.request_response.client_expired_connection_buffer = 1;
        let node = NodeBuilder::new().name(&node_name(0)).config(&cfg).create::<S>().expect("node");
        let svc = node
            .service_builder(&service_name())
            .request_response::<u64, u64>()
            .max_servers(2)
            .max_loaned_requests(4)
            .max_active_requests_per_client(4)
            .max_response_buffer_size(4)
            .max_borrowed_responses_per_pending_response(4)
            .create()
            .expect("create service");
        let client = svc.client_builder().create().expect("client");
        let server1 = svc.server_builder().create().expect("server1");
        let server2 = svc.server_builder().create().expect("server2");
        let pending_a = client.loan_uninit().expect("loan").write_payload(REQ_A).send().expect("send request a");
        let pending_b = client.loan_uninit().expect("loan").write_payload(REQ_B).send().expect("send request b");
        let a1a = server1.receive().expect("receive").expect("request a at server1");
        let a1b = server1.receive().expect("receive").expect("request b at server1");
        let a2a = server2.receive().expect("receive").expect("request a at server2");
        let a2b = server2.receive().expect("receive").expect("request b at server2");
        a1a.loan_uninit().expect("loan").write_payload(0xA100).send().expect("server1 answers a");
        a2b.loan_uninit().expect("loan").write_payload(CANARY_RESP).send().expect("server2 answers b");
        let response_b = pending_b.receive().expect("receive response").expect("response b");
        a2a.loan_uninit().expect("loan").write_payload(0xA200).send().expect("server2 answers a");
        drop(a1a); drop(a1b); drop(a2a); drop(a2b);
        RrOvf { node: Some(node), svc: Some(svc), client: Some(client), server1: Some(server1), server2: Some(server2),
                pending_b: Some(pending_b), pending_a: Some(pending_a), response_b: Some(response_b) }
    }
}

impl<S: Service> Scenario for RrOvf<S> {
    fn names(&self) -> Vec<&'static str> {
        vec!["node", "svc", "client", "server1", "server2", "pending_b", "pending_a", "response_b"]
    }
    fn alive(&self, k: usize) -> bool {
        match k { 0 => self.node.is_some(), 1 => self.svc.is_some(), 2 => self.client.is_some(), 3 => self.server1.is_some(), 4 => self.server2.is_some(), 5 => self.pending_b.is_some(), 6 => self.pending_a.is_some(), 7 => self.response_b.is_some(), _ => false }
    }
    fn drop_slot(&mut self, k: usize) {
        match k { 0 => drop(self.node.take()), 1 => drop(self.svc.take()), 2 => drop(self.client.take()), 3 => drop(self.server1.take()), 4 => drop(self.server2.take()), 5 => drop(self.pending_b.take()), 6 => drop(self.pending_a.take()), 7 => drop(self.response_b.take()), _ => {} }
    }
    fn smoke(&mut self, k: usize, round: u64) -> Result<(), String> {
        match k {
            0 => node_smoke(self.node.as_ref().unwrap()),
            1 => {
                let s = self.svc.as_ref().unwrap();
                let mut c = 0;
                res(s.nodes(|_| { c += 1; CallbackProgression::Continue }))?;
                if c == 0 { Err("service-lists-no-node".into()) } else { Ok(()) }
            }
            2 => {
                // sending lets the client notice servers that went away
                let c = self.client.as_ref().unwrap();
                drop(res(res(c.loan_uninit())?.write_payload(8000 + round).send())?);
                Ok(())
            }
            3 | 4 => {
                let s = if k == 3 { self.server1.as_ref().unwrap() } else { self.server2.as_ref().unwrap() };
                while let Some(a) = res(s.receive())? {
                    let v = safe_read_u64(a.payload() as *const u64)?;
                    if !(8000..9000).contains(&v) { return Err(format!("received-{:x}", v)); }
                }
                Ok(())
            }
            5 => {
                // polls (nothing was sent to it after response_b): also lets the client update its connections
                let p = self.pending_b.as_ref().unwrap();
                canary(p.payload() as *const u64, REQ_B)?;
                match res(p.receive())? { None => Ok(()), Some(r) => Err(format!("received-{:x}", safe_read_u64(r.payload() as *const u64)?)) }
            }
            6 => canary(self.pending_a.as_ref().unwrap().payload() as *const u64, REQ_A),
            7 => canary(self.response_b.as_ref().unwrap().payload() as *const u64, CANARY_RESP),
            _ => Ok(()),
        }
    }
}

// ------------------------------------------------------------------------------------------
// publish-subscribe, TWO publishers, one subscriber holding a Sample of each, with a configured
// subscriber_expired_connection_buffer (1) smaller than the subscriber's max borrowed samples (3)
//   slots: node svc publisher1 publisher2 subscriber sample1 sample2
//   when both publishers are gone while their samples are still held the subscriber has to keep
//   BOTH expired connections (each has a borrow): receive() must keep working, both samples must
//   stay readable.  The publishers' probes take ONE loan at a time (no chunk of a reclaimed
//   connection can be re-loaned that way, so the known sample-outlives-subscriber finding does
//   not show here).
// ------------------------------------------------------------------------------------------
const CANARY_P1: u64 = 0xC17B_0000_0000_0011;
const CANARY_P2: u64 = 0xC17B_0000_0000_0022;

struct Ps2<S: Service> {
    node: Option<Node<S>>,
    svc: Option<publish_subscribe::PortFactory<S, u64, ()>>,
    publisher1: Option<Publisher<S, u64, ()>>,
    publisher2: Option<Publisher<S, u64, ()>>,
    subscriber: Option<Subscriber<S, u64, ()>>,
    sample1: Option<Sample<S, u64, ()>>,
    sample2: Option<Sample<S, u64, ()>>,
}

impl<S: Service> Ps2<S> {
    fn build(cfg: &Config, _nn: usize) -> Self {
        let mut cfg = cfg.clone();
        cfg.defaults.publish_subscribe.subscriber_expired_connection_buffer = 1;
        let node = NodeBuilder::new().name(&node_name(0)).config(&cfg).create::<S>().expect("node");
        let svc = node.service_builder(&service_name()).publish_subscribe::<u64>()
            .max_publishers(2).subscriber_max_borrowed_samples(3).subscriber_max_buffer_size(4).create().expect("create service");
        let publisher1 = svc.publisher_builder().create().expect("publisher1");
        let publisher2 = svc.publisher_builder().create().expect("publisher2");
        let subscriber = svc.subscriber_builder().create().expect("subscriber");
        publisher1.send_copy(CANARY_P1).expect("send 1");
        publisher2.send_copy(CANARY_P2).expect("send 2");
        let x = subscriber.receive().expect("receive").expect("first sample");
        let y = subscriber.receive().expect("receive").expect("second sample");
        let (sample1, sample2) = if *x.payload() == CANARY_P1 { (x, y) } else { (y, x) };
        assert_eq!(*sample1.payload(), CANARY_P1);
        assert_eq!(*sample2.payload(), CANARY_P2);
        Ps2 { node: Some(node), svc: Some(svc), publisher1: Some(publisher1), publisher2: Some(publisher2), subscriber: Some(subscriber), sample1: Some(sample1), sample2: Some(sample2) }
    }
}

impl<S: Service> Scenario for Ps2<S> {
    fn names(&self) -> Vec<&'static str> {
        vec!["node", "svc", "publisher1", "publisher2", "subscriber", "sample1", "sample2"]
    }
    fn alive(&self, k: usize) -> bool {
        match k { 0 => self.node.is_some(), 1 => self.svc.is_some(), 2 => self.publisher1.is_some(), 3 => self.publisher2.is_some(), 4 => self.subscriber.is_some(), 5 => self.sample1.is_some(), 6 => self.sample2.is_some(), _ => false }
    }
    fn drop_slot(&mut self, k: usize) {
        match k { 0 => drop(self.node.take()), 1 => drop(self.svc.take()), 2 => drop(self.publisher1.take()), 3 => drop(self.publisher2.take()), 4 => drop(self.subscriber.take()), 5 => drop(self.sample1.take()), 6 => drop(self.sample2.take()), _ => {} }
    }
    fn smoke(&mut self, k: usize, round: u64) -> Result<(), String> {
        match k {
            0 => node_smoke(self.node.as_ref().unwrap()),
            1 => {
                let s = self.svc.as_ref().unwrap();
                let _ = s.dynamic_config().number_of_publishers();
                let mut c = 0;
                res(s.nodes(|_| { c += 1; CallbackProgression::Continue }))?;
                if c == 0 { Err("service-lists-no-node".into()) } else { Ok(()) }
            }
            2 | 3 => {
                let p = if k == 2 { self.publisher1.as_ref().unwrap() } else { self.publisher2.as_ref().unwrap() };
                res(res(p.loan_uninit())?.write_payload(7000 + round).send())?;
                Ok(())
            }
            4 => {
                let s = self.subscriber.as_ref().unwrap();
                let _ = res(s.has_samples())?;
                while let Some(x) = res(s.receive())? {
                    let v = safe_read_u64(x.payload() as *const u64)?;
                    if !(7000..8000).contains(&v) { return Err(format!("received-{:x}", v)); }
                }
                // with both publishers gone a NEW publisher must still reach the subscriber
                if self.publisher1.is_none() && self.publisher2.is_none() {
                    if let Some(svc) = self.svc.as_ref() {
                        let p = res(svc.publisher_builder().create())?;
                        res(p.send_copy(7500 + round))?;
                        match res(s.receive())? {
                            Some(x) if *x.payload() == 7500 + round => {}
                            Some(x) => return Err(format!("new-publisher-delivered-{:x}", *x.payload())),
                            None => return Err("new-publisher-sample-not-received".into()),
                        }
                    }
                }
                Ok(())
            }
            5 => canary(self.sample1.as_ref().unwrap().payload() as *const u64, CANARY_P1),
            6 => canary(self.sample2.as_ref().unwrap().payload() as *const u64, CANARY_P2),
            _ => Ok(()),
        }
    }
}

// ------------------------------------------------------------------------------------------
// a REJECTED open: node_a creates the service with max_nodes(1); node_b's open() of the same service is
// refused (ExceedsMaxNumberOfNodes) after it passed the static-config verification.  Nothing of the failed
// open may stay behind (no service tag of node_b, so node_b's directory can be removed).
//   slots: node_a svc node_b publisher        (publisher on node_a's service handle)
// ------------------------------------------------------------------------------------------
struct OpenFail<S: Service> {
    node_a: Option<Node<S>>,
    svc: Option<publish_subscribe::PortFactory<S, u64, ()>>,
    node_b: Option<Node<S>>,
    publisher: Option<Publisher<S, u64, ()>>,
}

impl<S: Service> OpenFail<S> {
    fn build(cfg: &Config, _nn: usize) -> Self {
        let node_a = NodeBuilder::new().name(&node_name(0)).config(cfg).create::<S>().expect("node a");
        let svc = node_a.service_builder(&service_name()).publish_subscribe::<u64>().max_nodes(1).create().expect("create service");
        let node_b = NodeBuilder::new().name(&node_name(1)).config(cfg).create::<S>().expect("node b");
        match node_b.service_builder(&service_name()).publish_subscribe::<u64>().open() {
            Err(e) => {
                let t = format!("{:?}", e);
                assert!(t.contains("ExceedsMaxNumberOfNodes"), "open refused for another reason: {}", t);
            }
            Ok(_) => panic!("open of a service with max_nodes(1) by a second node succeeded"),
        }
        let publisher = svc.publisher_builder().create().expect("publisher");
        OpenFail { node_a: Some(node_a), svc: Some(svc), node_b: Some(node_b), publisher: Some(publisher) }
    }
}

impl<S: Service> Scenario for OpenFail<S> {
    fn names(&self) -> Vec<&'static str> {
        vec!["node_a", "svc", "node_b", "publisher"]
    }
    fn alive(&self, k: usize) -> bool {
        match k { 0 => self.node_a.is_some(), 1 => self.svc.is_some(), 2 => self.node_b.is_some(), 3 => self.publisher.is_some(), _ => false }
    }
    fn drop_slot(&mut self, k: usize) {
        match k { 0 => drop(self.node_a.take()), 1 => drop(self.svc.take()), 2 => drop(self.node_b.take()), 3 => drop(self.publisher.take()), _ => {} }
    }
    fn smoke(&mut self, k: usize, round: u64) -> Result<(), String> {
        match k {
            0 => node_smoke(self.node_a.as_ref().unwrap()),
            1 => {
                let s = self.svc.as_ref().unwrap();
                let mut c = 0;
                res(s.nodes(|_| { c += 1; CallbackProgression::Continue }))?;
                if c == 1 { Ok(()) } else { Err(format!("service-lists-{}-nodes", c)) }
            }
            2 => {
                // the refused node keeps working, and is refused again for the same reason while node_a's handle lives
                let n = self.node_b.as_ref().unwrap();
                node_smoke(n)?;
                if self.svc.is_some() {
                    match n.service_builder(&service_name()).publish_subscribe::<u64>().open() {
                        Err(e) if format!("{:?}", e).contains("ExceedsMaxNumberOfNodes") => Ok(()),
                        Err(e) => Err(format!("open-refused-with-{:?}", e).replace(' ', "_")),
                        Ok(_) => Err("open-beyond-max-nodes-succeeded".into()),
                    }
                } else { Ok(()) }
            }
            3 => { res(self.publisher.as_ref().unwrap().send_copy(7000 + round))?; Ok(()) }
            _ => Ok(()),
        }
    }
}

// ------------------------------------------------------------------------------------------
// blackboard
// ------------------------------------------------------------------------------------------
struct Bb<S: Service> {
    nodes: Vec<Option<Node<S>>>,
    svcs: Vec<Option<blackboard::PortFactory<S, u64>>>,
    writer: Option<Writer<S, u64>>,
    reader: Option<Reader<S, u64>>,
    handle_mut: Option<EntryHandleMut<S, u64, u64>>,
    handle: Option<EntryHandle<S, u64, u64>>,
    expected: u64,
}

impl<S: Service> Bb<S> {
    fn build(cfg: &Config, nn: usize) -> Self {
        let nodes = make_nodes::<S>(cfg, nn);
        let mut svcs = vec![];
        for (i, n) in nodes.iter().enumerate() {
            let sb = n.as_ref().unwrap().service_builder(&service_name());
            svcs.push(Some(if i == 0 {
                sb.blackboard_creator::<u64>().add::<u64>(0, CANARY_BB).add::<u64>(1, 1).create().expect("create service")
            } else {
                sb.blackboard_opener::<u64>().open().expect("open service")
            }));
        }
        let writer = svcs[0].as_ref().unwrap().writer_builder().create().expect("writer");
        let reader = svcs[nn - 1].as_ref().unwrap().reader_builder().create().expect("reader");
        let handle_mut = writer.entry::<u64>(&0).expect("entry handle mut");
        let handle = reader.entry::<u64>(&0).expect("entry handle");
        Bb { nodes, svcs, writer: Some(writer), reader: Some(reader), handle_mut: Some(handle_mut), handle: Some(handle), expected: CANARY_BB }
    }
    fn recreate(cfg: &Config) -> Result<(), String> {
        let node = res(NodeBuilder::new().name(&node_name(0)).config(cfg).create::<S>())?;
        let svc = res(node.service_builder(&service_name()).blackboard_creator::<u64>().max_readers(3).add::<u32>(5, 55).create())?;
        let r = res(svc.reader_builder().create())?;
        let h = res(r.entry::<u32>(&5))?;
        if *h.get() == 55 { Ok(()) } else { Err(format!("recreated-service-holds-{}", *h.get())) }
    }
}

impl<S: Service> Scenario for Bb<S> {
    fn names(&self) -> Vec<&'static str> {
        let mut v = vec![];
        for _ in 0..self.nodes.len() { v.push("node"); }
        for _ in 0..self.svcs.len() { v.push("svc"); }
        v.extend(["writer", "reader", "entry_handle_mut", "entry_handle"]);
        v
    }
    fn alive(&self, k: usize) -> bool {
        let nn = self.nodes.len();
        if k < nn { return self.nodes[k].is_some(); }
        if k < 2 * nn { return self.svcs[k - nn].is_some(); }
        match k - 2 * nn { 0 => self.writer.is_some(), 1 => self.reader.is_some(), 2 => self.handle_mut.is_some(), 3 => self.handle.is_some(), _ => false }
    }
    fn drop_slot(&mut self, k: usize) {
        let nn = self.nodes.len();
        if k < nn { drop(self.nodes[k].take()); return; }
        if k < 2 * nn { drop(self.svcs[k - nn].take()); return; }
        match k - 2 * nn { 0 => drop(self.writer.take()), 1 => drop(self.reader.take()), 2 => drop(self.handle_mut.take()), 3 => drop(self.handle.take()), _ => {} }
    }
    fn smoke(&mut self, k: usize, round: u64) -> Result<(), String> {
        let nn = self.nodes.len();
        if k < nn { return node_smoke(self.nodes[k].as_ref().unwrap()); }
        if k < 2 * nn {
            let s = self.svcs[k - nn].as_ref().unwrap();
            let _ = s.dynamic_config().number_of_readers();
            let mut c = 0;
            res(s.nodes(|_| { c += 1; CallbackProgression::Continue }))?;
            return if c == 0 { Err("service-lists-no-node".into()) } else { Ok(()) };
        }
        match k - 2 * nn {
            0 => {
                let h = res(self.writer.as_ref().unwrap().entry::<u64>(&1))?;
                h.update_with_copy(round);
                Ok(())
            }
            1 => {
                let h = res(self.reader.as_ref().unwrap().entry::<u64>(&0))?;
                let v = *h.get();
                if v == self.expected { Ok(()) } else { Err(format!("read-{:x}-expected-{:x}", v, self.expected)) }
            }
            2 => {
                self.expected = 100 + round;
                self.handle_mut.as_ref().unwrap().update_with_copy(self.expected);
                Ok(())
            }
            3 => {
                let v = *self.handle.as_ref().unwrap().get();
                if v == self.expected { Ok(()) } else { Err(format!("canary:{:x}-expected-{:x}", v, self.expected)) }
            }
            _ => Ok(()),
        }
    }
}

// ------------------------------------------------------------------------------------------
// resource listing of the isolated domain
// ------------------------------------------------------------------------------------------
#[derive(Default)]
struct Listing {
    mon: usize,
    det: usize,
    dir: usize,
    stag: usize,
    ptag: usize,
    sstat: usize,
    sdyn: usize,
    aux: usize,
    data: usize,
    conn: usize,
    ev: usize,
    other: Vec<String>,
    persistent: Vec<String>,
}

fn classify(l: &mut Listing, name: &str, in_nodes_dir: bool) {
    let suffix = name.rsplit('.').next().unwrap_or("");
    match suffix {
        "node_monitor" | "node_monitor_context" | "node_monitor_owner_lock" => l.mon += 1,
        "details" => l.det += 1,
        "service_tag" => l.stag += 1,
        "port_tag" => l.ptag += 1,
        "service" => l.sstat += 1,
        "dynamic" => l.sdyn += 1,
        "data" => l.data += 1,
        "connection" => l.conn += 1,
        "event" | "event_mgmt" => l.ev += 1,
        "type_details" | "request_type" | "response_type" | "blackboard_mgmt" | "blackboard_data" | "blackboard_payload" => l.aux += 1,
        "global_mgmt" => l.persistent.push("global_mgmt".into()),
        _ => l.other.push(format!("{}{}", if in_nodes_dir { "nodes/" } else { "" }, suffix)),
    }
}

/// `known_shm`: None = scan /dev/shm for entries with the run's prefix (and return their names);
/// Some(names) = only check which of these names still exist (per-drop listings: no named shm object is
/// created by a drop or a probe except those a probe removes again; the full scans after construction and
/// at the end see everything)
fn listing_with(root: &str, prefix: &str, known_shm: Option<&Vec<String>>) -> (Listing, Vec<String>) {
    let mut l = Listing::default();
    if let Ok(rd) = std::fs::read_dir(root) {
        for e in rd.flatten() {
            let name = e.file_name().to_string_lossy().to_string();
            let p = e.path();
            if p.is_dir() && (name == "nodes" || name == "services") {
                l.persistent.push(format!("{}/", name));
                if let Ok(rd2) = std::fs::read_dir(&p) {
                    for e2 in rd2.flatten() {
                        let n2 = e2.file_name().to_string_lossy().to_string();
                        if e2.path().is_dir() {
                            l.dir += 1;
                            if let Ok(rd3) = std::fs::read_dir(e2.path()) {
                                for e3 in rd3.flatten() {
                                    classify(&mut l, &e3.file_name().to_string_lossy(), true);
                                }
                            }
                        } else {
                            classify(&mut l, &n2, false);
                        }
                    }
                }
            } else if p.is_dir() {
                l.other.push(format!("dir:{}", name));
            } else {
                classify(&mut l, &name, false);
            }
        }
    }
    let mut shm = vec![];
    match known_shm {
        Some(names) => {
            for name in names {
                if std::path::Path::new("/dev/shm").join(name).exists() {
                    classify(&mut l, name, false);
                    shm.push(name.clone());
                }
            }
        }
        None => {
            if let Ok(rd) = std::fs::read_dir("/dev/shm") {
                for e in rd.flatten() {
                    let name = e.file_name().to_string_lossy().to_string();
                    if name.starts_with(prefix) {
                        classify(&mut l, &name, false);
                        shm.push(name);
                    }
                }
            }
        }
    }
    l.other.sort();
    l.persistent.sort();
    l.persistent.dedup();
    (l, shm)
}

fn listing(root: &str, prefix: &str) -> Listing {
    listing_with(root, prefix, None).0
}

impl Listing {
    fn text(&self, nodes: i64, svcs: i64) -> String {
        format!(
            "mon={},det={},dir={},stag={},ptag={},sstat={},sdyn={},aux={},data={},conn={},ev={},nodes={},svcs={},other={}",
            self.mon, self.det, self.dir, self.stag, self.ptag, self.sstat, self.sdyn, self.aux, self.data, self.conn, self.ev, nodes, svcs,
            if self.other.is_empty() { "-".to_string() } else { self.other.join("+") }
        )
    }
    fn leftovers(&self) -> Vec<String> {
        let mut v = vec![];
        for (n, c) in [("node_monitor", self.mon), ("node_details", self.det), ("node_dir", self.dir), ("service_tag", self.stag), ("port_tag", self.ptag), ("static_config", self.sstat), ("dynamic_config", self.sdyn), ("aux", self.aux), ("data_segment", self.data), ("connection", self.conn), ("event", self.ev)] {
            if c > 0 { v.push(format!("{}x{}", n, c)); }
        }
        v.extend(self.other.iter().cloned());
        v
    }
}

fn api_counts<S: Service>(cfg: &Config) -> (i64, i64) {
    let mut n = 0i64;
    let rn = Node::<S>::list(cfg, |_| { n += 1; CallbackProgression::Continue });
    let mut s = 0i64;
    let rs = S::list(cfg, |_| { s += 1; CallbackProgression::Continue });
    (if rn.is_ok() { n } else { -1 }, if rs.is_ok() { s } else { -1 })
}

// ------------------------------------------------------------------------------------------
// one permutation
// ------------------------------------------------------------------------------------------
struct Domain {
    root: String,
    prefix: String,
    cfg: Config,
}

fn domain(n: u64) -> Domain {
    let pid = std::process::id();
    let root = format!("/dev/shm/verif-c17-{}-{}", pid, n);
    let _ = std::fs::remove_dir_all(&root);
    std::fs::create_dir_all(&root).expect("private root");
    let prefix = format!("c17_{}_{}_", pid, n);
    let mut cfg = Config::default();
    cfg.global.prefix = FileName::new(prefix.as_bytes()).unwrap();
    cfg.global.set_root_path(&Path::new(root.as_bytes()).unwrap());
    Domain { root, prefix, cfg }
}

fn cleanup(d: &Domain) {
    let _ = std::fs::remove_dir_all(&d.root);
    if let Ok(rd) = std::fs::read_dir("/dev/shm") {
        for e in rd.flatten() {
            if e.file_name().to_string_lossy().starts_with(&d.prefix) {
                let _ = std::fs::remove_file(e.path());
            }
        }
    }
}

fn run_perm<S: Service, T: Scenario>(
    variant: &str,
    pattern: &str,
    nn: usize,
    fs: bool,
    order: &[usize],
    case_no: u64,
    build: &dyn Fn(&Config, usize) -> T,
    recreate: &dyn Fn(&Config) -> Result<(), String>,
) {
    let d = domain(case_no);
    let order_s: Vec<String> = order.iter().map(|x| x.to_string()).collect();
    let built = catch_unwind(AssertUnwindSafe(|| build(&d.cfg, nn)));
    let mut sc = match built {
        Ok(s) => s,
        Err(_) => {
            out(&format!("C {} {} nodes={} slots={} fs={} order={} names=- excluded=-", variant, pattern, nn, order.len(), fs as u8, order_s.join(",")));
            out("O build = P");
            cleanup(&d);
            return;
        }
    };
    out(&format!(
        "C {} {} nodes={} slots={} fs={} order={} names={} excluded=WaitSetGuard<'waitset,'attachment>(borrows-WaitSet-and-the-attached-object),PortFactoryPublisher/Subscriber/..<'factory>(builders-borrow-the-PortFactory),Monofier<'a>(borrows-Notifier),ArcSyncPolicy::LockGuard<'parent>",
        variant, pattern, nn, order.len(), fs as u8, order_s.join(","), sc.names().join(",")
    ));
    let (an, asv) = api_counts::<S>(&d.cfg);
    let (l0, known_shm) = listing_with(&d.root, &d.prefix, None);
    out(&format!("S {}", l0.text(an, asv)));
    let nslots = sc.names().len();
    for (round, &k) in order.iter().enumerate() {
        let r = catch_unwind(AssertUnwindSafe(|| sc.drop_slot(k)));
        let (an, asv) = api_counts::<S>(&d.cfg);
        let counts = listing_with(&d.root, &d.prefix, Some(&known_shm)).0.text(an, asv);
        let mut smokes = vec![];
        for j in 0..nslots {
            if sc.alive(j) {
                let s = catch_unwind(AssertUnwindSafe(|| sc.smoke(j, round as u64)));
                smokes.push(format!("{}:{}", j, match s { Ok(Ok(())) => "ok".to_string(), Ok(Err(e)) => e, Err(_) => "P".to_string() }));
            }
        }
        out(&format!("O drop {} = {} ; {} ; {}", k, if r.is_ok() { "ok" } else { "P" }, counts, if smokes.is_empty() { "-".to_string() } else { smokes.join(" ") }));
    }
    // whatever the order did not mention is dropped now (normally nothing)
    drop(sc);
    let l = listing(&d.root, &d.prefix);
    let (an, asv) = api_counts::<S>(&d.cfg);
    let left = l.leftovers();
    let rec = catch_unwind(AssertUnwindSafe(|| recreate(&d.cfg)));
    let rec_s = match rec { Ok(Ok(())) => "ok".to_string(), Ok(Err(e)) => e, Err(_) => "P".to_string() };
    let l2 = listing(&d.root, &d.prefix);
    let left2 = l2.leftovers();
    out(&format!(
        "O end = left={} nodes={} svcs={} recreate={} left2={} persistent={}",
        if left.is_empty() { "-".to_string() } else { left.join("+") },
        an, asv, rec_s,
        if left2.is_empty() { "-".to_string() } else { left2.join("+") },
        if l.persistent.is_empty() { "-".to_string() } else { l.persistent.join("+") }
    ));
    cleanup(&d);
}

fn nth_permutation(n: usize, mut idx: u64) -> Vec<usize> {
    // lexicographic rank -> permutation
    let mut fact = vec![1u64; n + 1];
    for i in 1..=n { fact[i] = fact[i - 1] * i as u64; }
    let mut items: Vec<usize> = (0..n).collect();
    let mut p = vec![];
    for i in (0..n).rev() {
        let q = (idx / fact[i]) as usize;
        idx %= fact[i];
        p.push(items.remove(q));
    }
    p
}

fn nslots_of(pattern: &str, nn: usize) -> usize {
    2 * nn + match pattern { "pubsub" => 4, "event" => 2, "reqres" => if nn == 1 { 5 } else { 4 }, "blackboard" => 4, "reqres2" => 7, "rrovf" => 6, "ps2" => 5, "openfail" => 2, _ => 0 }
}

fn orders(a: &[String], n: usize) -> Vec<Vec<usize>> {
    match a[1].as_str() {
        "perm" => vec![a[5].split(',').map(|x| x.parse().expect("slot number")).collect()],
        "exh" => {
            let shard: u64 = a[5].parse().unwrap();
            let nshards: u64 = a[6].parse().unwrap();
            let total: u64 = (1..=n as u64).product();
            (0..total).filter(|i| i % nshards == shard).map(|i| nth_permutation(n, i)).collect()
        }
        "rnd" => {
            let shard: u64 = a[5].parse().unwrap();
            let seed: u64 = a[7].parse().unwrap();
            let count: u64 = a[8].parse().unwrap();
            let mut rng = Rng(seed ^ shard.wrapping_mul(0xA24BAED4963EE407) ^ 0xC17);
            (0..count)
                .map(|_| {
                    let mut p: Vec<usize> = (0..n).collect();
                    for i in (1..n).rev() {
                        let j = rng.below(i as u64 + 1) as usize;
                        p.swap(i, j);
                    }
                    p
                })
                .collect()
        }
        // family "server side first" of reqres2: every order of the server-side slots {server, active_a,
        // active_b} (3, 7, 8), followed by client-side orders of {node, svc, client, pending_b, pending_a,
        // response_b}: all 720 (count = 0) or `count` seeded ones per server-side order
        "fam" => {
            let shard: u64 = a[5].parse().unwrap();
            let nshards: u64 = a[6].parse().unwrap();
            let seed: u64 = a[7].parse().unwrap();
            let count: u64 = a[8].parse().unwrap();
            let (srv, cli): (Vec<usize>, Vec<usize>) = if a[3] == "rrovf" { (vec![3, 4], vec![0, 1, 2, 5, 6, 7]) } else if a[3] == "ps2" { (vec![2, 3], vec![0, 1, 4, 5, 6]) } else { (vec![3, 7, 8], vec![0, 1, 2, 4, 5, 6]) };
            let mut rng = Rng(seed ^ 0xFA17);
            let mut v = vec![];
            let mut idx = 0u64;
            let nso: u64 = (1..=srv.len() as u64).product();
            for so in 0..nso {
                let sp = nth_permutation(srv.len(), so);
                let nc = cli.len();
                let ncli = if count == 0 { (1..=nc as u64).product() } else { count };
                for c in 0..ncli {
                    let cp = if count == 0 { nth_permutation(nc, c) } else {
                        let mut p: Vec<usize> = (0..nc).collect();
                        for i in (1..nc).rev() { let j = rng.below(i as u64 + 1) as usize; p.swap(i, j); }
                        p
                    };
                    if idx % nshards == shard {
                        let mut o: Vec<usize> = sp.iter().map(|&i| srv[i]).collect();
                        o.extend(cp.iter().map(|&i| cli[i]));
                        v.push(o);
                    }
                    idx += 1;
                }
            }
            v
        }
        m => panic!("unknown mode {}", m),
    }
}

fn run_variant<S: Service>(a: &[String], fs: bool) {
    let variant = a[2].as_str();
    let pattern = a[3].as_str();
    let nn: usize = a[4].parse().unwrap();
    let n = nslots_of(pattern, nn);
    let mut case_no = 0u64;
    for order in orders(a, n) {
        case_no += 1;
        match pattern {
            "pubsub" => run_perm::<S, PubSub<S>>(variant, pattern, nn, fs, &order, case_no, &PubSub::<S>::build, &PubSub::<S>::recreate),
            "event" => run_perm::<S, Ev<S>>(variant, pattern, nn, fs, &order, case_no, &Ev::<S>::build, &Ev::<S>::recreate),
            "reqres" => run_perm::<S, ReqRes<S>>(variant, pattern, nn, fs, &order, case_no, &ReqRes::<S>::build, &ReqRes::<S>::recreate),
            "blackboard" => run_perm::<S, Bb<S>>(variant, pattern, nn, fs, &order, case_no, &Bb::<S>::build, &Bb::<S>::recreate),
            "openfail" => run_perm::<S, OpenFail<S>>(variant, pattern, 1, fs, &order, case_no, &OpenFail::<S>::build, &PubSub::<S>::recreate),
            "ps2" => run_perm::<S, Ps2<S>>(variant, pattern, 1, fs, &order, case_no, &Ps2::<S>::build, &PubSub::<S>::recreate),
            "rrovf" => run_perm::<S, RrOvf<S>>(variant, pattern, 1, fs, &order, case_no, &RrOvf::<S>::build, &ReqRes::<S>::recreate),
            "reqres2" => run_perm::<S, ReqRes2<S>>(variant, pattern, 1, fs, &order, case_no, &ReqRes2::<S>::build, &ReqRes::<S>::recreate),
            p => panic!("unknown pattern {}", p),
        }
    }
}

fn main() {
    if std::env::var("VERIF_PANIC_VERBOSE").is_err() {
        std::panic::set_hook(Box::new(|_| {}));
    }
    iceoryx2_log::set_log_level(iceoryx2_log::LogLevel::Fatal);
    let a: Vec<String> = std::env::args().collect();
    if a.len() < 6 {
        eprintln!("usage: c17 exh|rnd|perm <variant> <pattern> <nnodes> ...");
        std::process::exit(2);
    }
    match a[2].as_str() {
        "ipc" => run_variant::<ipc::Service>(&a, true),
        "local" => run_variant::<local::Service>(&a, false),
        "ipc_threadsafe" => run_variant::<ipc_threadsafe::Service>(&a, true),
        "local_threadsafe" => run_variant::<local_threadsafe::Service>(&a, false),
        v => panic!("unknown variant {}", v),
    }
    out("DONE");
}
