extern crate iceoryx2_bb_loggers;
use iceoryx2::prelude::*;
use iceoryx2_bb_container::semantic_string::SemanticString;
use iceoryx2_bb_system_types::file_name::FileName;
use iceoryx2_bb_system_types::path::Path;

fn ls(root: &str, prefix: &str, tag: &str) {
    println!("--- {}", tag);
    fn walk(p: &std::path::Path, d: usize) {
        if let Ok(rd) = std::fs::read_dir(p) {
            let mut v: Vec<_> = rd.flatten().collect();
            v.sort_by_key(|e| e.file_name());
            for e in v {
                println!("{}{}", "  ".repeat(d), e.file_name().to_string_lossy());
                if e.path().is_dir() { walk(&e.path(), d + 1); }
            }
        }
    }
    walk(std::path::Path::new(root), 1);
    let mut v: Vec<_> = std::fs::read_dir("/dev/shm").unwrap().flatten().map(|e| e.file_name().to_string_lossy().to_string()).filter(|n| n.starts_with(prefix)).collect();
    v.sort();
    for n in v { println!("  shm: {}", n); }
}

fn main() {
    iceoryx2_log::set_log_level(iceoryx2_log::LogLevel::Fatal);
    let pid = std::process::id();
    let root = format!("/dev/shm/verif-c17-{}-0", pid);
    std::fs::create_dir_all(&root).unwrap();
    let prefix = format!("c17_{}_0_", pid);
    let mut config = Config::default();
    config.global.prefix = FileName::new(prefix.as_bytes()).unwrap();
    config.global.set_root_path(&Path::new(root.as_bytes()).unwrap());
    {
        let node = NodeBuilder::new().config(&config).create::<ipc::Service>().unwrap();
        ls(&root, &prefix, "node");
        let name: ServiceName = "c17/x".try_into().unwrap();
        let svc = node.service_builder(&name).publish_subscribe::<u64>().create().unwrap();
        ls(&root, &prefix, "service");
        let p = svc.publisher_builder().create().unwrap();
        ls(&root, &prefix, "publisher");
        let s = svc.subscriber_builder().create().unwrap();
        ls(&root, &prefix, "subscriber");
        let sm = p.loan_uninit().unwrap().write_payload(5);
        sm.send().unwrap();
        let sa = s.receive().unwrap().unwrap();
        ls(&root, &prefix, "sample");
        let ename: ServiceName = "c17/e".try_into().unwrap();
        let es = node.service_builder(&ename).event().create().unwrap();
        let l = es.listener_builder().create().unwrap();
        let n = es.notifier_builder().create().unwrap();
        n.notify().unwrap();
        ls(&root, &prefix, "event");
        drop(sa);
    }
    ls(&root, &prefix, "end");
    let _ = std::fs::remove_dir_all(&root);
    for e in std::fs::read_dir("/dev/shm").unwrap().flatten() {
        if e.file_name().to_string_lossy().starts_with(&prefix) { let _ = std::fs::remove_file(e.path()); }
    }
}
