//! Model-free probe for C02 with payloads that GROW while they are loaned (Flatbuffer payloads on a
//! publisher with a dynamic data segment: AllocationStrategy PowerOfTwo / BestFit).  Growing relocates
//! the loaned chunk (possibly into a fresh segment); whatever happens to the chunk bookkeeping, the
//! bytes a subscriber sees through a held / buffered sample must never change.
//!
//! Every scenario: loans are filled with a byte vector of a given length and fill byte (writing more
//! than the reserved memory makes the builder grow), sent, received (and kept); after every step the
//! serialized bytes of every held sample are re-read and compared with what was written.
//! output: `PROBE grow <variant> <strategy> reserve=<r> sizes=<..> steps=<n> held=<n> result=ok|CHANGED ...`
use iceoryx2::prelude::*;
use iceoryx2::service::marker::Flatbuffer;
use iceoryx2::service::Service;

type Blob = flatbuffers::Vector<'static, u8>;

/// the fill byte and length a serialized byte-vector payload carries (it ends with the vector: u32 length + bytes)
fn digest(bytes: &[u8]) -> String {
    // a finished buffer with a byte vector as root: u32 offset of the root, there u32 length, then the bytes
    let rd = |i: usize| -> Option<usize> {
        if i + 4 > bytes.len() { None } else { Some(u32::from_le_bytes([bytes[i], bytes[i + 1], bytes[i + 2], bytes[i + 3]]) as usize) }
    };
    let root = match rd(0) { Some(r) => r, None => return "short".into() };
    let n = match rd(root) { Some(n) => n, None => return format!("bad-root{}", root) };
    if root + 4 + n > bytes.len() { return format!("bad-len{}", n); }
    let data = &bytes[root + 4..root + 4 + n];
    let first = data.first().copied().unwrap_or(0);
    if data.iter().all(|b| *b == first) { format!("{:x}x{}", first, n) }
    else {
        let k = data.iter().filter(|b| **b != first).count();
        format!("{:x}x{}+{}other", first, n - k, k)
    }
}

pub fn run<S: Service>(node: &Node<S>, variant: &str, schema: &FilePath, out: &mut crate::Out) {
    let pid = std::process::id();
    let mut case = 0;
    for strategy in [AllocationStrategy::PowerOfTwo, AllocationStrategy::BestFit] {
        for reserve in [16usize, 64, 256] {
            for sizes in [vec![200usize, 200], vec![200, 200, 200], vec![40, 300, 300], vec![300, 40, 300], vec![1000, 1000, 5000], vec![100, 2000, 100, 2000]] {
                for hold_buffered in [false, true] {
                    case += 1;
                    let name: ServiceName = format!("c01/{}/grow/{}", pid, case).as_str().try_into().unwrap();
                    let svc = node.service_builder(&name)
                        .publish_subscribe::<Flatbuffer<Blob>>()
                        .flatbuffer_schema_path(schema)
                        .subscriber_max_buffer_size(8)
                        .subscriber_max_borrowed_samples(8)
                        .max_nodes(2)
                        .create();
                    let svc = match svc { Ok(s) => s, Err(e) => { out.line(&format!("PROBE grow {} setup-failed {:?}", variant, e)); return; } };
                    let publisher = svc.publisher_builder().initial_reserved_memory(reserve).allocation_strategy(strategy).max_loaned_samples(2).create().expect("publisher");
                    let subscriber = svc.subscriber_builder().create().expect("subscriber");
                    let mut held: Vec<(String, iceoryx2::sample::Sample<S, Flatbuffer<Blob>, ()>)> = vec![];
                    let mut changed: Vec<String> = vec![];
                    let mut steps = 0;
                    let mut check = |held: &Vec<(String, iceoryx2::sample::Sample<S, Flatbuffer<Blob>, ()>)>, when: &str, changed: &mut Vec<String>| {
                        for (k, (want, smp)) in held.iter().enumerate() {
                            let got = digest(smp.payload_bytes());
                            if &got != want { changed.push(format!("sample{}@{}:{}->{}", k, when, want, got)); }
                        }
                    };
                    let body = std::panic::catch_unwind(std::panic::AssertUnwindSafe(|| {
                    for (k, n) in sizes.iter().enumerate() {
                        let fill = 0xA1u8 + k as u8;
                        let r = std::panic::catch_unwind(std::panic::AssertUnwindSafe(|| {
                            let mut smp = publisher.loan_flatbuffer().expect("loan");
                            let data = vec![fill; *n];
                            let root = smp.flatbuffer_builder().create_vector(&data);
                            smp.assume_init(root)
                        }));
                        let smp = match r { Ok(s) => s, Err(_) => { changed.push(format!("panic-in-loan{}", k)); break; } };
                        steps += 1;
                        check(&held, &format!("loan{}", k), &mut changed);
                        let want = format!("{:x}x{}", fill, n);
                        if smp.send().is_err() { changed.push(format!("send{}-failed", k)); break; }
                        steps += 1;
                        check(&held, &format!("send{}", k), &mut changed);
                        if !hold_buffered || k + 1 == sizes.len() {
                            // receive everything that is buffered and keep it
                            while let Ok(Some(s)) = subscriber.receive() {
                                let got = digest(s.payload_bytes());
                                let w = if hold_buffered { got.clone() } else { want.clone() };
                                if !hold_buffered && got != want { changed.push(format!("received{}:{}->{}", k, want, got)); }
                                held.push((w, s));
                            }
                            steps += 1;
                            check(&held, &format!("recv{}", k), &mut changed);
                        }
                    }
                    }));
                    if body.is_err() { changed.push(format!("PANIC-after-step{}", steps)); }
                    if hold_buffered && body.is_ok() {
                        // samples stayed in the subscriber buffer while later loans were written: every one must still carry its own fill byte
                        for (k, (got, _)) in held.iter().enumerate() {
                            let want = format!("{:x}x{}", 0xA1u8 + k as u8, sizes[k]);
                            if got != &want { changed.push(format!("buffered{}:{}->{}", k, want, got)); }
                        }
                    }
                    out.line(&format!("PROBE grow {} {:?} reserve={} sizes={:?} buffered={} steps={} held={} result={}",
                        variant, strategy, reserve, sizes, hold_buffered, steps, held.len(),
                        if changed.is_empty() { "ok".to_string() } else { format!("CHANGED {}", changed.join(" ")) }));
                    let _ = std::panic::catch_unwind(std::panic::AssertUnwindSafe(|| {
                        drop(held);
                        drop(subscriber);
                        drop(publisher);
                    }));
                }
            }
        }
    }
}
