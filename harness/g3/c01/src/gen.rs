//! history generators: exhaustive suites (every applicable operation sequence of a fixed length
//! over a small positional alphabet) and seeded random histories biased towards saturation
//! (every subscriber at full buffer + full borrow, history full, all loans out) and towards
//! port churn (ports dropped while their samples / loans are still alive).
use crate::{Cfg, Op, Rng, RunEnd, View};

pub struct Suite {
    pub cfg: Cfg,
    pub prefix: Vec<Op>,
    pub alpha: Vec<Op>,
}

fn cfg(s: usize, p: usize, b: usize, m: usize, h: usize, ovf: bool, e: usize) -> Cfg {
    Cfg { s, p, b, m, h, ovf, e }
}

/// (B, M, H, L, ovf, retry, handler)
type Q = (usize, usize, usize, usize, bool, bool, &'static str);

/// QoS tuples: every value of buffer 1..3, history 0..2, borrow 1..2, loans 1..2, overflow on/off,
/// strategy discard / retry with a scripted handler occurs; `wide` adds the remaining pairs
fn qos(wide: bool) -> Vec<Q> {
    let mut v: Vec<Q> = vec![
        (1, 1, 0, 1, false, false, "-"),
        (1, 1, 1, 2, true, false, "-"),
        (2, 1, 0, 2, false, false, "-"),
        (2, 2, 1, 1, true, false, "d"),
        (2, 1, 2, 2, false, true, "rd"),
        (3, 2, 2, 2, true, false, "-"),
        (1, 2, 2, 1, true, true, "f"),
        (2, 2, 0, 2, false, false, "f"),
    ];
    if wide {
        v.extend_from_slice(&[
            (3, 1, 0, 1, false, false, "o"),
            (3, 2, 1, 2, false, true, "rrf"),
            (1, 2, 0, 2, true, true, "-"),
            (2, 2, 2, 2, true, false, "ro"),
            (3, 1, 2, 1, true, false, "-"),
            (1, 1, 1, 1, false, true, "d"),
            (2, 1, 1, 1, true, true, "rd"),
            (3, 2, 0, 2, false, false, "-"),
        ]);
    }
    v
}

pub fn suites(name: &str) -> Vec<Suite> {
    let mut out = vec![];
    let wide = name.ends_with("+");
    let base = name.trim_end_matches('+');
    for (b, m, h, l, ovf, retry, hs) in qos(wide) {
        let pc = |slot: usize| Op::Pc(slot, l, retry, hs.to_string());
        match base {
            // one publisher, one subscriber: data path and life cycle together
            "core" => {
                for order in 0..2 {
                    let prefix = if order == 0 { vec![pc(0), Op::Sc(0, None, None)] } else { vec![Op::Sc(0, None, None), pc(0)] };
                    out.push(Suite {
                        cfg: cfg(1, 1, b, m, h, ovf, 1),
                        prefix,
                        alpha: vec![Op::Sn(0), Op::Ln(0), Op::Snd(0, 0), Op::Ld(0, 0), Op::Rx(0), Op::Rd(0, 0),
                                    Op::Sd(0), Op::Sc(0, None, None), Op::Pd(0), pc(0), Op::Pu(0)],
                    });
                }
            }
            // one publisher, one subscriber: loans, rewrites, borrow limit, probes
            "data" => {
                out.push(Suite {
                    cfg: cfg(1, 1, b, m, h, ovf, 2),
                    prefix: vec![pc(0), Op::Sc(0, Some(b), Some(h.min(b)))],
                    alpha: vec![Op::Sn(0), Op::Ln(0), Op::Snd(0, 0), Op::Snd(0, 1), Op::Wr(0, 0), Op::Ld(0, 0), Op::Rx(0),
                                Op::Rd(0, 0), Op::RdNewest(0), Op::Hs(0), Op::Ex(0)],
                });
            }
            // late joiners with a smaller buffer / explicit history request, limits of the port registries
            "join" => {
                out.push(Suite {
                    cfg: cfg(2, 1, b, m, h, ovf, 1),
                    prefix: vec![pc(0)],
                    alpha: vec![Op::Sn(0), Op::Sc(0, None, None), Op::Sc(1, Some(1), Some(h.min(1))), Op::Sc(2, None, Some(0)),
                                Op::Rx(0), Op::Rx(1), Op::Rd(0, 0), Op::Rd(1, 0), Op::Sd(0), Op::Pu(0), Op::Su(1)],
                });
            }
            // two publishers, two subscribers
            "two" => {
                out.push(Suite {
                    cfg: cfg(2, 2, b, m, h, ovf, 1),
                    prefix: vec![pc(0), Op::Sc(0, None, None), pc(1), Op::Sc(1, None, None)],
                    alpha: vec![Op::Sn(0), Op::Sn(1), Op::Rx(0), Op::Rx(1), Op::Rd(0, 0), Op::Rd(1, 0), Op::Sd(0), Op::Sc(0, None, None),
                                Op::Pd(0), pc(0), Op::Pu(1)],
                });
            }
            // expired connections: publishers vanish while the subscriber still holds / has samples
            "expire" => {
                out.push(Suite {
                    cfg: cfg(1, 3, b, m, h, ovf, 1),
                    prefix: vec![Op::Sc(0, None, None), pc(0), pc(1), Op::Su(0), Op::Sn(0), Op::Sn(1)],
                    alpha: vec![Op::Sn(0), Op::Sn(1), Op::Pd(0), Op::Pd(1), pc(0), pc(2), Op::Rx(0), Op::Rd(0, 0), Op::RdNewest(0), Op::Hs(0)],
                });
            }
            // the subscriber acts inside the publisher's blocking_send (between its reclaim and its push):
            // full buffer + full borrow, then the handler drops / receives before it answers
            "window" => {
                if ovf { continue; }
                for script in ["DRrd", "Drd", "DRrDRrd"] {
                    let mut prefix = vec![Op::Pc(0, l, true, script.to_string()), Op::Sc(0, None, None)];
                    for _ in 0..b { prefix.push(Op::Sn(0)); }
                    for _ in 0..m { prefix.push(Op::Rx(0)); prefix.push(Op::Sn(0)); }
                    out.push(Suite {
                        cfg: cfg(1, 1, b, m, 0, false, 2),
                        prefix,
                        alpha: vec![Op::Sn(0), Op::Rx(0), Op::Rd(0, 0), Op::RdNewest(0), Op::Ex(0)],
                    });
                }
            }
            // publishers (also re-created in the same slot) vanish with undelivered samples before the first
            // receive, the subscriber having seen each of them; then the subscriber drains
            "drain" => {
                out.push(Suite {
                    cfg: cfg(1, 2, b.max(2), m, 0, ovf, 3),
                    prefix: vec![Op::Sc(0, None, None)],
                    alpha: vec![pc(0), pc(1), Op::Su(0), Op::Sn(0), Op::Sn(1), Op::Pd(0), Op::Pd(1), Op::Rx(0), Op::Rd(0, 0)],
                });
            }
            o => panic!("unknown suite {}", o),
        }
    }
    out
}

/// every operation sequence of length `len` over the suite's alphabet in which every operation
/// is applicable (a sequence is abandoned, and its whole subtree skipped, at the first
/// inapplicable one); sharded by (suite index, first two letters)
pub fn exhaustive(name: &str, len: usize, shard: u64, nshards: u64, run: &mut dyn FnMut(&Cfg, &[Op]) -> RunEnd) {
    let mut unit = 0u64;
    for su in suites(name) {
        if !su.cfg.valid() { continue; }
        let a = su.alpha.len();
        let np = su.prefix.len();
        let fixed = 2.min(len);
        for d0 in 0..a {
            for d1 in 0..(if fixed > 1 { a } else { 1 }) {
                unit += 1;
                if unit % nshards != shard { continue; }
                let mut digits = vec![0usize; len];
                digits[0] = d0;
                if fixed > 1 { digits[1] = d1; }
                'outer: loop {
                    let mut ops = su.prefix.clone();
                    ops.extend(digits.iter().map(|d| su.alpha[*d].clone()));
                    // position to advance next
                    let mut k = match run(&su.cfg, &ops) {
                        RunEnd::InvalidAt(i) if i >= np => i - np,
                        RunEnd::InvalidAt(_) => break 'outer,
                        _ => len - 1,
                    };
                    for j in (k + 1)..len { digits[j] = 0; }
                    loop {
                        if k < fixed { break 'outer; }
                        digits[k] += 1;
                        if digits[k] < a { break; }
                        digits[k] = 0;
                        k -= 1;
                    }
                }
            }
        }
    }
}

const HANDLERS_DISCARD: [&str; 6] = ["-", "d", "f", "o", "ro", "rd"];
const HANDLERS_RETRY: [&str; 8] = ["d", "f", "rd", "rf", "rrd", "DRrd", "Drd", "DRrDRrd"];

pub struct RandomCase {
    pub cfg: Cfg,
    pub mood: u64,
    pub len: u64,
    pub l: [usize; 4],
    pub retry: [bool; 4],
    pub hs: [&'static str; 4],
    pub created_pub: std::cell::Cell<bool>,
}

pub fn random_case(rng: &mut Rng, maxlen: u64, big: bool) -> RandomCase {
    let top = if big { 3 } else { 2 };
    let s = 1 + rng.below(top) as usize;
    let p = 1 + rng.below(top) as usize;
    let b = 1 + rng.below(3) as usize;
    let m = 1 + rng.below(2) as usize;
    let ovf = rng.below(2) == 0;
    let mut h = rng.below(3) as usize;
    if !ovf && h > b { h = b; }
    let e = [1usize, 1, 2, 3, 128][rng.below(5) as usize];
    let mut l = [1usize; 4];
    let mut retry = [false; 4];
    let mut hs = ["-"; 4];
    for i in 0..4 {
        l[i] = 1 + rng.below(2) as usize;
        retry[i] = !ovf && rng.below(3) == 0 || ovf && rng.below(2) == 0;
        hs[i] = if retry[i] && !ovf { HANDLERS_RETRY[rng.below(8) as usize] }
                else if retry[i] { ["-", "d", "rd", "f", "o"][rng.below(5) as usize] }   // with overflow nothing ever waits
                else { HANDLERS_DISCARD[rng.below(6) as usize] };
    }
    RandomCase { cfg: cfg(s, p, b, m, h, ovf, e), mood: rng.below(4), len: maxlen / 4 + rng.below(maxlen - maxlen / 4 + 1), l, retry, hs, created_pub: std::cell::Cell::new(false) }
}

/// next operation of a random case, chosen from what is applicable in the harness' current state
pub fn random_next(rc: &RandomCase, rng: &mut Rng, v: &View) -> Op {
    let c = &rc.cfg;
    let nps = (c.p + 1).min(4);   // one slot more than the service allows: "one port too many"
    let nss = (c.s + 1).min(4);
    let live_p: Vec<usize> = (0..nps).filter(|i| v.pubs[*i]).collect();
    let live_s: Vec<usize> = (0..nss).filter(|i| v.subs[*i]).collect();
    let dead_p: Vec<usize> = (0..nps).filter(|i| !v.pubs[*i]).collect();
    let dead_s: Vec<usize> = (0..nss).filter(|i| !v.subs[*i]).collect();
    let pick = |rng: &mut Rng, l: &Vec<usize>| l[rng.below(l.len() as u64) as usize];
    // mostly, a subscriber looks at the registry soon after a publisher appeared (otherwise what that publisher
    // sends before it vanishes falls into the known 'not yet connected' loss class)
    if rc.created_pub.replace(false) && !live_s.is_empty() && rng.below(10) < 7 {
        let s = pick(rng, &live_s);
        return if rng.below(2) == 0 { Op::Su(s) } else { Op::Hs(s) };
    }
    // weights per mood: 0 = saturate, 1 = churn, 2 = mixed, 3 = drain-heavy
    //                     create pub, create sub, drop pub, drop sub, sn, ln, snd, ld, wr, rx, rd, hs, pu, su, ex
    let w: [u64; 15] = match rc.mood {
        0 => [6, 8, 0, 0, 40, 12, 4, 1, 1, 30, 3, 1, 2, 1, 2],
        1 => [10, 12, 7, 9, 20, 6, 4, 3, 1, 14, 8, 2, 4, 3, 2],
        2 => [5, 6, 2, 3, 25, 8, 6, 3, 2, 20, 12, 2, 3, 2, 2],
        _ => [4, 5, 1, 2, 18, 6, 8, 5, 1, 22, 22, 2, 2, 1, 2],
    };
    for _ in 0..64 {
        let mut r = rng.below(w.iter().sum());
        let mut k = 0;
        while r >= w[k] { r -= w[k]; k += 1; }
        let op = match k {
            0 if !dead_p.is_empty() => { let s = pick(rng, &dead_p); rc.created_pub.set(true); Some(Op::Pc(s, rc.l[s], rc.retry[s], rc.hs[s].to_string())) }
            1 if !dead_s.is_empty() => {
                let s = pick(rng, &dead_s);
                // mostly the default (= maximal) buffer: saturation needs it; sometimes smaller / invalid requests
                let r = rng.below(10);
                let buf = if r < 6 { None } else if r < 9 { Some(1 + rng.below(c.b as u64) as usize) } else { Some(c.b + 1) };
                let r = rng.below(10);
                let hr = if r < 6 { None } else if r < 9 { Some(rng.below(c.h as u64 + 1) as usize) } else { Some(c.h + 1) };
                Some(Op::Sc(s, buf, hr))
            }
            2 if !live_p.is_empty() => Some(Op::Pd(pick(rng, &live_p))),
            3 if !live_s.is_empty() => Some(Op::Sd(pick(rng, &live_s))),
            4 if !live_p.is_empty() => Some(Op::Sn(pick(rng, &live_p))),
            5 if !live_p.is_empty() => Some(Op::Ln(pick(rng, &live_p))),
            6 | 7 | 8 => {
                let with: Vec<usize> = (0..4).filter(|i| v.loans[*i] > 0).collect();
                if with.is_empty() { None } else {
                    let s = pick(rng, &with);
                    let pos = rng.below(v.loans[s] as u64) as usize;
                    Some(match k { 6 => Op::Snd(s, pos), 7 => Op::Ld(s, pos), _ => Op::Wr(s, pos) })
                }
            }
            9 if !live_s.is_empty() => Some(Op::Rx(pick(rng, &live_s))),
            10 => {
                let with: Vec<usize> = (0..4).filter(|i| v.samples[*i] > 0).collect();
                if with.is_empty() { None } else {
                    let s = pick(rng, &with);
                    // in the saturating mood a subscriber that is still alive keeps what it borrowed
                    if rc.mood == 0 && v.subs[s] && rng.below(4) != 0 { None }
                    else { Some(Op::Rd(s, rng.below(v.samples[s] as u64) as usize)) }
                }
            }
            11 if !live_s.is_empty() => Some(Op::Hs(pick(rng, &live_s))),
            12 if !live_p.is_empty() => Some(Op::Pu(pick(rng, &live_p))),
            13 if !live_s.is_empty() => Some(Op::Su(pick(rng, &live_s))),
            14 if !live_p.is_empty() => Some(Op::Ex(pick(rng, &live_p))),
            _ => None,
        };
        if let Some(o) = op { return o; }
    }
    let s = dead_p[0];
    Op::Pc(s, rc.l[s], rc.retry[s], rc.hs[s].to_string())
}
