//! G3 correspondence harness for C01 / C02 / C08: runs publish-subscribe API histories against
//! the REAL iceoryx2 ports (local::Service and ipc::Service) and prints one canonical
//! observation per operation for ocaml/c01/driver (format: see that file).
//!
//! usage: c01 exh  <variant> <suite> <len> <shard> <nshards> <seed>
//!        c01 rnd  <variant> <maxlen> <shard> <nshards> <seed> <ncases>
//!        c01 hist <variant> <S,P,B,M,H,ovf,E> <op> <op> ...      ops as printed, '_' for blanks:
//!                 pc_2_0_- sc_-_- sn_0 rx_0 sd_0 pu_0 ln_0 ex_0
//!   variant = local | ipc
//!
//! Conventions shared with the model (coq/model/Port.v):
//!  * publisher / subscriber ids = order of successful creation (0, 1, ..); loan and sample ids
//!    likewise; a failed creation / loan / receive consumes no id;
//!  * payload (u64) = (publisher id + 1) << 32 | sequence number; every loan and every `wr`
//!    writes the publisher's next sequence number; printed as <pub>.<seq>;
//!  * `ln` prints the chunk number of the loan = (payload address - address of the publisher's
//!    first loan) / chunk stride (the stride is measured once on a scratch service);
//!  * `K` = canary probe after every operation while samples are held: the content of every held
//!    sample re-read now; `ex p` = exhaustion probe: loan_uninit until it fails, print the count
//!    and the error, drop those loans newest first;
//!  * the back-pressure handler is a pure function of BackpressureInfo::retries given by a
//!    script string over r(etry) d(iscard) f(discard and fail) o(follow strategy): all but the
//!    last letter answer calls 0,1,.., the last letter answers every later call.  Scripts that
//!    would block for ever on a full buffer (RetryUntilDelivered with no handler / a script
//!    ending in `o` or `r`) are never generated: a single-threaded harness cannot return from them.
extern crate iceoryx2_bb_loggers;

use std::collections::HashMap;
use std::io::Write;
use std::panic::{catch_unwind, AssertUnwindSafe};

use iceoryx2::port::publisher::{Publisher, PublisherCreateError};
use iceoryx2::port::subscriber::{Subscriber, SubscriberCreateError};
use iceoryx2::port::update_connections::UpdateConnections;
use iceoryx2::port::{BackpressureAction, BackpressureInfo, LoanError, ReceiveError, SendError};
use iceoryx2::prelude::*;
use iceoryx2::sample::Sample;
use iceoryx2::sample_mut::SampleMut;
use iceoryx2::service::port_factory::publish_subscribe::PortFactory;
use iceoryx2::service::Service;

pub struct Rng(pub u64);
impl Rng {
    pub fn next(&mut self) -> u64 {
        self.0 = self.0.wrapping_add(0x9E3779B97F4A7C15);
        let mut z = self.0;
        z = (z ^ (z >> 30)).wrapping_mul(0xBF58476D1CE4E5B9);
        z = (z ^ (z >> 27)).wrapping_mul(0x94D049BB133111EB);
        z ^ (z >> 31)
    }
    pub fn below(&mut self, n: u64) -> u64 {
        if n == 0 { 0 } else { self.next() % n }
    }
}

pub struct Out {
    pub w: std::io::BufWriter<std::io::Stdout>,
}
impl Out {
    pub fn line(&mut self, s: &str) {
        let _ = self.w.write_all(s.as_bytes());
        let _ = self.w.write_all(b"\n");
    }
}

/// service-level configuration of one case
#[derive(Clone, Debug)]
pub struct Cfg {
    s: usize,
    p: usize,
    b: usize,
    m: usize,
    h: usize,
    ovf: bool,
    e: usize,
}
impl Cfg {
    fn parse(t: &str) -> Cfg {
        let v: Vec<usize> = t.split(',').map(|x| x.parse().expect("cfg number")).collect();
        Cfg { s: v[0], p: v[1], b: v[2], m: v[3], h: v[4], ovf: v[5] != 0, e: v[6] }
    }
    fn valid(&self) -> bool {
        self.ovf || self.h <= self.b.max(1)
    }
}

/// positional operations (what the generators produce): slots and positions, resolved to ids at run time
#[derive(Clone, Debug, PartialEq)]
pub enum Op {
    Pc(usize, usize, bool, String),   // slot, L, retry, handler script
    Pd(usize),
    Sc(usize, Option<usize>, Option<usize>), // slot, buffer, history request
    Sd(usize),
    Ln(usize),
    Wr(usize, usize),  // publisher slot, k-th oldest live loan of it
    Snd(usize, usize),
    Ld(usize, usize),
    Sn(usize),
    Rx(usize),
    Rd(usize, usize),  // subscriber slot, k-th oldest live sample received through that slot
    RdNewest(usize),
    Hs(usize),
    Pu(usize),
    Su(usize),
    Ex(usize),
    Fc,
}

fn parse_opt(t: &str) -> Option<usize> {
    if t == "-" { None } else { Some(t.parse().expect("number")) }
}

type Pl = u64;

struct PubH<S: Service> {
    id: usize,
    port: Publisher<S, Pl, ()>,
    base: Option<usize>,   // payload address of chunk 0
}

/// what the generators may look at
pub struct View {
    pub pubs: [bool; 4],
    pub subs: [bool; 4],
    pub loans: [usize; 4],
    pub samples: [usize; 4],
}
struct SubH<S: Service> {
    id: usize,
    port: Subscriber<S, Pl, ()>,
}
struct LoanH<S: Service> {
    id: usize,
    pslot: usize,
    pid: usize,
    smp: SampleMut<S, Pl, ()>,
}
struct SampH<S: Service> {
    id: usize,
    sslot: usize,
    sid: usize,   // id of the subscriber it was received through
    smp: Sample<S, Pl, ()>,
}

/// the part of a case that a back-pressure handler acts on (from inside Publisher::send); it is
/// reached through a raw pointer only, so that nothing is assumed about it across the send call
struct Rx<S: Service> {
    subs: Vec<Option<SubH<S>>>,     // by slot
    samples: Vec<SampH<S>>,         // oldest first
    pub_ids: HashMap<u128, usize>,
    sub_ids: HashMap<u128, usize>,
    nsample: usize,
    htrace: Vec<String>,
}

thread_local! {
    /// (address of the current case's Rx, address of hook::<S>)
    static HOOK: std::cell::Cell<(usize, usize)> = std::cell::Cell::new((0, 0));
}

/// the actions of one handler call: D = drop the oldest Sample held from the subscriber whose buffer
/// is full, R = that subscriber receives (the Sample is kept)
fn hook<S: Service>(rxp: usize, acts: &[u8], receiver: u128) {
    let rx = unsafe { &mut *(rxp as *mut Rx<S>) };
    let sid = match rx.sub_ids.get(&receiver) { Some(v) => *v, None => { rx.htrace.push("r:na".into()); return; } };
    for a in acts {
        match a {
            b'D' => match rx.samples.iter().position(|x| x.sid == sid) {
                Some(i) => { let x = rx.samples.remove(i); let id = x.id; drop(x); rx.htrace.push(format!("d:{}", id)); }
                None => rx.htrace.push("d:-".into()),
            },
            _ => {
                let slot = rx.subs.iter().position(|h| h.as_ref().map(|h| h.id == sid).unwrap_or(false));
                match slot {
                    None => rx.htrace.push("r:na".into()),
                    Some(slot) => {
                        let r = rx.subs[slot].as_ref().unwrap().port.receive();
                        match r {
                            Ok(None) => rx.htrace.push(format!("r:{}:none", sid)),
                            Ok(Some(smp)) => {
                                let id = rx.nsample;
                                rx.nsample += 1;
                                let origin = rx.pub_ids.get(&smp.origin().value()).map(|v| v.to_string()).unwrap_or("?".into());
                                let v = *smp.payload();
                                rx.samples.push(SampH { id, sslot: slot, sid, smp });
                                rx.htrace.push(format!("r:{}:x{}:{}:{}", sid, id, origin, show_pl(v)));
                            }
                            Err(ReceiveError::ExceedsMaxBorrows) => rx.htrace.push(format!("r:{}:eBorrow", sid)),
                            Err(_) => rx.htrace.push(format!("r:{}:err", sid)),
                        }
                    }
                }
            }
        }
    }
}

enum Exec {
    Done(String),   // printed op text + " = " + observation
    NotApplicable,
}

struct Case<'a, S: Service> {
    svc: &'a PortFactory<S, Pl, ()>,
    stride: usize,
    pubs: Vec<Option<PubH<S>>>,     // by slot
    loans: Vec<LoanH<S>>,           // oldest first
    rx: *mut Rx<S>,                 // what the back-pressure handler may touch while a send is running
    pub_seq: HashMap<usize, u64>,   // next sequence number per publisher id (survives the Publisher object)
    npub: usize,
    nsub: usize,
    nloan: usize,
    ipc: bool,
}

fn show_pl(v: u64) -> String {
    format!("{}.{}", ((v >> 32) as i64) - 1, v & 0xffff_ffff)
}

fn mk_handler(script: String) -> impl Fn(&BackpressureInfo) -> BackpressureAction + Send + 'static {
    // groups: a run of action letters (D, R) closed by one answer letter (r d f o); the last group answers every later call
    let mut groups: Vec<(Vec<u8>, u8)> = vec![];
    let mut cur = vec![];
    for b in script.bytes() {
        if b == b'D' || b == b'R' { cur.push(b); } else { groups.push((std::mem::take(&mut cur), b)); }
    }
    move |info: &BackpressureInfo| {
        let k = (info.retries as usize).min(groups.len() - 1);
        let (acts, ans) = &groups[k];
        if !acts.is_empty() {
            let (p, f) = HOOK.with(|h| h.get());
            if f != 0 {
                let f: fn(usize, &[u8], u128) = unsafe { std::mem::transmute(f) };
                f(p, acts, info.receiver_port_id);
            }
        }
        match ans {
            b'r' => BackpressureAction::Retry,
            b'd' => BackpressureAction::DiscardData,
            b'f' => BackpressureAction::DiscardDataAndFail,
            _ => BackpressureAction::FollowBackpressureyStrategy,
        }
    }
}

impl<'a, S: Service> Drop for Case<'a, S> {
    fn drop(&mut self) {
        HOOK.with(|h| h.set((0, 0)));
        unsafe { drop(Box::from_raw(self.rx)); }
    }
}

impl<'a, S: Service> Case<'a, S> {
    fn new(svc: &'a PortFactory<S, Pl, ()>, stride: usize, nslots: usize) -> Self {
        let rx = Box::into_raw(Box::new(Rx::<S> {
            subs: (0..nslots).map(|_| None).collect(),
            samples: vec![],
            pub_ids: HashMap::new(),
            sub_ids: HashMap::new(),
            nsample: 0,
            htrace: vec![],
        }));
        HOOK.with(|h| h.set((rx as usize, hook::<S> as *const () as usize)));
        Case {
            svc,
            stride,
            pubs: (0..nslots).map(|_| None).collect(),
            loans: vec![],
            rx,
            pub_seq: HashMap::new(),
            npub: 0,
            nsub: 0,
            nloan: 0,
            ipc: core::any::type_name::<S>().contains("ipc"),
        }
    }

    #[allow(clippy::mut_from_ref)]
    fn rx(&self) -> &mut Rx<S> {
        unsafe { &mut *self.rx }
    }

    /// what the handler did during the send that just returned
    fn take_trace(&self) -> String {
        let t: Vec<String> = std::mem::take(&mut self.rx().htrace);
        if t.is_empty() { String::new() } else { format!(" H {}", t.join(" ")) }
    }

    fn next_value(&mut self, pid: usize) -> u64 {
        let s = self.pub_seq.entry(pid).or_insert(0);
        let v = ((pid as u64 + 1) << 32) | *s;
        *s += 1;
        v
    }

    fn kth_loan(&self, pslot: usize, k: usize) -> Option<usize> {
        self.loans.iter().enumerate().filter(|(_, l)| l.pslot == pslot).map(|(i, _)| i).nth(k)
    }
    fn kth_sample(&self, sslot: usize, k: usize) -> Option<usize> {
        self.rx().samples.iter().enumerate().filter(|(_, l)| l.sslot == sslot).map(|(i, _)| i).nth(k)
    }

    fn send_obs(r: Result<usize, SendError>) -> String {
        match r {
            Ok(n) => format!("n{}", n),
            Err(SendError::ConnectionBrokenSinceSenderNoLongerExists) => "eBroken".into(),
            Err(SendError::UnableToDeliver) => "eUnable".into(),
            Err(SendError::LoanError(LoanError::ExceedsMaxLoans)) => "eLoans".into(),
            Err(SendError::LoanError(LoanError::OutOfMemory)) => "eOom".into(),
            Err(e) => format!("err:{:?}", e).replace(' ', ""),
        }
    }

    /// executes one operation on the real API
    fn exec(&mut self, op: &Op) -> Exec {
        match op {
            Op::Pc(slot, l, retry, script) => {
                if self.pubs[*slot].is_some() { return Exec::NotApplicable; }
                let mut b = self.svc.publisher_builder().max_loaned_samples(*l).backpressure_strategy(
                    if *retry { BackpressureStrategy::RetryUntilDelivered } else { BackpressureStrategy::DiscardData });
                if script != "-" { b = b.set_backpressure_handler(mk_handler(script.clone())); }
                let text = format!("O pc {} {} {}", l, if *retry { 1 } else { 0 }, script);
                match b.create() {
                    Ok(port) => {
                        let id = self.npub;
                        self.npub += 1;
                        self.rx().pub_ids.insert(port.id().value(), id);
                        // address of chunk 0: one loan that is dropped again at once (an unsent loan of a
                        // fresh publisher puts the chunk back where it came from; the model treats the
                        // creation as if this had not happened)
                        let base = port.loan_uninit().ok().map(|u| u.payload().as_ptr() as usize);
                        self.pubs[*slot] = Some(PubH { id, port, base });
                        Exec::Done(format!("{} = c{}", text, id))
                    }
                    Err(PublisherCreateError::ExceedsMaxSupportedPublishers) => Exec::Done(format!("{} = eMaxPub", text)),
                    Err(e) => Exec::Done(format!("{} = err:{:?}", text, e)),
                }
            }
            Op::Pd(slot) => match self.pubs[*slot].take() {
                None => Exec::NotApplicable,
                Some(h) => { let id = h.id; drop(h); Exec::Done(format!("O pd {} = ok", id)) }
            },
            Op::Sc(slot, buf, hreq) => {
                if self.rx().subs[*slot].is_some() { return Exec::NotApplicable; }
                let mut b = self.svc.subscriber_builder();
                if let Some(v) = buf { b = b.buffer_size(*v); }
                if let Some(v) = hreq { b = b.history_request(*v); }
                let sh = |o: &Option<usize>| o.map(|v| v.to_string()).unwrap_or("-".into());
                let text = format!("O sc {} {}", sh(buf), sh(hreq));
                match b.create() {
                    Ok(port) => {
                        let id = self.nsub;
                        self.nsub += 1;
                        self.rx().sub_ids.insert(port.id().value(), id);
                        self.rx().subs[*slot] = Some(SubH { id, port });
                        Exec::Done(format!("{} = c{}", text, id))
                    }
                    Err(SubscriberCreateError::ExceedsMaxSupportedSubscribers) => Exec::Done(format!("{} = eMaxSub", text)),
                    Err(SubscriberCreateError::BufferSizeExceedsMaxSupportedBufferSizeOfService) => Exec::Done(format!("{} = eBuf", text)),
                    Err(SubscriberCreateError::HistoryRequestExceedsHistorySizeOfService) => Exec::Done(format!("{} = eHistSvc", text)),
                    Err(SubscriberCreateError::HistoryRequestExceedsBufferSizeOfSubscriber) => Exec::Done(format!("{} = eHistBuf", text)),
                    Err(e) => Exec::Done(format!("{} = err:{:?}", text, e)),
                }
            }
            Op::Sd(slot) => match self.rx().subs[*slot].take() {
                None => Exec::NotApplicable,
                Some(h) => { let id = h.id; drop(h); Exec::Done(format!("O sd {} = ok", id)) }
            },
            Op::Ln(slot) => {
                let stride = self.stride;
                let (pid, r) = match self.pubs[*slot].as_ref() {
                    None => return Exec::NotApplicable,
                    Some(h) => (h.id, h.port.loan_uninit()),
                };
                match r {
                    Ok(u) => {
                        let v = self.next_value(pid);
                        let smp = u.write_payload(v);
                        let addr = smp.payload() as *const Pl as usize;
                        let h = self.pubs[*slot].as_ref().unwrap();
                        let chunk = match h.base { Some(b) => ((addr as i64 - b as i64) / stride as i64).to_string(), None => "?".into() };
                        let id = self.nloan;
                        self.nloan += 1;
                        self.loans.push(LoanH { id, pslot: *slot, pid, smp });
                        Exec::Done(format!("O ln {} = l{}@{}", pid, id, chunk))
                    }
                    Err(LoanError::ExceedsMaxLoans) => Exec::Done(format!("O ln {} = eLoans", pid)),
                    Err(LoanError::OutOfMemory) => Exec::Done(format!("O ln {} = eOom", pid)),
                    Err(e) => Exec::Done(format!("O ln {} = err:{:?}", pid, e)),
                }
            }
            Op::Wr(slot, k) => match self.kth_loan(*slot, *k) {
                None => Exec::NotApplicable,
                Some(i) => {
                    let pid = self.loans[i].pid;
                    let v = self.next_value(pid);
                    *self.loans[i].smp.payload_mut() = v;
                    Exec::Done(format!("O wr {} = ok", self.loans[i].id))
                }
            },
            Op::Snd(slot, k) => match self.kth_loan(*slot, *k) {
                None => Exec::NotApplicable,
                Some(i) => {
                    let l = self.loans.remove(i);
                    let id = l.id;
                    let r = Self::send_obs(l.smp.send());
                    Exec::Done(format!("O snd {} = {}{}", id, r, self.take_trace()))
                }
            },
            Op::Ld(slot, k) => match self.kth_loan(*slot, *k) {
                None => Exec::NotApplicable,
                Some(i) => { let l = self.loans.remove(i); let id = l.id; drop(l); Exec::Done(format!("O ld {} = ok", id)) }
            },
            Op::Sn(slot) => {
                let pid = match self.pubs[*slot].as_ref() { None => return Exec::NotApplicable, Some(h) => h.id };
                // send_copy(value) = loan_uninit + write_payload + send; the value is only consumed when the loan works
                let v = ((pid as u64 + 1) << 32) | *self.pub_seq.get(&pid).unwrap_or(&0);
                let r = self.pubs[*slot].as_ref().unwrap().port.send_copy(v);
                if !matches!(r, Err(SendError::LoanError(_))) {
                    let _ = self.next_value(pid);
                    self.nloan += 1;   // the model numbers the internal loan as well
                }
                Exec::Done(format!("O sn {} = {}{}", pid, Self::send_obs(r), self.take_trace()))
            }
            Op::Rx(slot) => {
                let (sid, r) = match self.rx().subs[*slot].as_ref() {
                    None => return Exec::NotApplicable,
                    Some(h) => (h.id, h.port.receive()),
                };
                match r {
                    Ok(None) => Exec::Done(format!("O rx {} = none", sid)),
                    Ok(Some(smp)) => {
                        let id = self.rx().nsample;
                        self.rx().nsample += 1;
                        let origin = self.rx().pub_ids.get(&smp.origin().value()).map(|v| v.to_string()).unwrap_or("?".into());
                        let hdr = self.rx().pub_ids.get(&smp.header().publisher_id().value()).map(|v| v.to_string()).unwrap_or("?".into());
                        let v = *smp.payload();
                        self.rx().samples.push(SampH { id, sslot: *slot, sid, smp });
                        let o = if hdr == origin { origin } else { format!("{}!{}", origin, hdr) };
                        Exec::Done(format!("O rx {} = x{}:{}:{}", sid, id, o, show_pl(v)))
                    }
                    Err(ReceiveError::ExceedsMaxBorrows) => Exec::Done(format!("O rx {} = eBorrow", sid)),
                    Err(e) => Exec::Done(format!("O rx {} = err:{:?}", sid, e).replace(' ', "")),
                }
            }
            Op::Rd(slot, k) => match self.kth_sample(*slot, *k) {
                None => Exec::NotApplicable,
                Some(i) => { let s = self.rx().samples.remove(i); let id = s.id; drop(s); Exec::Done(format!("O rd {} = ok", id)) }
            },
            Op::RdNewest(slot) => {
                let n = self.rx().samples.iter().filter(|s| s.sslot == *slot).count();
                if n < 2 { return Exec::NotApplicable; }   // with one sample it is Rd(slot, 0)
                let i = self.kth_sample(*slot, n - 1).unwrap();
                let s = self.rx().samples.remove(i);
                let id = s.id;
                drop(s);
                Exec::Done(format!("O rd {} = ok", id))
            }
            Op::Hs(slot) => match self.rx().subs[*slot].as_ref() {
                None => Exec::NotApplicable,
                Some(h) => match h.port.has_samples() {
                    Ok(b) => {
                        if std::env::var("VERIF_C01_DEBUG").is_ok() {
                            let pid = std::process::id();
                            for d in ["/dev/shm".to_string(), format!("/dev/shm/verif-c01-{}", pid)] {
                                if let Ok(rd) = std::fs::read_dir(&d) { for e in rd.flatten() { let n = e.file_name().to_string_lossy().to_string(); if n.contains(&format!("c01_{}_", pid)) { eprintln!("FILE {}/{}", d, n); } } }
                            }
                        }
                        Exec::Done(format!("O hs {} = b{}", h.id, if b { 1 } else { 0 }))
                    }
                    Err(e) => Exec::Done(format!("O hs {} = err:{:?}", h.id, e)),
                },
            },
            Op::Pu(slot) => match self.pubs[*slot].as_ref() {
                None => Exec::NotApplicable,
                Some(h) => match h.port.update_connections() {
                    Ok(()) => Exec::Done(format!("O pu {} = ok", h.id)),
                    Err(e) => Exec::Done(format!("O pu {} = err:{:?}", h.id, e)),
                },
            },
            Op::Su(slot) => match self.rx().subs[*slot].as_ref() {
                None => Exec::NotApplicable,
                Some(h) => match h.port.update_connections() {
                    Ok(()) => Exec::Done(format!("O su {} = ok", h.id)),
                    Err(e) => Exec::Done(format!("O su {} = err:{:?}", h.id, e)),
                },
            },
            Op::Fc => {
                if !self.ipc { return Exec::Done("O fc = -".into()); }
                let tag = format!("c01_{}_", std::process::id());
                let (mut c, mut d) = (0, 0);
                if let Ok(rd) = std::fs::read_dir("/dev/shm") {
                    for e in rd.flatten() {
                        let n = e.file_name().to_string_lossy().to_string();
                        if n.starts_with(&tag) { if n.ends_with(".connection") { c += 1; } else if n.ends_with(".data") { d += 1; } }
                    }
                }
                Exec::Done(format!("O fc = c{}d{}", c, d))
            }
            Op::Ex(slot) => match self.pubs[*slot].as_ref() {
                None => Exec::NotApplicable,
                Some(h) => {
                    let mut held = vec![];
                    let err;
                    loop {
                        match h.port.loan_uninit() {
                            Ok(u) => held.push(u),
                            Err(LoanError::ExceedsMaxLoans) => { err = "eLoans".to_string(); break; }
                            Err(LoanError::OutOfMemory) => { err = "eOom".to_string(); break; }
                            Err(e) => { err = format!("err:{:?}", e); break; }
                        }
                        if held.len() > 10_000 { err = "unbounded".to_string(); break; }
                    }
                    let n = held.len();
                    self.nloan += n;
                    while let Some(u) = held.pop() { drop(u); }
                    Exec::Done(format!("O ex {} = x{}:{}", h.id, n, err))
                }
            },
        }
    }

    /// the operation as it is printed (ids resolved), None when it is not applicable now
    fn describe(&self, op: &Op) -> Option<String> {
        let sh = |o: &Option<usize>| o.map(|v| v.to_string()).unwrap_or("-".into());
        let pid = |s: &usize| self.pubs[*s].as_ref().map(|h| h.id);
        let sid = |s: &usize| self.rx().subs[*s].as_ref().map(|h| h.id);
        let lid = |s: &usize, k: &usize| self.kth_loan(*s, *k).map(|i| self.loans[i].id);
        Some(match op {
            Op::Pc(slot, l, r, sc) => { if self.pubs[*slot].is_some() { return None; } format!("pc {} {} {}", l, if *r { 1 } else { 0 }, sc) }
            Op::Sc(slot, b, h) => { if self.rx().subs[*slot].is_some() { return None; } format!("sc {} {}", sh(b), sh(h)) }
            Op::Pd(s) => format!("pd {}", pid(s)?),
            Op::Sd(s) => format!("sd {}", sid(s)?),
            Op::Ln(s) => format!("ln {}", pid(s)?),
            Op::Sn(s) => format!("sn {}", pid(s)?),
            Op::Pu(s) => format!("pu {}", pid(s)?),
            Op::Ex(s) => format!("ex {}", pid(s)?),
            Op::Rx(s) => format!("rx {}", sid(s)?),
            Op::Hs(s) => format!("hs {}", sid(s)?),
            Op::Su(s) => format!("su {}", sid(s)?),
            Op::Wr(s, k) => format!("wr {}", lid(s, k)?),
            Op::Snd(s, k) => format!("snd {}", lid(s, k)?),
            Op::Ld(s, k) => format!("ld {}", lid(s, k)?),
            Op::Rd(s, k) => format!("rd {}", self.kth_sample(*s, *k).map(|i| self.rx().samples[i].id)?),
            Op::RdNewest(s) => {
                let n = self.rx().samples.iter().filter(|x| x.sslot == *s).count();
                if n < 2 { return None; }
                format!("rd {}", self.kth_sample(*s, n - 1).map(|i| self.rx().samples[i].id)?)
            }
            Op::Fc => "fc".into(),
        })
    }

    fn view(&self) -> View {
        let mut v = View { pubs: [false; 4], subs: [false; 4], loans: [0; 4], samples: [0; 4] };
        for i in 0..4.min(self.pubs.len()) {
            v.pubs[i] = self.pubs[i].is_some();
            v.subs[i] = self.rx().subs[i].is_some();
            v.loans[i] = self.loans.iter().filter(|l| l.pslot == i).count();
            v.samples[i] = self.rx().samples.iter().filter(|l| l.sslot == i).count();
        }
        v
    }

    fn canary(&self) -> Option<String> {
        if self.rx().samples.is_empty() { return None; }
        let v: Vec<String> = self.rx().samples.iter().map(|s| format!("{}={}", s.id, show_pl(*s.smp.payload()))).collect();
        Some(format!("K {}", v.join(" ")))
    }
}

pub enum RunEnd {
    Complete,
    InvalidAt(usize),
    Panicked,
}

fn run_case<S: Service>(node: &Node<S>, variant: &str, cfg: &Cfg, case_name: &str, stride: usize,
                        next: &mut dyn FnMut(&View, usize) -> Option<Op>, out: &mut Out) -> RunEnd {
    let name: ServiceName = case_name.try_into().unwrap();
    let svc = match node
        .service_builder(&name)
        .publish_subscribe::<Pl>()
        .max_subscribers(cfg.s)
        .max_publishers(cfg.p)
        .subscriber_max_buffer_size(cfg.b)
        .subscriber_max_borrowed_samples(cfg.m)
        .history_size(cfg.h)
        .enable_safe_overflow(cfg.ovf)
        .max_nodes(2)
        .create()
    {
        Ok(s) => s,
        Err(e) => { out.line(&format!("X service-create-failed {:?}", e)); return RunEnd::Panicked; }
    };
    let mut lines: Vec<String> = vec![];
    lines.push(format!("C {} {} {} {} {} {} {} {}", variant, cfg.s, cfg.p, cfg.b, cfg.m, cfg.h, if cfg.ovf { 1 } else { 0 }, cfg.e));
    let mut end = RunEnd::Complete;
    {
        let mut case = Case::<S>::new(&svc, stride, 4);
        let mut k = 0usize;
        let mut finals: Vec<Op> = vec![];
        let mut in_finals = false;
        loop {
            let op = if in_finals {
                match finals.pop() { Some(o) => o, None => break }
            } else {
                match next(&case.view(), k) {
                    Some(o) => o,
                    None => {
                        // final exhaustion probe on every live publisher
                        in_finals = true;
                        for slot in (0..4).rev() { if case.pubs[slot].is_some() { finals.push(Op::Ex(slot)); } }
                        continue;
                    }
                }
            };
            let desc = case.describe(&op);
            let r = catch_unwind(AssertUnwindSafe(|| case.exec(&op)));
            match r {
                Ok(Exec::Done(text)) => {
                    lines.push(text);
                    match catch_unwind(AssertUnwindSafe(|| case.canary())) {
                        Ok(Some(kl)) => lines.push(kl),
                        Ok(None) => {}
                        Err(_) => { lines.push("K P".into()); end = RunEnd::Panicked; break; }
                    }
                }
                Ok(Exec::NotApplicable) => { end = RunEnd::InvalidAt(k); break; }
                Err(_) => {
                    lines.push(format!("O {} = P", desc.unwrap_or_else(|| "?".into())));
                    end = RunEnd::Panicked;
                    break;
                }
            }
            k += 1;
        }
        // orderly end of the case: samples, loans, subscribers, publishers
        let _ = catch_unwind(AssertUnwindSafe(|| {
            while let Some(s) = case.rx().samples.pop() { drop(s); }
            while let Some(l) = case.loans.pop() { drop(l); }
            for s in case.rx().subs.iter_mut() { *s = None; }
            for p in case.pubs.iter_mut() { *p = None; }
        }));
    }
    drop(svc);
    if !matches!(end, RunEnd::InvalidAt(_)) {
        for l in &lines { out.line(l); }
    }
    end
}

/// `hist` mode: ops as the harness prints them (ids!), translated to slots: the id of a port is
/// used as its slot, loans and samples are addressed by id
fn parse_hist_ops(tokens: &[String]) -> Vec<(String, Vec<String>)> {
    tokens.iter().map(|t| {
        let v: Vec<String> = t.split(|c| c == '_' || c == ' ').filter(|s| !s.is_empty()).map(|s| s.to_string()).collect();
        (v[0].clone(), v[1..].to_vec())
    }).collect()
}

fn run_hist<S: Service>(node: &Node<S>, variant: &str, cfg: &Cfg, name: &str, stride: usize, toks: &[String], out: &mut Out) {
    // translate id-based ops into positional ones by tracking ids -> (slot, position) the same way exec does
    let hops = parse_hist_ops(toks);
    let nm: ServiceName = name.try_into().unwrap();
    let svc = node.service_builder(&nm).publish_subscribe::<Pl>()
        .max_subscribers(cfg.s).max_publishers(cfg.p).subscriber_max_buffer_size(cfg.b)
        .subscriber_max_borrowed_samples(cfg.m).history_size(cfg.h).enable_safe_overflow(cfg.ovf).max_nodes(2)
        .create().expect("service");
    out.line(&format!("C {} {} {} {} {} {} {} {}", variant, cfg.s, cfg.p, cfg.b, cfg.m, cfg.h, if cfg.ovf { 1 } else { 0 }, cfg.e));
    let mut case = Case::<S>::new(&svc, stride, 16);
    for (name, args) in hops {
        let a = |k: usize| -> usize { args[k].parse().expect("numeric argument") };
        // ports: slot = id (ids are dense and a slot is used once in hist mode)
        let op = match name.as_str() {
            "pc" => Op::Pc(case.npub, a(0), args[1] == "1", args[2].clone()),
            "pd" => Op::Pd(a(0)),
            "sc" => Op::Sc(case.nsub, parse_opt(&args[0]), parse_opt(&args[1])),
            "sd" => Op::Sd(a(0)),
            "ln" => Op::Ln(a(0)), "sn" => Op::Sn(a(0)), "rx" => Op::Rx(a(0)), "hs" => Op::Hs(a(0)),
            "pu" => Op::Pu(a(0)), "su" => Op::Su(a(0)), "ex" => Op::Ex(a(0)), "fc" => Op::Fc,
            "wr" | "snd" | "ld" => {
                let id = a(0);
                match case.loans.iter().find(|l| l.id == id) {
                    None => { out.line(&format!("O {} {} = -", name, id)); continue; }
                    Some(l) => {
                        let slot = l.pslot;
                        let k = case.loans.iter().filter(|x| x.pslot == slot).position(|x| x.id == id).unwrap();
                        match name.as_str() { "wr" => Op::Wr(slot, k), "snd" => Op::Snd(slot, k), _ => Op::Ld(slot, k) }
                    }
                }
            }
            "rd" => {
                let id = a(0);
                match case.rx().samples.iter().find(|l| l.id == id) {
                    None => { out.line(&format!("O rd {} = -", id)); continue; }
                    Some(l) => {
                        let slot = l.sslot;
                        let k = case.rx().samples.iter().filter(|x| x.sslot == slot).position(|x| x.id == id).unwrap();
                        Op::Rd(slot, k)
                    }
                }
            }
            o => panic!("unknown op {}", o),
        };
        match catch_unwind(AssertUnwindSafe(|| case.exec(&op))) {
            Ok(Exec::Done(t)) => {
                out.line(&t);
                if let Some(k) = case.canary() { out.line(&k); }
            }
            Ok(Exec::NotApplicable) => out.line(&format!("O {} {} = -", name, args.join(" "))),
            Err(_) => { out.line(&format!("O {} {} = P", name, args.join(" "))); break; }
        }
    }
    let _ = catch_unwind(AssertUnwindSafe(|| {
        while let Some(s) = case.rx().samples.pop() { drop(s); }
        while let Some(l) = case.loans.pop() { drop(l); }
        for s in case.rx().subs.iter_mut() { *s = None; }
        for p in case.pubs.iter_mut() { *p = None; }
    }));
}

mod gen;
mod grow;

fn measure_stride<S: Service>(node: &Node<S>, pid: u32) -> usize {
    let name: ServiceName = format!("c01/{}/stride", pid).as_str().try_into().unwrap();
    let svc = node.service_builder(&name).publish_subscribe::<Pl>().max_nodes(2).create().expect("scratch service");
    let p = svc.publisher_builder().max_loaned_samples(2).create().expect("scratch publisher");
    let a = p.loan_uninit().expect("loan").write_payload(0);
    let b = p.loan_uninit().expect("loan").write_payload(0);
    let d = (b.payload() as *const Pl as usize).wrapping_sub(a.payload() as *const Pl as usize);
    d
}

fn run_all<S: Service>(args: &[String], config_for: &dyn Fn(usize) -> Config, out: &mut Out) {
    let pid = std::process::id();
    let variant = args[2].clone();
    let mut nodes: HashMap<usize, Node<S>> = HashMap::new();
    let mut get_node = |e: usize| -> *const Node<S> {
        let n = nodes.entry(e).or_insert_with(|| NodeBuilder::new().config(&config_for(e)).create::<S>().expect("node"));
        n as *const Node<S>
    };
    let stride = measure_stride::<S>(unsafe { &*get_node(128) }, pid);
    let mut case_counter = 0u64;
    match args[1].as_str() {
        "grow" => {
            // schema file of the flatbuffer service: any readable file
            let root = format!("/dev/shm/verif-c01-{}", pid);
            let p = format!("{}/blob.fbs", root);
            std::fs::write(&p, "table Blob { data:[ubyte]; } root_type Blob;\n").expect("schema file");
            let schema = FilePath::new(p.as_bytes()).unwrap();
            grow::run::<S>(unsafe { &*get_node(128) }, &variant, &schema, out);
        }
        "hist" => {
            let cfg = Cfg::parse(&args[3]);
            let node = unsafe { &*get_node(cfg.e) };
            run_hist::<S>(node, &variant, &cfg, &format!("c01/{}/h", pid), stride, &args[4..], out);
        }
        "exh" => {
            let suite = args[3].clone();
            let len: usize = args[4].parse().unwrap();
            let shard: u64 = args[5].parse().unwrap();
            let nshards: u64 = args[6].parse().unwrap();
            gen::exhaustive(&suite, len, shard, nshards, &mut |cfg: &Cfg, ops: &[Op]| {
                case_counter += 1;
                let node = unsafe { &*get_node(cfg.e) };
                run_case::<S>(node, &variant, cfg, &format!("c01/{}/{}", pid, case_counter), stride,
                              &mut |_v: &View, k: usize| ops.get(k).cloned(), out)
            });
        }
        "rnd" => {
            let maxlen: u64 = args[3].parse().unwrap();
            let shard: u64 = args[4].parse().unwrap();
            let seed: u64 = args[6].parse().unwrap();
            let ncases: u64 = args[7].parse().unwrap();
            let big = args.get(8).map(|s| s == "big").unwrap_or(false);
            let mut rng = Rng(seed ^ shard.wrapping_mul(0xA24BAED4963EE407) ^ 0xC01);
            for _ in 0..ncases {
                let rc = gen::random_case(&mut rng, maxlen, big);
                case_counter += 1;
                let node = unsafe { &*get_node(rc.cfg.e) };
                let len = rc.len as usize;
                let end = run_case::<S>(node, &variant, &rc.cfg, &format!("c01/{}/{}", pid, case_counter), stride,
                    &mut |v: &View, k: usize| if k < len { Some(gen::random_next(&rc, &mut rng, v)) } else { None }, out);
                if let RunEnd::InvalidAt(k) = end { out.line(&format!("X generator-invalid-op at {}", k)); }
            }
        }
        m => panic!("unknown mode {}", m),
    }
}

fn main() {
    if std::env::var("VERIF_PANIC_VERBOSE").is_err() {
        std::panic::set_hook(Box::new(|_| {}));
    }
    iceoryx2_log::set_log_level(iceoryx2_log::LogLevel::Fatal);
    let a: Vec<String> = std::env::args().collect();
    if a.len() < 3 {
        eprintln!("usage: c01 exh|rnd|hist <variant> ...");
        std::process::exit(2);
    }
    let pid = std::process::id();
    let root = format!("/dev/shm/verif-c01-{}", pid);
    std::fs::create_dir_all(&root).expect("private root");
    let prefix = format!("c01_{}_", pid);
    let root2 = root.clone();
    let prefix2 = prefix.clone();
    let config_for = move |e: usize| -> Config {
        let mut config = Config::default();
        config.global.prefix = FileName::new(prefix2.as_bytes()).unwrap();
        config.global.set_root_path(&Path::new(root2.as_bytes()).unwrap());
        config.defaults.publish_subscribe.subscriber_expired_connection_buffer = e;
        config
    };
    let mut out = Out { w: std::io::BufWriter::with_capacity(1 << 20, std::io::stdout()) };
    let rc = catch_unwind(AssertUnwindSafe(|| match a[2].as_str() {
        "ipc" => run_all::<ipc::Service>(&a, &config_for, &mut out),
        "local" => run_all::<local::Service>(&a, &config_for, &mut out),
        v => panic!("unknown variant {}", v),
    }));
    let _ = out.w.flush();
    let _ = std::fs::remove_dir_all(&root);
    if let Ok(rd) = std::fs::read_dir("/dev/shm") {
        for e in rd.flatten() {
            if e.file_name().to_string_lossy().starts_with(&prefix) {
                let _ = std::fs::remove_file(e.path());
            }
        }
    }
    if rc.is_err() {
        eprintln!("harness panicked");
        std::process::exit(3);
    }
}
