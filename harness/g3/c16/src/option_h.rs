//! RelocatableOption histories (one storage form: a repr(C) enum).
use crate::*;
use iceoryx2_bb_container::relocatable_option::RelocatableOption;

#[derive(Clone, Debug, PartialEq)]
pub enum Op { Replace, Take, TakeIf(Vec<u64>), IsSome, IsNone, Get, ToOption, Unwrap, Expect, UnwrapOr, UnwrapOrElse, Map(u64) }

fn alphabet() -> Vec<Op> {
    vec![Op::Replace, Op::Take, Op::TakeIf(vec![1, 3]), Op::TakeIf(vec![]), Op::IsSome, Op::IsNone, Op::Get, Op::ToOption, Op::Unwrap, Op::Expect,
         Op::UnwrapOr, Op::UnwrapOrElse, Op::Map(100)]
}
fn fmt_ro(o: RelocatableOption<El>) -> String { fmt_opt(o.to_option().map(forget_val)) }
fn ids(l: &[u64]) -> String { if l.is_empty() { "-".into() } else { l.iter().map(|x| x.to_string()).collect::<Vec<_>>().join(",") } }

pub fn run_case(ops: &[Op], out: &mut Out) {
    out.line("C option inline el 0");
    let mut cell: RelocatableOption<El> = RelocatableOption::None;
    let mut next = 1u64;
    take_drops();
    for op in ops {
        // by-value methods get the content moved out of the cell (the caller's move leaves None)
        let line = match op {
            Op::Replace => { let x = next; next += 1; match guarded(|| fmt_ro(cell.replace(El(x)))) { Some(r) => format!("O replace {} = {}|{}", x, r, fmt_list(&take_drops())), None => format!("O replace {} = P", x) } }
            Op::Take => match guarded(|| fmt_ro(cell.take())) { Some(r) => format!("O take = {}|{}", r, fmt_list(&take_drops())), None => "O take = P".into() },
            Op::TakeIf(l) => match guarded(|| fmt_ro(cell.take_if(|v| l.contains(&v.0)))) { Some(r) => format!("O takeif {} = {}|{}", ids(l), r, fmt_list(&take_drops())), None => format!("O takeif {} = P", ids(l)) },
            Op::IsSome => format!("O issome = {}", fmt_bool(cell.is_some())),
            Op::IsNone => format!("O isnone = {}", fmt_bool(cell.is_none())),
            Op::Get => {
                let a = cell.as_option_ref().map(|e| e.0); let b = cell.as_ref().to_option().map(|e| e.0);
                let c = cell.as_option_mut().map(|e| e.0); let d = cell.as_mut().to_option().map(|e| e.0);
                if a != b || a != c || a != d { "O get = ?accessors-differ".into() } else { format!("O get = {}", fmt_opt(a)) } }
            Op::ToOption => { let v = core::mem::replace(&mut cell, RelocatableOption::None); format!("O tooption = {}|{}", fmt_opt(v.to_option().map(forget_val)), fmt_list(&take_drops())) }
            Op::Unwrap => { let v = core::mem::replace(&mut cell, RelocatableOption::None); match guarded(move || forget_val(v.unwrap())) { Some(r) => format!("O unwrap = u{}|{}", r, fmt_list(&take_drops())), None => "O unwrap = P".into() } }
            Op::Expect => { let v = core::mem::replace(&mut cell, RelocatableOption::None); match guarded(move || forget_val(v.expect("c16"))) { Some(r) => format!("O expect = u{}|{}", r, fmt_list(&take_drops())), None => "O expect = P".into() } }
            Op::UnwrapOr => { let x = next; next += 1; let v = core::mem::replace(&mut cell, RelocatableOption::None);
                match guarded(move || forget_val(v.unwrap_or(El(x)))) { Some(r) => format!("O unwrapor {} = u{}|{}", x, r, fmt_list(&take_drops())), None => format!("O unwrapor {} = P", x) } }
            Op::UnwrapOrElse => { let x = next; next += 1; let v = core::mem::replace(&mut cell, RelocatableOption::None);
                match guarded(move || forget_val(v.unwrap_or_else(|| El(x)))) { Some(r) => format!("O unwraporelse {} = u{}|{}", x, r, fmt_list(&take_drops())), None => format!("O unwraporelse {} = P", x) } }
            Op::Map(d) => { let d = *d; let v = core::mem::replace(&mut cell, RelocatableOption::None);
                match guarded(move || fmt_ro(v.map(|e| El(forget_val(e) + d)))) { Some(r) => format!("O map {} = {}|{}", d, r, fmt_list(&take_drops())), None => format!("O map {} = P", d) } }
        };
        let panicked = line.ends_with("= P");
        out.line(&line);
        if panicked { take_drops(); return; }
        if cell.is_some() == cell.is_none() { out.line("O sidecheck = b0"); }
    }
    take_drops();
    let r = guarded(move || drop(cell));
    match r { Some(()) => out.line(&format!("O drop = ok|{}", fmt_list(&take_drops()))), None => out.line("O drop = P") }
}

pub fn run(a: &Args, out: &mut Out) {
    let alpha = alphabet();
    if a.mode == "exh" {
        let mut idx = 0u64;
        for len in 0..=a.maxlen {
            let total = (alpha.len() as u64).pow(len as u32);
            for code in 0..total {
                idx += 1;
                if idx % a.nshards != a.shard { continue; }
                let mut c = code; let mut ops = Vec::with_capacity(len);
                for _ in 0..len { ops.push(alpha[(c % alpha.len() as u64) as usize].clone()); c /= alpha.len() as u64; }
                run_case(&ops, out);
            }
        }
    } else {
        for n in 0..a.ncases {
            if n % a.nshards != a.shard { continue; }
            let mut rng = Rng(a.seed ^ (n.wrapping_mul(0x2545F4914F6CDD1D)) ^ 0x6f70);
            let len = 1 + rng.below(a.maxlen as u64) as usize;
            let mut ops = Vec::with_capacity(len);
            for _ in 0..len {
                let r = rng.below(100);
                // unwrap/expect on an empty cell end the case: keep them rare and mostly after a replace
                let op = if r < 40 { Op::Replace } else if r < 50 { Op::Take } else if r < 60 { Op::TakeIf((0..rng.below(3)).map(|_| rng.below(40)).collect()) }
                    else if r < 66 { Op::IsSome } else if r < 72 { Op::Get } else if r < 78 { Op::ToOption } else if r < 84 { Op::UnwrapOr } else if r < 90 { Op::UnwrapOrElse }
                    else if r < 96 { Op::Map(rng.below(50)) } else if r < 98 { Op::IsNone } else if matches!(ops.last(), Some(Op::Replace)) { if r == 98 { Op::Unwrap } else { Op::Expect } } else { Op::IsNone };
                ops.push(op);
            }
            run_case(&ops, out);
        }
    }
}
